"""C13 hunt, defect 1: a documented seed type makes RandomKCNF / RandomKXOR
fail with TypeError.

Run as:  cd WORKDIR && /venv/bin/python _hunt/1/demo.py
"""
import sys
import warnings


def attempt(builder, seed):
    """Build the same formula twice with `seed`; return (status, detail)."""
    try:
        F = builder(3, 5, 4, seed=seed)
        G = builder(3, 5, 4, seed=seed)
    except ValueError as e:
        return 'ValueError', repr(e)
    except Exception as e:  # anything else is not promised at all
        return type(e).__name__, repr(e)
    if F.number_of_variables() != 5:
        return 'wrong', 'number of variables {}'.format(F.number_of_variables())
    if list(F) != list(G):
        return 'wrong', 'same seed, different formulas'
    return 'ok', '{} clauses'.format(len(F))


if __name__ == '__main__':
    warnings.simplefilter('ignore')
    sys.path.insert(0, '.')
    from cnfgen import RandomKCNF, RandomKXOR

    print("Property C13: for all k, n, m, ALL SEEDS ...: the request fails with")
    print("a ValueError exactly when k>n or m exceeds the number of compatible")
    print("clauses (parities), and never otherwise.")
    print("Docstring of RandomKCNF / RandomKXOR:  'seed : hashable object'.")
    print("Request: k=3, n=5, m=4 (k<=n, m far below the maximum 80 / 20).")
    print()

    seeds = [7, 'abc', (1, 2), ('run', 3), frozenset([1, 2])]
    failures = 0
    for builder in (RandomKCNF, RandomKXOR):
        for seed in seeds:
            status, detail = attempt(builder, seed)
            verdict = 'as promised' if status == 'ok' else 'VIOLATION'
            if status != 'ok':
                failures += 1
            print("{:10s} seed={!r:22} -> {:10s} {}   [{}]".format(
                builder.__name__, seed, status, detail.replace('\n', ' '),
                verdict))

    print()
    if failures:
        print("FAIL: {} legal requests with a hashable seed were refused "
              "(with TypeError, not even the promised ValueError).".format(failures))
        sys.exit(1)
    print("OK: every hashable seed is accepted and gives a reproducible formula.")
    sys.exit(0)
