"""C13 hunt, defect 3: n >= 2**63 makes RandomKCNF / RandomKXOR die with
OverflowError (and the command line with a traceback), although n = 2**63-1
works.

Run as:  cd WORKDIR && /venv/bin/python _hunt/3/demo.py
"""
import subprocess
import sys
import warnings


def check(builder, k, n, m):
    try:
        F = builder(k, n, m, seed=1)
    except ValueError as e:
        return 'ValueError', repr(e)
    except Exception as e:
        return type(e).__name__, repr(e)
    clauses = list(F)
    width = k
    nclauses = m if builder.__name__ == 'RandomKCNF' else m * 2 ** (k - 1)
    good = (F.number_of_variables() == n
            and len(clauses) == nclauses
            and len(set(map(tuple, clauses))) == nclauses
            and all(len(c) == width and len(set(map(abs, c))) == width
                    and all(1 <= abs(l) <= n for l in c) for c in clauses))
    return ('ok' if good else 'wrong'), '{} vars, {} clauses'.format(
        F.number_of_variables(), len(clauses))


if __name__ == '__main__':
    warnings.simplefilter('ignore')
    sys.path.insert(0, '.')
    from cnfgen import RandomKCNF, RandomKXOR

    print("Property C13: for all k, n, m, all seeds: exactly n variables, m distinct")
    print("k-clauses (parities); failure (ValueError) exactly when k>n or m exceeds")
    print("the number of compatible clauses, and never otherwise.")
    print()
    failures = 0
    for builder in (RandomKCNF, RandomKXOR):
        for n in (2 ** 63 - 1, 2 ** 63, 10 ** 30):
            status, detail = check(builder, 3, n, 2)
            verdict = 'as promised' if status == 'ok' else 'VIOLATION'
            failures += status != 'ok'
            print("{}(3, {}, 2) -> {}: {}   [{}]".format(
                builder.__name__, n, status, detail, verdict))

    # the command line: traceback instead of a formula (or of a clean error)
    code = ("import sys, warnings; warnings.simplefilter('ignore'); "
            "sys.path.insert(0, '.'); "
            "from cnfgen.clitools.cnfgen import main; "
            "sys.argv = ['cnfgen', '-q', '--seed', '1', 'randkcnf', '3', '%d', '2']; "
            "main()" % 2 ** 63)
    p = subprocess.run([sys.executable, '-c', code], capture_output=True, text=True)
    last = (p.stderr.strip().splitlines() or [''])[-1]
    cli_ok = p.returncode == 0 and p.stdout.startswith('p cnf %d 2' % 2 ** 63)
    print("cnfgen -q --seed 1 randkcnf 3 {} 2 -> exit {}, {}   [{}]".format(
        2 ** 63, p.returncode,
        'Traceback ... ' + last if 'Traceback' in p.stderr else (last or 'formula printed'),
        'as promised' if cli_ok else 'VIOLATION'))
    failures += not cli_ok

    print()
    if failures:
        print("FAIL: {} legal requests (k=3 <= n, m=2) failed with OverflowError.".format(failures))
        sys.exit(1)
    print("OK")
    sys.exit(0)
