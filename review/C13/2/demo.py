"""C13 hunt, defect 2: the command line refuses k=0 and n=0, which are legal
requests (accepted by RandomKCNF / RandomKXOR, and in the project's own tests).

Run as:  cd WORKDIR && /venv/bin/python _hunt/2/demo.py
"""
import contextlib
import io
import sys
import warnings


def run_cli(cnfgen, CLIError, argv):
    """Return ('ok', formula) or ('error', message)."""
    err = io.StringIO()
    try:
        with contextlib.redirect_stderr(err):
            F = cnfgen(argv, mode='formula')
    except CLIError as e:
        return 'error', str(e).strip().splitlines()[0]
    except SystemExit as e:
        return 'error', 'SystemExit({}) {}'.format(e.code, err.getvalue()[:80])
    return 'ok', F


if __name__ == '__main__':
    warnings.simplefilter('ignore')
    sys.path.insert(0, '.')
    from cnfgen import RandomKCNF, RandomKXOR
    from cnfgen.clitools import cnfgen, CLIError

    print("Property C13: for all k, n, m (INCLUDING 0 and the exact maximum) the")
    print("request fails exactly when k>n or m exceeds the number of compatible")
    print("clauses (parities), and never otherwise.  Observed on RandomKCNF /")
    print("RandomKXOR return value and on `cnfgen randkcnf|randkxor [-p]` output.")
    print()

    # (family, library function, k, n, m, plant, expected number of clauses)
    cases = [
        ('randkcnf', RandomKCNF, 0, 5, 0, False, 0),   # tests/test_randomcnf.py::test_empty_cnf_with_vars
        ('randkcnf', RandomKCNF, 0, 5, 1, False, 1),   # the one 0-clause: the empty clause
        ('randkcnf', RandomKCNF, 0, 5, 0, True, 0),
        ('randkxor', RandomKXOR, 0, 5, 2, False, 1),   # ()=0 (no clause) and ()=1 (empty clause)
        ('randkxor', RandomKXOR, 0, 5, 0, True, 0),
    ]
    failures = 0
    for fam, lib, k, n, m, plant, nclauses in cases:
        planted = [[-v for v in range(1, n + 1)]] if plant else None
        L = lib(k, n, m, seed=1, planted_assignments=planted)
        libres = 'formula, {} vars, {} clauses'.format(L.number_of_variables(), len(L))
        assert L.number_of_variables() == n and len(L) == nclauses

        argv = ['cnfgen', '-q', '--seed', 1, fam, k, n, m] + (['-p'] if plant else [])
        status, res = run_cli(cnfgen, CLIError, argv)
        cmd = ' '.join(map(str, argv))
        if status == 'ok' and res.number_of_variables() == n and len(res) == nclauses:
            print("{:40s} library: {:32s} cli: same   [as promised]".format(cmd, libres))
        else:
            failures += 1
            detail = res if status == 'error' else 'different formula'
            print("{:40s} library: {:32s} cli: REFUSED: {}   [VIOLATION]".format(
                cmd, libres, detail))

    # n = 0 (library: tests/test_randomcnf.py::test_empty_cnf is RandomKCNF(0,0,0))
    L = RandomKCNF(0, 0, 0)
    status, res = run_cli(cnfgen, CLIError, ['cnfgen', '-q', 'randkcnf', 0, 0, 0])
    if status != 'ok':
        failures += 1
        print("{:40s} library: {:32s} cli: REFUSED: {}   [VIOLATION]".format(
            'cnfgen -q randkcnf 0 0 0',
            'formula, {} vars, {} clauses'.format(L.number_of_variables(), len(L)), res))

    print()
    if failures:
        print("FAIL: {} legal requests (k<=n, m within the maximum) were refused "
              "by the command line.".format(failures))
        sys.exit(1)
    print("OK: the command line accepts k=0 / n=0 like the library does.")
    sys.exit(0)
