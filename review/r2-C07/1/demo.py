"""C07: the 'generator:' line of the header depends on the environment
of the process (GIT_DIR and friends), not only on the command line and
the seed.

Run as:   cd WORKDIR && /venv/bin/python _hunt/1/demo.py
Exit status 1 while the defect is there, 0 once it is repaired.
"""
import os
import shutil
import subprocess
import sys
import tempfile

sys.path.insert(0, os.getcwd())


def run_tool(tool, args, extra_env, stdin=None):
    env = dict(os.environ)
    # start from a clean slate: nothing about git in the environment
    for k in list(env):
        if k.startswith('GIT_'):
            del env[k]
    env['PYTHONPATH'] = os.getcwd()
    env['PYTHONHASHSEED'] = '0'
    env.update(extra_env)
    p = subprocess.run([sys.executable, '-W', 'ignore', '-m',
                        'cnfgen.clitools.' + tool] + args,
                       env=env, input=stdin,
                       stdout=subprocess.PIPE, stderr=subprocess.PIPE)
    return p.returncode, p.stdout


def make_other_repository(where):
    """A repository that has nothing to do with CNFgen"""
    def git(*cmd):
        subprocess.run(['git', '-c', 'user.name=x', '-c', 'user.email=x@y',
                        '-c', 'commit.gpgsign=false', '-c', 'tag.gpgsign=false']
                       + list(cmd), cwd=where, check=True,
                       stdout=subprocess.DEVNULL, stderr=subprocess.DEVNULL)
    git('init', '-q')
    with open(os.path.join(where, 'README'), 'w') as f:
        f.write('some other project\n')
    git('add', 'README')
    git('commit', '-q', '-m', 'initial')
    git('tag', 'other-project-1.0')
    return os.path.join(where, '.git')


if __name__ == '__main__':
    here = os.path.dirname(os.path.abspath(__file__))
    tmp = tempfile.mkdtemp(prefix='otherrepo-', dir=here)
    failures = 0
    try:
        gitdir = make_other_repository(tmp)
        dimacs = b'p cnf 3 2\n1 -2 0\n2 3 0\n'
        cases = [
            ('cnfgen', ['--seed', '7', 'randkcnf', '3', '10', '5'], None),
            ('pbgen', ['--seed', '7', 'php', '3', '2'], None),
            ('cnfshuffle', ['--seed', '7'], dimacs),
        ]
        # (a) a process started from a git hook, or by a user who works with
        #     GIT_DIR exported, has GIT_DIR in its environment
        # (b) per-process git configuration (shown for information, the exit
        #     status of this script depends on (a) only)
        environments = [
            ('GIT_DIR=<another repository>', {'GIT_DIR': gitdir}),
            ('GIT_CONFIG_COUNT=1 core.abbrev=20',
             {'GIT_CONFIG_COUNT': '1', 'GIT_CONFIG_KEY_0': 'core.abbrev',
              'GIT_CONFIG_VALUE_0': '20'}),
        ]
        print("Property C07: same command line and same --seed => byte-identical")
        print("output, header included, whatever the process.\n")
        for tool, args, stdin in cases:
            ref = run_tool(tool, args, {}, stdin)
            again = run_tool(tool, args, {}, stdin)
            assert ref == again and ref[0] == 0, "unexpected: plain runs differ"
            for label, env in environments:
                other = run_tool(tool, args, env, stdin)
                if other != ref:
                    if 'GIT_DIR' in env:
                        # the exit status depends on this case only
                        failures += 1
                    print("VIOLATION: {} {}".format(tool, ' '.join(args)))
                    print("   process 1 (no GIT_* variables) :")
                    for l in ref[1].decode().splitlines():
                        if 'generator' in l:
                            print("       " + l)
                    print("   process 2 ({}) :".format(label))
                    for l in other[1].decode().splitlines():
                        if 'generator' in l:
                            print("       " + l)
                else:
                    print("ok: {} {}   [{}]".format(tool, ' '.join(args), label))
    finally:
        shutil.rmtree(tmp, ignore_errors=True)

    if failures:
        print("\n{} pairs of runs with the same arguments and the same seed"
              " gave different output".format(failures))
        sys.exit(1)
    print("\nall outputs identical")
    sys.exit(0)
