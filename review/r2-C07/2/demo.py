"""C07: with the same arguments and the same seed, the output of
'cnfshuffle -i FILE' and of 'cnfgen dimacs FILE' depends on whether the
standard input of the process is open, although standard input is not
used at all.

Run as:   cd WORKDIR && /venv/bin/python _hunt/2/demo.py
Exit status 1 while the defect is there, 0 once it is repaired.
"""
import os
import subprocess
import sys
import tempfile

sys.path.insert(0, os.getcwd())


def close_stdin():
    os.close(0)


def run_tool(tool, args, closed_stdin):
    env = dict(os.environ)
    env['PYTHONPATH'] = os.getcwd()
    cmd = [sys.executable, '-W', 'ignore', '-m', 'cnfgen.clitools.' + tool] + args
    if closed_stdin:
        # what the shell does for   cnfshuffle ... <&-
        p = subprocess.run(cmd, env=env, preexec_fn=close_stdin,
                           stdout=subprocess.PIPE, stderr=subprocess.PIPE)
    else:
        p = subprocess.run(cmd, env=env, stdin=subprocess.DEVNULL,
                           stdout=subprocess.PIPE, stderr=subprocess.PIPE)
    return p.returncode, p.stdout, p.stderr


if __name__ == '__main__':
    here = os.path.dirname(os.path.abspath(__file__))
    fd, path = tempfile.mkstemp(prefix='input-', suffix='.cnf', dir=here)
    os.write(fd, b'c a small formula\np cnf 5 4\n1 -2 3 0\n-1 4 0\n2 5 0\n-3 -4 -5 0\n')
    os.close(fd)
    failures = 0
    try:
        cases = [
            ('cnfshuffle', ['--seed', '5', '-i', path]),
            ('cnfgen', ['--seed', '5', 'dimacs', path, '-T', 'shuffle']),
        ]
        print("Property C07: same arguments and same --seed => byte-identical")
        print("output, in every process. These commands read FILE, not stdin.\n")
        for tool, args in cases:
            rc1, out1, err1 = run_tool(tool, args, closed_stdin=False)
            rc2, out2, err2 = run_tool(tool, args, closed_stdin=True)
            shown = ' '.join(a if a != path else 'FILE' for a in args)
            if (rc1, out1) != (rc2, out2):
                failures += 1
                print("VIOLATION: {} {}".format(tool, shown))
                print("   stdin open   : exit status {}, {} bytes on stdout".format(rc1, len(out1)))
                print("   stdin closed : exit status {}, {} bytes on stdout".format(rc2, len(out2)))
                last = err2.decode(errors='replace').strip().splitlines()[-1:]
                print("   stderr ends with: {}".format(last[0] if last else ''))
            else:
                print("ok: {} {}".format(tool, shown))
    finally:
        os.remove(path)

    if failures:
        print("\n{} commands gave a different output in two processes, with "
              "the same arguments and the same seed".format(failures))
        sys.exit(1)
    print("\nall outputs identical")
    sys.exit(0)
