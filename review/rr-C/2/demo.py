"""420639a refuses every edge whose endpoint is a subgraph, also the usual
shorthand `1 -- {2 3}` that was read completely and correctly before.

Run as:  cd /tmp/rr-C && /venv/bin/python _review/2/demo.py
"""
import io
import os
import sys
import warnings

sys.path.insert(0, os.getcwd())
warnings.simplefilter('ignore')   # the project has a SyntaxWarning of its own

# (text, graph type, expected description)
CASES = [
    # the shorthand of the DOT language for "1 -- 2; 1 -- 3"
    ('graph { 1 -- {2 3} }', 'simple',
     (3, [(1, 2), (1, 3)])),
    ('digraph { 1 -> {2 3}; 2 -> 3 }', 'dag',
     (3, [(1, 2), (1, 3), (2, 3)])),
    ('graph { {1 2} -- {3 4} }', 'simple',
     (4, [(1, 3), (1, 4), (2, 3), (2, 4)])),
    # the way www/graphformats.org itself draws its bipartite examples
    ('graph {\n'
     ' 1 [bipartite=0]; 2 [bipartite=0];\n'
     ' 3 [bipartite=1]; 4 [bipartite=1]; 5 [bipartite=1];\n'
     ' 1 -- {3 4}\n'
     ' 2 -- {4 5}\n'
     '}\n', 'bipartite',
     (2, 3, [(1, 1), (1, 2), (2, 2), (2, 3)])),
]


def describe(G):
    if G.is_bipartite():
        return (G.left_order(), G.right_order(), sorted(G.edges()))
    return (G.number_of_vertices(), sorted(G.edges()))


if __name__ == '__main__':
    from cnfgen.graphs import readGraph

    failures = 0
    for text, gtype, expected in CASES:
        try:
            got = describe(readGraph(io.StringIO(text), gtype, 'dot'))
        except Exception as e:
            got = '{}: {}'.format(type(e).__name__, e)
        status = 'ok  ' if got == expected else 'FAIL'
        print('{} {!r} as {}'.format(status, text, gtype))
        if got != expected:
            failures += 1
            print('     EXPECTED (and obtained before 420639a): {}'.format(expected))
            print('     GOT: {}'.format(got))

    # what the repair was after: an endpoint whose subgraph holds more than
    # plain vertices cannot be expanded by networkx and has to be refused
    try:
        G = readGraph(io.StringIO('graph { 1 -- {2 -- 3} }'), 'simple', 'dot')
        print('FAIL the edge inside the endpoint was dropped: {}'.format(describe(G)))
        failures += 1
    except ValueError:
        print('ok   \'graph { 1 -- {2 -- 3} }\' is refused (ValueError)')

    if failures:
        print('FAIL: {} problem(s) with subgraphs as edge endpoints'.format(failures))
        sys.exit(1)
    print('OK')
