"""5491c90: the matrix reader no longer works on binary streams (files opened
with 'rb', io.BytesIO), which readGraph accepts as `input_file` and which
were read correctly before.  The failure is a TypeError, not the documented
ValueError.

Run as:  cd /tmp/rr-C && /venv/bin/python _review/4/demo.py
"""
import io
import os
import sys
import tempfile
import warnings

sys.path.insert(0, os.getcwd())
warnings.simplefilter('ignore')   # the project has a SyntaxWarning of its own

MATRIX = b'2 3\n1 1 0\n0 1 1\n'
EXPECTED = (2, 3, [(1, 1), (1, 2), (2, 2), (2, 3)])


def describe(G):
    return (G.left_order(), G.right_order(), sorted(G.edges()))


if __name__ == '__main__':
    from cnfgen.graphs import readGraph, BipartiteGraph

    failures = 0
    with tempfile.TemporaryDirectory() as tmp:
        path = os.path.join(tmp, 'graph.matrix')
        with open(path, 'wb') as f:
            f.write(MATRIX)

        def from_bytesio():
            return readGraph(io.BytesIO(MATRIX), 'bipartite', 'matrix')

        def from_rb():
            with open(path, 'rb') as f:
                return readGraph(f, 'bipartite')

        def from_file_rb():
            with open(path, 'rb') as f:
                return BipartiteGraph.from_file(f)

        def from_text():      # a text stream, for comparison
            with open(path, 'r') as f:
                return readGraph(f, 'bipartite')

        attempts = [
            ("readGraph(io.BytesIO(...), 'bipartite', 'matrix')", from_bytesio, True),
            ("readGraph(open(path, 'rb'), 'bipartite')", from_rb, True),
            ("BipartiteGraph.from_file(open(path, 'rb'))", from_file_rb, True),
            ("readGraph(open(path, 'r'), 'bipartite')", from_text, False),
        ]
        for label, attempt, binary in attempts:
            try:
                got = describe(attempt())
            except ValueError as e:
                got = 'ValueError: {}'.format(e)
                if binary:
                    # a clean refusal of binary streams, with the exception
                    # documented for an unsuitable `input_file`, would be
                    # a defensible (if less friendly) correction
                    print('note {}: refused with {}'.format(label, got))
                    got = EXPECTED
            except Exception as e:
                got = '{}: {}'.format(type(e).__name__, e)
            status = 'ok  ' if got == EXPECTED else 'FAIL'
            print('{} {}'.format(status, label))
            if got != EXPECTED:
                failures += 1
                print('     EXPECTED: {} (as before 5491c90)'.format(EXPECTED))
                print('     GOT     : {}'.format(got))

    if failures:
        print('FAIL: {} call(s) on binary streams end in a TypeError'.format(failures))
        sys.exit(1)
    print('OK')
