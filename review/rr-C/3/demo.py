"""9fed1d4 converts the vertex names of a dot file with int(): names that are
different strings but the same integer ('01' and '1', '1_0' and '10',
"1 " and "1") are silently merged into one vertex.

Run as:  cd /tmp/rr-C && /venv/bin/python _review/3/demo.py
"""
import io
import os
import sys
import warnings

sys.path.insert(0, os.getcwd())
warnings.simplefilter('ignore')   # the project has a SyntaxWarning of its own

# (text, graph type, expected (vertices, edges)) -- in the DOT language the
# identifiers are strings: 01 and 1 are two vertices
CASES = [
    ('graph { 01; 1; 2 }', 'simple', (3, 0)),
    ('graph { 01 -- 1 }', 'simple', (2, 1)),
    ('digraph { 01 -> 1; 1 -> 2 }', 'digraph', (3, 2)),
    ('digraph { 1_0; 10; 2; 1_0 -> 2 }', 'digraph', (3, 1)),
    ('graph { "1 " -- 1 -- 2 }', 'simple', (3, 2)),
    # left side 1, 2 and right side 01, 02: K_{2,2} minus one edge
    ('graph { 1 [bipartite=0]; 2 [bipartite=0]; 01 [bipartite=1]; 02 [bipartite=1];'
     ' 1 -- 01; 1 -- 02; 2 -- 02 }', 'bipartite', (4, 3)),
    # what the repair was for must keep working: numeric order, not '10' < '2'
    ('graph { ' + '; '.join(str(i) for i in range(1, 13)) + '; 2 -- 10; 11 -- 12 }',
     'simple', (12, 2)),
]


if __name__ == '__main__':
    from cnfgen.graphs import readGraph

    failures = 0
    for text, gtype, expected in CASES:
        try:
            G = readGraph(io.StringIO(text), gtype, 'dot')
            got = (G.number_of_vertices(), G.number_of_edges())
            detail = sorted(G.edges())
        except Exception as e:
            got = '{}: {}'.format(type(e).__name__, e)
            detail = ''
        status = 'ok  ' if got == expected else 'FAIL'
        print('{} {!r} as {}'.format(status, text[:75], gtype))
        if got != expected:
            failures += 1
            print('     EXPECTED (vertices, edges) = {} as before 9fed1d4'.format(expected))
            print('     GOT {} {}'.format(got, detail))

    G = readGraph(io.StringIO(CASES[-1][0]), 'simple', 'dot')
    if sorted(G.edges()) != [(2, 10), (11, 12)]:
        print('FAIL numeric names are not in numeric order:', sorted(G.edges()))
        failures += 1

    if failures:
        print('FAIL: {} dot text(s) whose distinct vertices were merged'.format(failures))
        sys.exit(1)
    print('OK')
