"""5491c90 is incomplete: the gml and dot readers still lose the line that
follows a comment ended by a lone CR when the text comes from the standard
input (or any stream without newline translation, e.g. io.StringIO).

Run as:  cd /tmp/rr-C && /venv/bin/python _review/1/demo.py
"""
import io
import os
import subprocess
import sys
import tempfile
import warnings

sys.path.insert(0, os.getcwd())
warnings.simplefilter('ignore')   # the project has a SyntaxWarning of its own

GML = ('graph [\n'
       ' node [ id 1 ]\n node [ id 2 ]\n node [ id 3 ]\n'
       ' edge [ source 1 target 2 ]\n'
       '# a comment ended by a lone CR\r'
       ' edge [ source 2 target 3 ]\n'
       ']\n')

DOT = ('graph G {\n'
       ' 1 -- 2;\n'
       '// a comment ended by a lone CR\r'
       ' 2 -- 3;\n'
       ' 3 -- 4;\n'
       '}\n')

# the formats repaired by 5491c90, for comparison: they must keep passing
KTHLIST = 'c a comment ended by a lone CR\r3\n1 : 0\n2 : 1 0\n3 : 2 0\n'
DIMACS = 'c a comment ended by a lone CR\rp edge 3 2\ne 1 2\ne 2 3\n'

RUN_TOOL = ("import sys, os; sys.path.insert(0, os.getcwd()); "
            "from cnfgen.clitools.cnfgen import main; "
            "sys.argv = ['cnfgen'] + sys.argv[1:]; main()")


def describe(G):
    return (G.number_of_vertices(), sorted(G.edges()))


def formula(args, stdin=None):
    """Clauses of `cnfgen -q kcolor 2 <args>`"""
    p = subprocess.run([sys.executable, '-W', 'ignore', '-c', RUN_TOOL,
                        '-q', 'kcolor', '2'] + args,
                       input=stdin, capture_output=True)
    return (p.returncode, p.stdout.decode())


if __name__ == '__main__':
    from cnfgen.graphs import readGraph

    failures = 0
    for fmt, text in [('kthlist', KTHLIST), ('dimacs', DIMACS),
                      ('gml', GML), ('dot', DOT)]:
        with tempfile.TemporaryDirectory() as tmp:
            path = os.path.join(tmp, 'graph.' + fmt)
            with open(path, 'w', newline='', encoding='utf-8') as f:
                f.write(text)

            # library: the same text by file name and from a stream that
            # does not translate the line ends (as sys.stdin on POSIX)
            byname = describe(readGraph(path, 'simple', fmt))
            try:
                stream = describe(readGraph(io.StringIO(text), 'simple', fmt))
            except ValueError as e:
                stream = 'ValueError: {}'.format(e)

            # command line: file name vs standard input
            cli_byname = formula([path])
            cli_stdin = formula([fmt, '-'], stdin=text.encode())

        ok = (byname == stream) and (cli_byname == cli_stdin)
        print('{:8s} by name {}   from a stream {}   cnfgen: {}'.format(
            fmt, byname, stream,
            'same formula' if cli_byname == cli_stdin else
            'DIFFERENT formulas ({} vs {} lines of output)'.format(
                len(cli_byname[1].splitlines()),
                len(cli_stdin[1].splitlines()))))
        if not ok:
            failures += 1
            print('   EXPECTED: the same graph whichever way the text arrives '
                  '(as for kthlist, dimacs and matrix since 5491c90)')
            print('   GOT     : the line after the CR-terminated comment is '
                  'lost on the stream / standard input')

    if failures:
        print('FAIL: {} format(s) still swallow the line after a comment '
              'ended by a lone CR'.format(failures))
        sys.exit(1)
    print('OK')
