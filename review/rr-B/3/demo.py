"""Open files whose name is not a string: the graph I/O functions next to
CNF.to_file still leak the TypeError that 8f8cfb4 removed from to_file, and
to_file does not see the extension of a file opened under a bytes name.

Run as:  cd /tmp/rr-B && /venv/bin/python _review/3/demo.py
"""
import io
import os
import sys
import tempfile
import warnings


if __name__ == '__main__':
    sys.path.insert(0, '.')
    warnings.simplefilter('ignore')
    from cnfgen import CNF
    from cnfgen.graphs import Graph, readGraph, writeGraph, guess_fileformat

    workdir = tempfile.mkdtemp(dir=os.path.dirname(os.path.abspath(__file__)))
    bad = 0

    def outcome(call):
        try:
            call()
            return 'no error'
        except Exception as e:     # noqa
            return '{}: {}'.format(type(e).__name__, e)

    G = Graph(3)
    G.add_edge(1, 2)

    print("A. graph I/O without explicit format on streams from which no format")
    print("   can be guessed.  Expected: the documented ValueError ('Cannot guess")
    print("   a file format ... Please specify the format manually'), as for")
    print("   io.StringIO, or no error at all.")
    makers = [
        ('io.StringIO() [reference]', lambda: io.StringIO()),
        ('tempfile.TemporaryFile (name is a file descriptor)',
         lambda: tempfile.TemporaryFile('w+', dir=workdir)),
        ('tempfile.SpooledTemporaryFile (name is None)',
         lambda: tempfile.SpooledTemporaryFile(mode='w+', dir=workdir)),
    ]
    for label, mk in makers:
        f = mk()
        calls = [
            ('writeGraph(G, f, "simple")', lambda: writeGraph(G, f, 'simple')),
            ('readGraph(f, "simple")', lambda: readGraph(f, 'simple')),
            ('Graph.from_file(f)', lambda: Graph.from_file(f)),
            ('guess_fileformat(f)', lambda: guess_fileformat(f)),
        ]
        print(' ', label)
        for text, call in calls:
            got = outcome(call)
            ok = got == 'no error' or got.startswith('ValueError')
            bad += not ok
            print('    {} {:28s} -> {}'.format('ok  ' if ok else 'FAIL', text, got))
        f.close()

    print()
    print("   (with the format given, the same streams work:)")
    f = tempfile.TemporaryFile('w+', dir=workdir)
    got = outcome(lambda: writeGraph(G, f, 'simple', 'kthlist'))
    print('    writeGraph(G, TemporaryFile, "simple", "kthlist") ->', got)
    bad += got != 'no error'
    f.close()

    print()
    print("B. CNF.to_file on a file opened under a bytes name 'b.tex'.")
    print("   Expected: a LaTeX document, as for the str name 's.tex'.")
    F = CNF([[1, -2]])
    for key, name in (('str', os.path.join(workdir, 's.tex')),
                      ('bytes', os.path.join(workdir, 'b.tex').encode())):
        with open(name, 'w+') as f:
            F.to_file(f)
            f.seek(0)
            text = f.read()
        is_latex = '\\documentclass' in text
        print('    open({!r}...) -> {}'.format(
            os.path.basename(name), 'LaTeX' if is_latex else
            'NOT LaTeX, first line: ' + repr(text.split('\n')[0][:40])))
        bad += not is_latex
        os.remove(name)

    os.rmdir(workdir)
    print()
    print('{} problem(s)'.format(bad))
    sys.exit(1 if bad else 0)
