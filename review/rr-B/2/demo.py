"""The LaTeX writer still stops half way on a variable name that the output
cannot encode (77dabba repaired the DIMACS and OPB writers, 81173cc the title
of the LaTeX document).

Run as:  cd /tmp/rr-B && /venv/bin/python _review/2/demo.py
"""
import os
import sys
import tempfile
import warnings


def attempt(F, fileformat, encoding, path):
    """Write F, return (exception or None, bytes left in the file)"""
    err = None
    try:
        with open(path, 'w', encoding=encoding) as f:
            F.to_file(f, fileformat=fileformat, export_varnames=True)
    except Exception as e:          # noqa
        err = e
    with open(path, 'rb') as f:
        data = f.read()
    return err, data


if __name__ == '__main__':
    sys.path.insert(0, '.')
    warnings.simplefilter('ignore')
    from cnfgen import CNF
    from cnfgen.formula.opb import OPB

    workdir = tempfile.mkdtemp(dir=os.path.dirname(os.path.abspath(__file__)))
    path = os.path.join(workdir, 'out.txt')

    def cnf(name):
        F = CNF(description='two variables')
        F.new_variable(name)
        F.new_variable('y')
        F.add_clause([1, -2])
        return F

    def opb(name):
        F = OPB(description='two variables')
        F.new_variable(name)
        F.new_variable('y')
        F.cardinality_geq([1, 2], 1)
        return F

    # (label of the case, constructor, variable name, encoding of the output)
    cases = [
        ('accented name, ascii output', cnf, 'café', 'ascii'),
        ('accented name, latin-1 output', cnf, 'café', 'latin-1'),
        ('name with a lone surrogate (undecodable file name), utf-8 output',
         cnf, 'g\udcff', 'utf-8'),
        ('accented name, ascii output, OPB formula', opb, 'café', 'ascii'),
    ]

    bad = 0
    try:
        for label, make, name, enc in cases:
            print('*', label)
            for fmt in ('dimacs', 'opb', 'latex'):
                if fmt == 'dimacs' and make is opb:
                    continue
                try:
                    F = make(name)
                except Exception as e:   # the demo itself is wrong
                    print('   cannot build the formula:', repr(e))
                    bad += 1
                    continue
                err, data = attempt(F, fmt, enc, path)
                problems = []
                if err is not None:
                    problems.append('{}: {}'.format(type(err).__name__, err))
                if fmt == 'latex':
                    if not data.rstrip().endswith(b'\\end{document}'):
                        problems.append(
                            'truncated document left behind ({} bytes, no '
                            '\\end{{document}})'.format(len(data)))
                    try:
                        # the preamble says \usepackage[utf8]{inputenc}
                        data.decode('utf-8')
                    except UnicodeDecodeError:
                        problems.append('the document declares utf8 but is '
                                        'not valid UTF-8')
                if problems:
                    bad += 1
                    print('   FAIL {:6s}: {}'.format(fmt, '; '.join(problems)))
                else:
                    print('   ok   {:6s}: complete file, {} bytes'.format(fmt, len(data)))
    finally:
        if os.path.exists(path):
            os.remove(path)
        os.rmdir(workdir)

    print()
    print('Expected: every writer finishes its file, whatever the names of the')
    print('variables (DIMACS and OPB do since 77dabba, and the title of the')
    print('LaTeX document since 81173cc).')
    print('{} problem(s)'.format(bad))
    sys.exit(1 if bad else 0)
