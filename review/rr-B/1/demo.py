"""The graph-file readers still take '1_2', non-ASCII digits and non-ASCII
blanks, which b76eee6 / f2c7366 banned from the DIMACS CNF reader.

Run as:  cd /tmp/rr-B && /venv/bin/python _review/1/demo.py
"""
import io
import sys
import warnings


def read(text, graph_type, file_format):
    from cnfgen.graphs import readGraph
    try:
        G = readGraph(io.StringIO(text), graph_type, file_format)
    except ValueError as e:
        return 'ValueError: {}'.format(e)
    return 'read as a graph with {} vertices and edges {}'.format(
        G.order(), sorted(G.edges()))


if __name__ == '__main__':
    sys.path.insert(0, '.')
    warnings.simplefilter('ignore')

    kth12 = '13\n' + ''.join('{} : 0\n'.format(i) for i in range(1, 13))

    # (what is wrong, text, graph type, format)
    malformed = [
        ("'1_2' is not a vertex (a corrupted '1 2')",
         'p edge 12 1\ne 1_2 3\n', 'simple', 'dimacs'),
        ("'1_2' is not a number of vertices",
         'p edge 1_2 1\ne 1 3\n', 'simple', 'dimacs'),
        ("fullwidth digit U+FF13 is not a DIMACS integer",
         'p edge 3 1\ne ３ 1\n', 'simple', 'dimacs'),
        ("U+001C is not a blank",
         'p edge 3 1\ne 3\x1c1\n', 'simple', 'dimacs'),
        ("'pq' is not the problem line marker, 'exx' is not an edge marker",
         'pq edge 3 1\nexx 3 1\n', 'simple', 'dimacs'),
        ("'1_2' is not a predecessor list (a corrupted '1 2')",
         kth12 + '13 : 1_2 0\n', 'dag', 'kthlist'),
        ("'1_3' is not a number of vertices",
         kth12.replace('13\n', '1_3\n', 1) + '13 : 1 2 0\n', 'dag', 'kthlist'),
        ("U+001C is not a blank",
         '3\n1 : 0\n2 : 0\n3 : 1\x1c2 0\n', 'dag', 'kthlist'),
        ("arabic-indic digit U+0661 is not 1",
         '2 2\n1 0\n0 ١\n', 'bipartite', 'matrix'),
        ("'0_2' is not a number of vertices",
         '0_2 2\n1 0\n0 1\n', 'bipartite', 'matrix'),
    ]
    wellformed = [
        ('p edge 12 1\ne 12 3\n', 'simple', 'dimacs'),
        ('c name\r\np edge 3 2\r\ne 1 2\r\ne\t2   3\r\n', 'simple', 'dimacs'),
        (kth12 + '13 : 1 2 0\n', 'dag', 'kthlist'),
        ('3\n1 : 0\n2 : 0\n3  :\t1 2  0\n', 'dag', 'kthlist'),
        ('2 2\n1 0\n0 1\n', 'bipartite', 'matrix'),
    ]

    def short(text):
        return repr(text if len(text) < 40 else text[:8] + ' ... ' + text[-24:])

    bad = 0
    print("Expected: ValueError for each of these texts, as CNF.from_file gives"
          " for the same mistakes in a DIMACS CNF file\n")
    for why, text, gt, ff in malformed:
        got = read(text, gt, ff)
        ok = got.startswith('ValueError')
        bad += not ok
        print('{} {:8s} {}\n      ({})\n      -> {}'.format(
            'ok  ' if ok else 'FAIL', ff, short(text), why, got))

    print("\nExpected: these well formed texts are still read")
    for text, gt, ff in wellformed:
        got = read(text, gt, ff)
        ok = got.startswith('read as')
        bad += not ok
        print('{} {:8s} {} -> {}'.format('ok  ' if ok else 'FAIL', ff, short(text), got))

    # the reference behaviour: the CNF reader after b76eee6 / f2c7366
    from cnfgen import CNF
    for text in ['p cnf 12 1\n1_2 3 0\n', 'p cnf 3 1\n3\x1c1 0\n', 'pq cnf 3 1\n3 1 0\n']:
        try:
            CNF.from_file(io.StringIO(text))
            print('(the CNF reader accepts {!r}: the comparison does not hold)'.format(text))
        except ValueError as e:
            print('(CNF reader on {!r}: ValueError: {})'.format(text, e))

    print('\n{} problem(s)'.format(bad))
    sys.exit(1 if bad else 0)
