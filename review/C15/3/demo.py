"""C15 defect 3: 'splitedges k plantclique c' - the options are not applied in
the order written (splitedges always comes last), so the planted clique is split
again, or the request is refused although it can be met.

Run as:  cd WORKDIR && /venv/bin/python _hunt/3/demo.py
Exit status 1 on the defective tree, 0 once repaired.
"""
import os
import random
import sys
import warnings
from itertools import combinations


def has_clique(G, k):
    return any(all(G.has_edge(u, v) for u, v in combinations(S, 2))
               for S in combinations(G.vertices(), k))


if __name__ == '__main__':
    warnings.simplefilter('ignore')
    sys.path.insert(0, os.getcwd())
    from cnfgen.clitools.graph_args import make_graph_from_spec

    print("PROMISE: plantclique leaves a clique of the requested size, splitedges")
    print("         adds exactly that many vertices and edges - for all option")
    print("         combinations and all random outcomes; requests that can be met")
    print("         are not refused.")
    print()
    failures = 0

    # 1. deterministic: K3, split all 3 edges (-> C6), THEN plant a triangle.
    #    Whatever the random choices, a triangle must be there.
    for seed in range(3):
        spec = 'complete 3 splitedges 3 plantclique 3'
        random.seed(seed)
        try:
            G = make_graph_from_spec('simple', spec)
        except ValueError as e:
            print("ok        {!r} refused: {}".format(spec, e))
            continue
        ok = has_clique(G, 3)
        print("{}    {!r} seed {}: {} vertices, {} edges, edges {} -> {}".format(
            "ok    " if ok else "DEFECT", spec, seed, G.order(),
            G.number_of_edges(), list(G.edges()),
            "3-clique present" if ok else "NO 3-clique (a 6-cycle)"))
        failures += 0 if ok else 1

    # 2. deterministic: K2, split its edge (-> path on 3 vertices), then plant a
    #    3-clique on the 3 vertices.  Can be met: the result is a triangle.
    spec = 'complete 2 splitedges 1 plantclique 3'
    try:
        G = make_graph_from_spec('simple', spec)
        ok = has_clique(G, 3)
        print("{}    {!r}: {} vertices, {} edges".format(
            "ok    " if ok else "DEFECT", spec, G.order(), G.number_of_edges()))
        failures += 0 if ok else 1
    except ValueError as e:
        print("DEFECT    {!r} refused: {!r}  (the graph has 3 vertices after the split)".format(
            spec, str(e)))
        failures += 1

    # 3. random: how often is the requested clique missing in the delivered graph
    spec = 'gnm 8 6 splitedges 6 plantclique 4'
    missing = 0
    for seed in range(200):
        random.seed(seed)
        G = make_graph_from_spec('simple', spec)
        if not has_clique(G, 4):
            missing += 1
    print("{}    {!r}: no 4-clique in {} of 200 seeds".format(
        "DEFECT" if missing else "ok    ", spec, missing))
    failures += 1 if missing else 0

    print()
    if failures:
        print("RESULT: property C15 violated ({} failures)".format(failures))
        sys.exit(1)
    print("RESULT: no violation")
    sys.exit(0)
