"""C15 defect 2: 'grid' / 'torus' without any dimension are accepted and give
the null graph (0 vertices).

Run as:  cd WORKDIR && /venv/bin/python _hunt/2/demo.py
Exit status 1 on the defective tree, 0 once repaired.
"""
import os
import subprocess
import sys
import warnings

if __name__ == '__main__':
    warnings.simplefilter('ignore')
    sys.path.insert(0, os.getcwd())
    from cnfgen.clitools.graph_args import make_graph_from_spec

    print("PROMISE: grid/torus d1 d2 ... are the named graphs (d1 x d2 x ... vertices,")
    print("         every di a positive integer); a request that cannot be met is")
    print("         refused with an error message, not with a graph of another shape.")
    print("         Every other construction refuses a missing size argument")
    print("         ('empty', 'complete', 'gnm', 'tree', ... -> error) and no")
    print("         construction ever delivers a graph with 0 vertices.")
    print()
    failures = 0
    for spec in ['grid', 'torus', 'grid plantclique 0', 'torus addedges 0']:
        try:
            G = make_graph_from_spec('simple', spec)
        except ValueError as e:
            print("ok        {!r} refused: {}".format(spec, str(e).splitlines()[0]))
            continue
        n, m = G.order(), G.number_of_edges()
        if n == 0:
            print("DEFECT    {!r} accepted: {} vertices, {} edges, name {!r}".format(
                spec, n, m, G.name))
            failures += 1
        else:
            # the empty product read as the one-point graph would be defensible
            print("ok        {!r} accepted: {} vertices, {} edges".format(spec, n, m))

    # consequence on the command line: 'tseitin first' (odd charge on the first
    # vertex, always unsatisfiable) silently becomes the empty, satisfiable CNF
    cmd = [sys.executable, '-W', 'ignore', '-m', 'cnfgen.clitools.cnfgen',
           '-q', 'tseitin', 'first', 'grid']
    p = subprocess.run(cmd, stdout=subprocess.PIPE, stderr=subprocess.PIPE,
                       universal_newlines=True)
    print()
    print("command line: cnfgen -q tseitin first grid")
    if p.returncode == 0 and 'p cnf 0 0' in p.stdout:
        print("DEFECT    exit status 0, output {!r}: an empty (satisfiable) CNF".format(
            p.stdout.strip()))
        failures += 1
    elif p.returncode == 0:
        print("ok        output {!r} is unsatisfiable".format(p.stdout.strip()))
    else:
        print("ok        refused, exit status {}".format(p.returncode))

    print()
    if failures:
        print("RESULT: property C15 violated ({} failures)".format(failures))
        sys.exit(1)
    print("RESULT: no violation")
    sys.exit(0)
