"""C15 defect 4 (environment): with assertions disabled (python -O, or
PYTHONOPTIMIZE=1 in the environment) the range checks of the graph constructions
disappear: out-of-range requests are accepted and give graphs of another shape,
or die with internal failures.

Run as:  cd WORKDIR && /venv/bin/python _hunt/4/demo.py
Exit status 1 on the defective tree, 0 once repaired.
"""
import os
import subprocess
import sys

CHILD = r'''
import sys, warnings
warnings.simplefilter('ignore')
sys.path.insert(0, '.')
from cnfgen.clitools.graph_args import make_graph_from_spec as mk
bad = 0
for t, spec in [('simple', 'gnm 5 100'), ('simple', 'gnd 4 4'), ('simple', 'gnp 3 2'),
                ('simple', 'complete 0'), ('simple', 'gnm 0 0'),
                ('bipartite', 'glrd 3 2 5'), ('bipartite', 'regular 3 3 4'),
                ('bipartite', 'complete 0 3')]:
    try:
        G = mk(t, spec)
        print('DEFECT    %-15r accepted: %d vertices, %d edges, name %r'
              % (spec, G.order(), G.number_of_edges(), G.name))
        bad += 1
    except ValueError as e:
        print('ok        %-15r refused: %s' % (spec, str(e).splitlines()[0]))
    except BaseException as e:
        print('DEFECT    %-15r internal failure %s: %s' % (spec, type(e).__name__, e))
        bad += 1
sys.exit(1 if bad else 0)
'''

if __name__ == '__main__':
    print("PROMISE: gnm has exactly m edges, gnd/regular are regular of the requested")
    print("         degree, glrd is left-regular of the requested degree ...; requests")
    print("         that cannot be met are refused with an error message, not with an")
    print("         internal failure or a graph of another shape - in every environment.")
    print()
    status = 0
    for label, cmd, env in [
            ('python (default)', [sys.executable, '-c', CHILD], {}),
            ('python -O', [sys.executable, '-O', '-c', CHILD], {}),
            ('PYTHONOPTIMIZE=1 python', [sys.executable, '-c', CHILD],
             {'PYTHONOPTIMIZE': '1'})]:
        e = dict(os.environ)
        e.pop('PYTHONOPTIMIZE', None)
        e.update(env)
        p = subprocess.run(cmd, env=e, cwd=os.getcwd(), stdout=subprocess.PIPE,
                           stderr=subprocess.STDOUT, universal_newlines=True)
        print("---- {} ----".format(label))
        print(p.stdout)
        if p.returncode != 0:
            status = 1

    # the real tool
    e = dict(os.environ)
    e['PYTHONOPTIMIZE'] = '1'
    cmd = [sys.executable, '-W', 'ignore', '-m', 'cnfgen.clitools.cnfgen', '-v',
           'kclique', '3', 'gnm', '5', '100', 'save', 'dimacs', '/dev/stderr']
    p = subprocess.run(cmd, env=e, stdout=subprocess.PIPE, stderr=subprocess.PIPE,
                       universal_newlines=True)
    print("---- PYTHONOPTIMIZE=1 cnfgen kclique 3 gnm 5 100 save dimacs /dev/stderr ----")
    saved = [l for l in p.stderr.splitlines() if l.startswith(('c ', 'p '))]
    print("exit status {}; saved graph header: {}".format(p.returncode, saved))
    if p.returncode == 0:
        print("DEFECT    accepted: a graph 'with 100 edges' that has 10")
        status = 1

    print()
    if status:
        print("RESULT: property C15 violated when assertions are disabled")
    else:
        print("RESULT: no violation")
    sys.exit(status)
