"""C15 defect 1: 'regular L R d' with d close to R dies with RecursionError.

Run as:  cd WORKDIR && /venv/bin/python _hunt/1/demo.py
Exit status 1 on the defective tree, 0 once repaired.
"""
import os
import random
import subprocess
import sys
import warnings


def biregular(B, L, R, d):
    left = all(B.right_degree(u) == d for u in range(1, L + 1))
    right = all(B.left_degree(v) == L * d // R for v in range(1, R + 1))
    return left and right and B.left_order() == L and B.right_order() == R


if __name__ == '__main__':
    warnings.simplefilter('ignore')
    sys.path.insert(0, os.getcwd())
    from cnfgen.clitools.graph_args import make_graph_from_spec

    print("PROMISE: 'regular L R d' (0<=d<=R, R divides L*d) yields a graph regular")
    print("         on both sides, for every outcome of the random choices;")
    print("         a request that cannot be met is refused with an error message,")
    print("         not with an internal failure.")
    print()

    failures = 0
    # (spec, L, R, d, seed): legal requests, such graphs exist
    # (e.g. complete bipartite minus disjoint perfect matchings)
    cases = [('regular 22 22 21', 22, 22, 21, 2),
             ('regular 30 30 27', 30, 30, 27, 0),
             ('regular 20 40 38', 20, 40, 38, 0)]
    for spec, L, R, d, seed in cases:
        random.seed(seed)
        try:
            B = make_graph_from_spec('bipartite', spec)
        except ValueError as e:
            print("refused   {!r} seed {}: {}".format(spec, seed, e))
            print("   (a refusal would be wrong too: the graph exists)")
            failures += 1
            continue
        except BaseException as e:  # RecursionError is what happens
            print("DEFECT    {!r} seed {}: internal failure {}: {}".format(
                spec, seed, type(e).__name__, e))
            failures += 1
            continue
        if biregular(B, L, R, d):
            print("ok        {!r} seed {}: biregular graph".format(spec, seed))
        else:
            print("DEFECT    {!r} seed {}: graph not biregular".format(spec, seed))
            failures += 1

    # The same thing through the real command line tool
    cmd = [sys.executable, '-W', 'ignore', '-m', 'cnfgen.clitools.cnfgen',
           '-q', '--seed', '2', 'subsetcard', 'regular', '22', '22', '21']
    p = subprocess.run(cmd, stdout=subprocess.PIPE, stderr=subprocess.PIPE,
                       universal_newlines=True)
    print()
    print("command line: cnfgen", ' '.join(cmd[5:]))
    if 'Traceback' in p.stderr:
        last = p.stderr.strip().splitlines()[-1]
        print("DEFECT    exit status {}, python traceback ending in: {}".format(
            p.returncode, last))
        failures += 1
    else:
        print("ok        exit status {}, no traceback".format(p.returncode))

    print()
    if failures:
        print("RESULT: property C15 violated ({} failures)".format(failures))
        sys.exit(1)
    print("RESULT: no violation")
    sys.exit(0)
