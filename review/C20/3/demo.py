"""C20 defect 3: a failing minisat-style solver that removes its (incomplete)
result file makes solve() raise FileNotFoundError instead of RuntimeError.

Run as:  cd WORKDIR && /venv/bin/python _hunt/3/demo.py
"""
import os
import shutil
import stat
import sys
import tempfile

FAKE = r'''#!{python}
# Fake solver with the minisat file-in/file-out convention:  minisat [opts] IN OUT
# It fails (here: simulated memory limit, as minisat's "-mem-lim" / INDETERMINATE
# exits) and, as many tools do with an incomplete output, removes OUT before
# leaving with a non-zero status.  Diagnostics go to stderr.
import sys, os
if '--help' in sys.argv[1:]:
    sys.stderr.write('usage: minisat [options] <input-file> <result-output-file>\n')
    sys.exit(0)
files = [a for a in sys.argv[1:] if not a.startswith('-')]
open(files[0]).read()
with open(files[1], 'w') as res:
    res.write('SAT\n1 2 ')          # partial result ...
sys.stderr.write('minisat: memory limit exceeded, removing incomplete result file\n')
os.unlink(files[1])                 # ... cleaned up on failure
print('INDETERMINATE')
sys.exit(1)
'''

if __name__ == '__main__':
    sys.path.insert(0, os.getcwd())
    here = os.path.dirname(os.path.abspath(__file__))
    workdir = tempfile.mkdtemp(prefix='tmp-', dir=here)
    bindir = os.path.join(workdir, 'bin')
    tmpdir = os.path.join(workdir, 'tmp')
    os.mkdir(bindir)
    os.mkdir(tmpdir)
    ok = True
    try:
        for name in ('minisat', 'my-minisat'):
            path = os.path.join(bindir, name)
            with open(path, 'w') as f:
                f.write(FAKE.format(python=sys.executable))
            os.chmod(path, os.stat(path).st_mode | stat.S_IXUSR)
        os.environ['PATH'] = bindir + os.pathsep + os.environ.get('PATH', '')
        os.environ['TMPDIR'] = tmpdir
        tempfile.tempdir = None

        from cnfgen import CNF
        F = CNF([[1, 2], [-1, 3], [-2, -3]])
        print("Property C20: a missing, unsupported or failing solver raises the documented")
        print("error (RuntimeError, see CNF.solve docstring) instead of returning a verdict,")
        print("and temporary files are removed.")
        print()
        calls = [("F.solve(cmd='minisat')", lambda: F.solve(cmd='minisat')),
                 ("F.is_satisfiable(cmd='minisat')", lambda: F.is_satisfiable(cmd='minisat')),
                 ("F.solve(cmd='my-minisat -mem-lim=1', sameas='minisat')",
                  lambda: F.solve(cmd='my-minisat -mem-lim=1', sameas='minisat'))]
        for text, call in calls:
            try:
                res = call()
            except RuntimeError as e:
                print("  {}: RuntimeError ({})  ok".format(text, str(e).strip()))
            except Exception as e:
                ok = False
                print("  {}: {}: {}\n      <-- VIOLATION: RuntimeError is the documented error".format(
                    text, type(e).__name__, e))
            else:
                ok = False
                print("  {} = {!r}  <-- VIOLATION: verdict from a failing solver".format(text, res))
        left = os.listdir(tmpdir)
        print("temporary directory after the calls:", left)
        ok = ok and not left
    finally:
        shutil.rmtree(workdir, ignore_errors=True)
    if ok:
        print("\nOK: property holds")
        sys.exit(0)
    print("\nFAIL: the failure of the solver surfaced as an undocumented exception")
    sys.exit(1)
