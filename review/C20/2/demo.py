"""C20 defect 2: a FAILING solver (killed while it was printing the model) makes
solve() return a verdict with a truncated assignment instead of RuntimeError.

Run as:  cd WORKDIR && /venv/bin/python _hunt/2/demo.py
"""
import os
import shutil
import stat
import sys
import tempfile

FAKE = r'''#!{python}
# Fake solver, name decides the convention (as for the real ones):
#   cadical -> DIMACS on stdin, answer on stdout
#   sat4j   -> input file as argument, answer on stdout
#   minisat -> input file and result file as arguments
# It prints the model the way real solvers do (several short 'v' lines, flushed
# one by one, the last one closed by the terminator 0; minisat writes 'SAT' and
# then the literals).  With FAKE_DIE=1 in the environment the process is killed
# by SIGKILL (out-of-memory killer, `timeout -s KILL`, batch system...) after it
# has written about half of the model: the terminator 0 is never written and the
# exit status is -9, neither 10 nor 20.
import sys, os, itertools, signal
name = os.path.basename(sys.argv[0])
args = [a for a in sys.argv[1:] if not a.startswith('-')]
if '--help' in sys.argv[1:]:
    sys.stderr.write('usage: %s [options] [file]\n' % name)
    sys.exit(0)
die = os.environ.get('FAKE_DIE') == '1'
text = sys.stdin.read() if name == 'cadical' else open(args[0]).read()
n, clauses, cur = 0, [], []
for line in text.splitlines():
    if not line or line[0] == 'c':
        continue
    if line[0] == 'p':
        n = int(line.split()[2])
        continue
    for tok in line.split():
        tok = int(tok)
        if tok == 0:
            clauses.append(cur)
            cur = []
        else:
            cur.append(tok)
model = None
for bits in itertools.product([True, False], repeat=n):
    if all(any((l > 0) == bits[abs(l) - 1] for l in c) for c in clauses):
        model = [(i + 1) if b else -(i + 1) for i, b in enumerate(bits)]
        break
sys.stderr.write('c [%s] %d variables %d clauses\n' % (name, n, len(clauses)))
def killed():
    sys.stdout.flush()
    os.kill(os.getpid(), signal.SIGKILL)
if name == 'minisat':
    with open(args[1], 'w') as res:
        if model is None:
            res.write('UNSAT\n')
        else:
            res.write('SAT\n')
            for i, lit in enumerate(model):
                if die and i == n // 2:
                    res.flush()
                    killed()
                res.write('%d ' % lit)
            res.write('0\n')
    print('SATISFIABLE' if model else 'UNSATISFIABLE')
    sys.exit(10 if model else 20)
print('c fake', name)
if model is None:
    print('s UNSATISFIABLE')
    sys.exit(20)
print('s SATISFIABLE')
chunk = 3
for start in range(0, n, chunk):
    if die and start >= n // 2:
        killed()
    lits = model[start:start + chunk]
    last = start + chunk >= n
    print('v ' + ' '.join(str(l) for l in lits) + (' 0' if last else ''))
    sys.stdout.flush()
if n == 0:
    print('v 0')
sys.exit(10)
'''


def satisfies(F, witness):
    return all(any(lit in witness for lit in clause) for clause in F)


def check(F, cmd, failing):
    """Return True if the behaviour agrees with the property"""
    n = F.number_of_variables()
    os.environ['FAKE_DIE'] = '1' if failing else '0'
    try:
        res = F.solve(cmd=cmd)
    except RuntimeError as e:
        print("  solve(cmd={!r}): RuntimeError ({})  {}".format(
            cmd, str(e).strip(), "ok" if failing else "<-- unexpected"))
        return failing
    good = (isinstance(res, tuple) and len(res) == 2 and res[0] is True
            and res[1] is not None
            and [abs(x) for x in res[1]] == list(range(1, n + 1))
            and satisfies(F, res[1]))
    if failing:
        print("  solve(cmd={!r}) = {!r}\n      <-- VIOLATION: the solver was killed "
              "(exit status -9, model not terminated by 0); RuntimeError "
              "is promised, a verdict with {} of {} variables is returned{}".format(
                  cmd, res, len(res[1] or []), n,
                  "" if good else "; it does not even satisfy the formula"))
        return False
    print("  solve(cmd={!r}) = {!r}   {}".format(cmd, res, "ok" if good else "<-- wrong"))
    return good


if __name__ == '__main__':
    sys.path.insert(0, os.getcwd())
    here = os.path.dirname(os.path.abspath(__file__))
    workdir = tempfile.mkdtemp(prefix='tmp-', dir=here)
    bindir = os.path.join(workdir, 'bin')
    tmpdir = os.path.join(workdir, 'tmp')
    os.mkdir(bindir)
    os.mkdir(tmpdir)
    try:
        for name in ('cadical', 'sat4j', 'minisat'):
            path = os.path.join(bindir, name)
            with open(path, 'w') as f:
                f.write(FAKE.format(python=sys.executable))
            os.chmod(path, os.stat(path).st_mode | stat.S_IXUSR)
        os.environ['PATH'] = bindir + os.pathsep + os.environ.get('PATH', '')
        os.environ['TMPDIR'] = tmpdir
        tempfile.tempdir = None

        from cnfgen import CNF
        # x1 -> x2 -> ... -> x8 and x1: the only model sets all 8 variables to true
        F = CNF([[1]] + [[-i, i + 1] for i in range(1, 8)])
        print("Property C20: a missing, unsupported or FAILING solver raises the documented")
        print("error (RuntimeError) instead of returning a verdict; when a verdict (True, a)")
        print("is returned, a is an assignment, ordered by variable, satisfying the formula.")
        print("Formula:", list(F), "with", F.number_of_variables(), "variables")
        print()
        results = []
        print("control (the solver terminates normally):")
        for cmd in ('cadical', 'sat4j', 'minisat'):
            results.append(check(F, cmd, failing=False))
        print("the solver is killed by SIGKILL while printing the model:")
        for cmd in ('cadical', 'sat4j', 'minisat'):
            results.append(check(F, cmd, failing=True))
        left = os.listdir(tmpdir)
        print("temporary directory after the calls:", left)
        results.append(not left)
    finally:
        shutil.rmtree(workdir, ignore_errors=True)
    if all(results):
        print("\nOK: property holds")
        sys.exit(0)
    print("\nFAIL: a failing solver produced a verdict with a truncated assignment")
    sys.exit(1)
