"""C20 defect 1: solve() returns (True, []) -- an "assignment" that does not
satisfy the formula -- when the solver answers 's SATISFIABLE' without 'v' lines.

Run as:  cd WORKDIR && /venv/bin/python _hunt/1/demo.py
"""
import os
import shutil
import stat
import sys
import tempfile

FAKE = r'''#!{python}
# Fake solver speaking the DIMACS stdin/stdout convention the way real solvers do:
#  * installed as `glucose`: like glucose 4.x it reads the formula from stdin when
#    no file is given, prints 's SATISFIABLE' and prints the model ('v' line) ONLY
#    when the option -model is given (glucose's default is -no-model);
#  * installed as `cadical` / `kissat`: the model is printed unless option -n
#    ("do not print witness") is given.
# exit status 10 / 20, diagnostics on stderr.
import sys, os, itertools
name = os.path.basename(sys.argv[0])
args = sys.argv[1:]
if '--help' in args:
    sys.stderr.write('usage: %s [options] [file]\n' % name)
    sys.exit(0)
if name == 'glucose':
    show_model = '-model' in args
else:
    show_model = '-n' not in args
n, clauses, cur = 0, [], []
for line in sys.stdin.read().splitlines():
    if not line or line[0] == 'c':
        continue
    if line[0] == 'p':
        n = int(line.split()[2])
        continue
    for tok in line.split():
        tok = int(tok)
        if tok == 0:
            clauses.append(cur)
            cur = []
        else:
            cur.append(tok)
sys.stderr.write('c [%s] %d variables %d clauses\n' % (name, n, len(clauses)))
print('c fake', name)
model = None
for bits in itertools.product([False, True], repeat=n):
    if all(any((l > 0) == bits[abs(l) - 1] for l in c) for c in clauses):
        model = [(i + 1) if b else -(i + 1) for i, b in enumerate(bits)]
        break
if model is None:
    print('s UNSATISFIABLE')
    sys.exit(20)
print('s SATISFIABLE')
if show_model:
    print('v ' + ' '.join(str(l) for l in model + [0]))
sys.exit(10)
'''


def satisfies(F, witness):
    return all(any(lit in witness for lit in clause) for clause in F)


def check(F, cmd, sameas=None):
    """Return True if the behaviour agrees with the property"""
    n = F.number_of_variables()
    try:
        res = F.solve(cmd=cmd, sameas=sameas)
    except RuntimeError as e:
        print("  solve(cmd={!r}): RuntimeError ({}) -- acceptable".format(
            cmd, str(e).strip()))
        return True
    ok = (isinstance(res, tuple) and len(res) == 2 and res[0] is True
          and res[1] is not None
          and [abs(x) for x in res[1]] == list(range(1, n + 1))
          and satisfies(F, res[1]))
    print("  solve(cmd={!r}) = {!r}   {}".format(
        cmd, res, "ok" if ok else
        "<-- VIOLATION: this assignment does not satisfy the formula"))
    return ok


if __name__ == '__main__':
    sys.path.insert(0, os.getcwd())
    here = os.path.dirname(os.path.abspath(__file__))
    bindir = tempfile.mkdtemp(prefix='bin-', dir=here)
    try:
        for name in ('glucose', 'cadical', 'kissat'):
            path = os.path.join(bindir, name)
            with open(path, 'w') as f:
                f.write(FAKE.format(python=sys.executable))
            os.chmod(path, os.stat(path).st_mode | stat.S_IXUSR)
        os.environ['PATH'] = bindir + os.pathsep + os.environ.get('PATH', '')

        from cnfgen import CNF
        F = CNF([[1, 2], [-1, 2], [-2, 3]])     # satisfiable, every model has 2 and 3 true
        print("Property C20: when the solver answers satisfiable, solve() returns")
        print("(True, assignment) with an assignment, ordered by variable, that")
        print("satisfies the formula (or raises RuntimeError if the solver call failed).")
        print("Formula:", list(F), "with", F.number_of_variables(), "variables")
        print()
        results = []
        print("control (solver prints the model):")
        results.append(check(F, 'glucose -model'))
        results.append(check(F, 'cadical'))
        print("solver answers 's SATISFIABLE' but prints no 'v' line:")
        results.append(check(F, 'glucose'))        # documented usage: F.solve(cmd='glucose -pre')
        results.append(check(F, 'glucose -pre'))
        results.append(check(F, 'cadical -n'))
        results.append(check(F, 'kissat -n'))
    finally:
        shutil.rmtree(bindir, ignore_errors=True)
    if all(results):
        print("\nOK: property holds")
        sys.exit(0)
    print("\nFAIL: solve() reported (True, []) : [] is not a satisfying assignment "
          "of a formula with {} variables".format(F.number_of_variables()))
    sys.exit(1)
