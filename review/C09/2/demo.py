#!/usr/bin/env python
"""C09 defect 2: valid explicit flips / permutations given as one-shot
iterables (generator, iterator, map object) are not applied: Shuffle dies
with TypeError, although its docstring declares the three parameters as
'string or iterable(int)'.

Run as:  cd WORKDIR && /venv/bin/python _hunt/2/demo.py
"""
import sys
import warnings


def attempt(label, F, expected, **kwargs):
    from cnfgen import Shuffle
    try:
        G = Shuffle(F, **kwargs)
    except Exception as e:
        print("  {:55s} VIOLATION: {}: {}".format(label, type(e).__name__, e))
        return False
    got = [list(c) for c in G]
    if got != expected:
        print("  {:55s} VIOLATION: got {} expected {}".format(label, got, expected))
        return False
    print("  {:55s} applied as given".format(label))
    return True


if __name__ == '__main__':
    sys.path.insert(0, '.')
    warnings.simplefilter('ignore')
    from cnfgen import CNF, Shuffle

    print("Property C09: explicit flips, variable permutation and clause")
    print("permutation are applied exactly as given (docstring of Shuffle:")
    print("'polarity_flips: string or iterable(int)', same for the other two).")
    print()

    F = CNF([[1, 2, -3], [-1, 3], [2]])
    flips = [1, -1, 1]
    vperm = [2, 3, 1]
    cperm = [2, 0, 1]

    # what the same values give when passed as lists
    exp_f = [list(c) for c in Shuffle(F, flips, 'fixed', 'fixed')]
    exp_v = [list(c) for c in Shuffle(F, 'fixed', vperm, 'fixed')]
    exp_c = [list(c) for c in Shuffle(F, 'fixed', 'fixed', cperm)]
    exp_a = [list(c) for c in Shuffle(F, flips, vperm, cperm)]

    res = []
    res.append(attempt("polarity_flips = generator", F, exp_f,
                       polarity_flips=(x for x in flips),
                       variables_permutation='fixed',
                       clauses_permutation='fixed'))
    res.append(attempt("variables_permutation = iter(list)", F, exp_v,
                       polarity_flips='fixed',
                       variables_permutation=iter(vperm),
                       clauses_permutation='fixed'))
    res.append(attempt("clauses_permutation = map(int, ['2','0','1'])", F, exp_c,
                       polarity_flips='fixed',
                       variables_permutation='fixed',
                       clauses_permutation=map(int, ['2', '0', '1'])))
    res.append(attempt("all three as generators", F, exp_a,
                       polarity_flips=(x for x in flips),
                       variables_permutation=(x for x in vperm),
                       clauses_permutation=(x for x in cperm)))
    # control
    res.append(attempt("control: tuples", F, exp_a,
                       polarity_flips=tuple(flips),
                       variables_permutation=tuple(vperm),
                       clauses_permutation=tuple(cperm)))

    print()
    if all(res):
        print("OK: one-shot iterables are applied exactly as given")
        sys.exit(0)
    print("DEFECT: valid flips/permutations given as one-shot iterables are "
          "not applied (TypeError)")
    sys.exit(1)
