#!/usr/bin/env python
"""C09 defect 1: explicit flips / permutations given as whole floats are
neither applied exactly nor rejected: the result has float 'literals'.

Run as:  cd WORKDIR && /venv/bin/python _hunt/1/demo.py
"""
import io
import sys
import warnings


def check(label, F, expected, **kwargs):
    """Return True when the behaviour agrees with the property."""
    from cnfgen import CNF, Shuffle
    try:
        G = Shuffle(F, **kwargs)
    except (ValueError, TypeError) as e:
        print("  {}: rejected with {} - fine".format(label, type(e).__name__))
        return True

    clauses = [list(c) for c in G]
    types = sorted(set(type(l).__name__ for c in clauses for l in c))
    dimacs = G.to_dimacs()
    print("  {}: accepted".format(label))
    print("     clauses         :", clauses)
    print("     literal types   :", types)
    print("     DIMACS          :", repr(dimacs))

    ok = True
    if types != ['int']:
        print("     VIOLATION: literals of the shuffled formula are not integers")
        ok = False
    if clauses != expected:
        print("     VIOLATION: expected clauses", expected)
        ok = False
    try:
        H = CNF.from_file(io.StringIO(dimacs))
        if [list(c) for c in H] != expected:
            print("     VIOLATION: the DIMACS output reads back as", list(H))
            ok = False
    except ValueError as e:
        print("     VIOLATION: CNFgen cannot read its own DIMACS output back:", e)
        ok = False
    try:
        Shuffle(G, 'fixed', 'fixed', 'fixed')
    except Exception as e:
        print("     VIOLATION: the result cannot even be shuffled again: {}: {}".format(
            type(e).__name__, e))
        ok = False
    return ok


if __name__ == '__main__':
    sys.path.insert(0, '.')
    warnings.simplefilter('ignore')
    from cnfgen import CNF

    print("Property C09: explicit flips / permutations are applied exactly as")
    print("given, invalid ones are rejected; the result is a signed renaming of")
    print("the variables 1..N of the input (so its literals are integers).")
    print()

    F = CNF([[1, 2, -3], [-1, 3], [2]])
    results = []

    # flips -> x1 , -x2 , x3
    results.append(check("polarity_flips=[1.0, -1.0, 1.0]", F,
                         [[1, -2, -3], [-1, 3], [-2]],
                         polarity_flips=[1.0, -1.0, 1.0],
                         variables_permutation='fixed',
                         clauses_permutation='fixed'))

    # 1->2, 2->3, 3->1
    results.append(check("variables_permutation=[2.0, 3.0, 1.0]", F,
                         [[2, 3, -1], [-2, 1], [3]],
                         polarity_flips='fixed',
                         variables_permutation=[2.0, 3.0, 1.0],
                         clauses_permutation='fixed'))

    # control: the same with integers
    results.append(check("control, integers", F,
                         [[2, -3, -1], [-2, 1], [-3]],
                         polarity_flips=[1, -1, 1],
                         variables_permutation=[2, 3, 1],
                         clauses_permutation='fixed'))

    print()
    if all(results):
        print("OK: whole floats are either applied exactly or rejected")
        sys.exit(0)
    print("DEFECT: whole-float flips/permutations are accepted but produce a "
          "formula with float literals")
    sys.exit(1)
