"""C18 counterexample (judgement call, see README): no constraint of the OPB output is
terminated by ';', which the OPB format the code refers to (PB12 format.pdf) requires;
a strict OPB reader rejects every formula pbgen / 'cnfgen -of opb' writes.

Run as:  cd WORKDIR && /venv/bin/python _hunt/7/demo.py
Exit status: 1 on the defective tree, 0 once repaired.
"""
import os
import re
import subprocess
import sys

LAUNCH = ("import sys, warnings; warnings.simplefilter('ignore'); "
          "sys.path.insert(0, {root!r}); "
          "from cnfgen.clitools.{tool} import main; "
          "sys.argv[0] = {tool!r}; main()")


def run_tool(root, tool, args):
    cmd = [sys.executable, '-c', LAUNCH.format(root=root, tool=tool)] + args
    p = subprocess.run(cmd, capture_output=True, timeout=120,
                       stdin=subprocess.DEVNULL, cwd=root)
    return p.returncode, p.stdout.decode('utf-8', 'replace'), p.stderr.decode('utf-8', 'replace')


# Grammar of http://www.cril.univ-artois.fr/PB12/format.pdf (section 3.1), with the
# usual extension that a literal may be negated with '~':
#   <constraint> ::= <sum> <relational_operator> <zeroOrMoreSpace> <integer> <zeroOrMoreSpace> ";"
#   <sum>        ::= <weightedterm> | <weightedterm> <sum>
#   <weightedterm> ::= <integer> <oneOrMoreSpace> <term> <oneOrMoreSpace>
CONSTRAINT = re.compile(r'^\s*(?:[+-]?\d+ +~?x[1-9]\d* +)+(?:>=|=) *[+-]?\d+ *;\s*$')
HEADER = re.compile(r'^\* #variable= (\d+) #constraint= (\d+)\s*$')


def strict_opb(text):
    """Return None if `text` is accepted, otherwise (line number, line, reason)."""
    lines = text.splitlines()
    if not lines or not HEADER.match(lines[0]):
        return (1, lines[0] if lines else '', "first line must be '* #variable= N #constraint= M'")
    nc = int(HEADER.match(lines[0]).group(2))
    count = 0
    for i, l in enumerate(lines[1:], start=2):
        if l.startswith('*'):
            continue
        if not l.rstrip().endswith(';'):
            return (i, l, "constraint is not terminated by ';'")
        if not CONSTRAINT.match(l):
            return (i, l, "not of the form  <int> <var> ... (>=|=) <int> ;")
        count += 1
    if count != nc:
        return (0, '', "header announces %d constraints, body has %d" % (nc, count))
    return None


if __name__ == '__main__':
    root = os.getcwd()
    sys.path.insert(0, root)
    print("Property C18: the tools write 'a complete formula that a strict reader of the")
    print("chosen format accepts'. cnfgen/utils/opb.py names the format: 'OPB format is the")
    print("industry standard ... [1] https://www.cril.univ-artois.fr/PB12/format.pdf', whose")
    print("grammar ends every constraint with ';'.\n")
    cases = [
        ('pbgen', ['-q', 'php', '3', '2']),
        ('pbgen', ['-q', 'subsetcard', '-e', 'complete', '2', '2']),
        ('cnfgen', ['-q', '-of', 'opb', 'php', '3', '2']),
        ('cnfgen', ['-q', '-of', 'opb', 'and', '1', '1', '-T', 'xor', '2']),
    ]
    failures = 0
    for tool, args in cases:
        rc, out, err = run_tool(root, tool, args)
        print("$ %s %s      (exit status %d)" % (tool, ' '.join(args), rc))
        for l in out.splitlines()[:3]:
            print("    | " + l)
        verdict = strict_opb(out) if rc == 0 else (0, '', 'tool failed: ' + err[:80])
        if verdict:
            failures += 1
            print("  VIOLATION: strict OPB reader rejects line %d %r: %s" % verdict)
        else:
            print("  ok: accepted by the strict OPB reader")
        print()
    if failures:
        print("%d of %d formulas are rejected" % (failures, len(cases)))
        sys.exit(1)
    print("all formulas accepted")
    sys.exit(0)
