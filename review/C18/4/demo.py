"""C18 counterexample: numbers beyond what the machine can index (>= 2**63, or just huge)
escape as OverflowError / MemoryError tracebacks; a deeply nested GML input file escapes
as RecursionError.

Run as:  cd WORKDIR && /venv/bin/python _hunt/4/demo.py
Exit status: 1 on the defective tree, 0 once repaired.
"""
import os
import shutil
import subprocess
import sys

LAUNCH = ("import sys, warnings; warnings.simplefilter('ignore'); "
          "sys.path.insert(0, {root!r}); "
          "from cnfgen.clitools.{tool} import main; "
          "sys.argv[0] = {tool!r}; main()")


def run_tool(root, tool, args):
    cmd = [sys.executable, '-c', LAUNCH.format(root=root, tool=tool)] + args
    try:
        p = subprocess.run(cmd, capture_output=True, timeout=120,
                           stdin=subprocess.DEVNULL, cwd=root)
    except subprocess.TimeoutExpired:
        return None, '', ''
    return p.returncode, p.stdout.decode('utf-8', 'replace'), p.stderr.decode('utf-8', 'replace')


if __name__ == '__main__':
    root = os.getcwd()
    sys.path.insert(0, root)
    print("Property C18 (quantifier: 'numbers inside, at and BEYOND the boundaries of their")
    print("legal range ... malformed input files'): a clean, shielded command-line error,")
    print("never an unhandled internal exception.\n")

    B = '99999999999999999999'          # > 2**64
    M = str(2 ** 63 - 1)                # largest value that still fits a C ssize_t
    tmp = os.path.join(root, '_hunt', '4', 'tmp')
    os.makedirs(tmp, exist_ok=True)
    deep = os.path.join(tmp, 'deep.gml')
    with open(deep, 'w') as f:
        f.write('graph [\n' + 'a [ ' * 3000 + ' ]' * 3000 + '\n]\n')

    cases = [
        ('cnfgen', ['php', B], 'c'),
        ('cnfgen', ['or', B, '0'], 'c'),
        ('cnfgen', ['or', M, '0'], 'c'),
        ('cnfgen', ['parity', B], 'c'),
        ('cnfgen', ['randkcnf', '3', B, '2'], 'c'),
        ('cnfgen', ['vdw', B, '3', '3'], 'c'),
        ('cnfgen', ['kcolor', B, 'empty', '3'], 'c'),
        ('cnfgen', ['kcolor', '2', 'complete', '2', B], 'c'),
        ('pbgen', ['count', B, '3'], '*'),
        ('pbgen', ['stone', B, 'path', '2'], '*'),
        ('cnfgen', ['kcolor', '2', deep], 'c'),
        ('pbgen', ['peb', deep], '*'),
    ]
    failures = 0
    try:
        for tool, args, marker in cases:
            rc, out, err = run_tool(root, tool, args)
            shown = ' '.join(a if len(a) < 60 else '...' + a[-25:] for a in args)
            print("$ %s %s" % (tool, shown))
            if rc is None:
                print("  (still running after 120 s: not judged, performance is out of scope)\n")
                continue
            last = err.strip().splitlines()[-1] if err.strip() else ''
            if 'Traceback (most recent call last)' in err:
                failures += 1
                print("  exit status %d" % rc)
                print("  VIOLATION: unhandled internal exception: " + last[:100])
            elif rc != 0 and err.strip() and all(l.startswith(marker) for l in err.splitlines()) and not out:
                print("  ok: clean, shielded error (%s)" % err.splitlines()[0][:70])
            elif rc == 0:
                print("  ok: exit 0")
            else:
                failures += 1
                print("  exit status %d" % rc)
                print("  VIOLATION: error not clean/shielded: %r" % err[:100])
            print()
    finally:
        shutil.rmtree(tmp, ignore_errors=True)
    if failures:
        print("%d of %d command lines violate C18" % (failures, len(cases)))
        sys.exit(1)
    print("all command lines behave as promised")
    sys.exit(0)
