"""C18 counterexample: a malformed DOT input file makes the tools write an unshielded
parser diagnostic on STANDARD OUTPUT (where the formula goes) before the clean error.

Run as:  cd WORKDIR && /venv/bin/python _hunt/6/demo.py
Exit status: 1 on the defective tree, 0 once repaired.
"""
import os
import shutil
import subprocess
import sys

LAUNCH = ("import sys, warnings; warnings.simplefilter('ignore'); "
          "sys.path.insert(0, {root!r}); "
          "from cnfgen.clitools.{tool} import main; "
          "sys.argv[0] = {tool!r}; main()")


def run_tool(root, tool, args, stdin=b''):
    cmd = [sys.executable, '-c', LAUNCH.format(root=root, tool=tool)] + args
    p = subprocess.run(cmd, capture_output=True, timeout=120, input=stdin, cwd=root)
    return p.returncode, p.stdout.decode('utf-8', 'replace'), p.stderr.decode('utf-8', 'replace')


if __name__ == '__main__':
    root = os.getcwd()
    sys.path.insert(0, root)
    import warnings
    warnings.simplefilter('ignore')
    from cnfgen.graphs import has_dot_library
    if not has_dot_library():
        print("pydot is not installed: the 'dot' format is not offered, nothing to show")
        sys.exit(0)
    print("Property C18: on a malformed input file the tools 'report a command-line error")
    print("(prefixed with the comment marker of the output format, ON THE ERROR STREAM,")
    print("non-zero exit) without writing a partial formula' - i.e. nothing on stdout.\n")

    tmp = os.path.join(root, '_hunt', '6', 'tmp')
    os.makedirs(tmp, exist_ok=True)
    bad = os.path.join(tmp, 'bad.dot')
    with open(bad, 'w') as f:
        f.write('graph G {\n 1 -- 2;\n')          # closing brace missing
    junk = os.path.join(tmp, 'junk.dot')
    with open(junk, 'w') as f:
        f.write('p edge 3 2\ne 1 2\ne 2 3\n')     # a DIMACS graph with the wrong extension
    cases = [
        ('cnfgen', ['kcolor', '2', bad], b'', 'c'),
        ('cnfgen', ['kcolor', '2', junk], b'', 'c'),
        ('pbgen', ['php', 'dot', bad], b'', '*'),
        ('cnfgen', ['peb', 'dot', '-'], b'digraph { 1 -> ', 'c'),
        ('cnfgen', ['-o', os.path.join(tmp, 'out.cnf'), 'tseitin', 'first', bad], b'', 'c'),
    ]
    failures = 0
    try:
        for tool, args, stdin, marker in cases:
            rc, out, err = run_tool(root, tool, args, stdin)
            print("$ %s %s" % (tool, ' '.join(os.path.relpath(a, root) if os.path.isabs(a) else a for a in args)))
            print("  exit status %d; stderr starts with %r" % (rc, err.splitlines()[0] if err.strip() else ''))
            if rc != 0 and out:
                failures += 1
                print("  VIOLATION: %d bytes on standard output, none of them a comment:" % len(out))
                for l in out.splitlines():
                    print("    | " + l)
            elif rc != 0 and err.strip() and all(l.startswith(marker) for l in err.splitlines()):
                print("  ok: nothing on stdout, clean error on stderr")
            else:
                failures += 1
                print("  VIOLATION: unexpected behaviour (stdout %r, stderr %r)" % (out[:60], err[:60]))
            print()
    finally:
        shutil.rmtree(tmp, ignore_errors=True)
    if failures:
        print("%d of %d command lines violate C18" % (failures, len(cases)))
        sys.exit(1)
    print("all command lines behave as promised")
    sys.exit(0)
