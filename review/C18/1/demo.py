"""C18 counterexample: 'regular L R d' with d close to R dies with RecursionError.

Run as:  cd WORKDIR && /venv/bin/python _hunt/1/demo.py
Exit status: 1 on the defective tree, 0 once repaired.
"""
import os
import subprocess
import sys

LAUNCH = ("import sys, warnings; warnings.simplefilter('ignore'); "
          "sys.path.insert(0, {root!r}); "
          "from cnfgen.clitools.{tool} import main; "
          "sys.argv[0] = {tool!r}; main()")


def run_tool(root, tool, args, timeout=600):
    cmd = [sys.executable, '-c', LAUNCH.format(root=root, tool=tool)] + args
    p = subprocess.run(cmd, capture_output=True, timeout=timeout,
                       stdin=subprocess.DEVNULL, cwd=root)
    return p.returncode, p.stdout.decode('utf-8', 'replace'), p.stderr.decode('utf-8', 'replace')


def strict_dimacs_ok(text):
    header = None
    clauses = 0
    for line in text.splitlines():
        if line.startswith('c'):
            continue
        if line.startswith('p cnf '):
            if header is not None:
                return False
            header = [int(x) for x in line.split()[2:]]
            continue
        toks = line.split()
        if header is None or not toks or toks[-1] != '0':
            return False
        clauses += 1
    return header is not None and header[1] == clauses


def judge(tool, args, marker, rc, out, err):
    """Return a list of violations of property C18 for one run."""
    bad = []
    if 'Traceback (most recent call last)' in err:
        bad.append("terminated through an unhandled internal exception: "
                   + err.strip().splitlines()[-1])
    if rc == 0:
        if tool == 'cnfgen' and not strict_dimacs_ok(out):
            bad.append("exit status 0 but the output is not a complete DIMACS formula")
    else:
        if out.strip():
            bad.append("non-zero exit but something was written on stdout")
        unshielded = [l for l in err.splitlines() if not l.startswith(marker)]
        if unshielded and not bad:
            bad.append("error message line without the comment marker %r: %r"
                       % (marker, unshielded[0]))
    return bad


if __name__ == '__main__':
    root = os.getcwd()
    sys.path.insert(0, root)
    print("Property C18: every command line ends either in a complete formula (exit 0)")
    print("or in a clean command-line error, shielded by the comment marker of the")
    print("output format; never in an unhandled internal exception.\n")

    cases = [
        # the graph is built while the command line is parsed
        ('cnfgen', ['-S', '2', 'php', 'regular', '20', '20', '19'], 'c'),
        # same graph generator, reached through build_formula
        ('cnfgen', ['-S', '2', 'subsetcard', '20', '19'], 'c'),
        ('pbgen', ['-S', '2', 'subsetcard', 'regular', '20', '20', '19'], '*'),
    ]
    failures = 0
    for tool, args, marker in cases:
        rc, out, err = run_tool(root, tool, args)
        print("$ %s %s" % (tool, ' '.join(args)))
        print("  exit status: %d   stdout: %d bytes   stderr: %d lines"
              % (rc, len(out), len(err.splitlines())))
        bad = judge(tool, args, marker, rc, out, err)
        if bad:
            failures += 1
            for b in bad:
                print("  VIOLATION: " + b)
            tail = err.strip().splitlines()[-3:]
            for l in tail:
                print("    | " + l)
        else:
            print("  ok (%s)" % ("formula written" if rc == 0 else "clean, shielded error"))
        print()
    if failures:
        print("%d of %d command lines violate C18" % (failures, len(cases)))
        sys.exit(1)
    print("all command lines behave as promised")
    sys.exit(0)
