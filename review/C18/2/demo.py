"""C18 counterexample: '-o <file>' on a device without space: exit status 0, nothing written.

Run as:  cd WORKDIR && /venv/bin/python _hunt/2/demo.py
Exit status: 1 on the defective tree, 0 once repaired.
"""
import os
import shutil
import subprocess
import sys

LAUNCH = ("import sys, warnings; warnings.simplefilter('ignore'); "
          "sys.path.insert(0, {root!r}); "
          "from cnfgen.clitools.{tool} import main; "
          "sys.argv[0] = {tool!r}; main()")


def run_tool(root, tool, args):
    cmd = [sys.executable, '-c', LAUNCH.format(root=root, tool=tool)] + args
    env = dict(os.environ)
    env.pop('PYTHONUNBUFFERED', None)
    p = subprocess.run(cmd, capture_output=True, timeout=300, env=env,
                       stdin=subprocess.DEVNULL, cwd=root)
    return p.returncode, p.stdout.decode('utf-8', 'replace'), p.stderr.decode('utf-8', 'replace')


if __name__ == '__main__':
    root = os.getcwd()
    sys.path.insert(0, root)
    full = '/dev/full'           # every write fails with ENOSPC, like a full disk
    if not os.path.exists(full):
        print("this demonstration needs /dev/full (Linux)")
        sys.exit(2)

    print("Property C18: the tools either write a COMPLETE formula and exit successfully,")
    print("or report an error (comment marker, error stream, NON-ZERO exit).")
    print("An unwritable output is one of the repaired cases on the input side")
    print("(EIO on a graph/formula input used to give 'success without output').\n")

    tmp = os.path.join(root, '_hunt', '2', 'tmp')
    os.makedirs(tmp, exist_ok=True)
    cnf = os.path.join(tmp, 'in.cnf')
    kth = os.path.join(tmp, 'in.kthlist')
    with open(cnf, 'w') as f:
        f.write('p cnf 3 2\n1 -2 0\n2 3 0\n')
    with open(kth, 'w') as f:
        f.write('3\n1 : 0\n2 : 0\n3 : 1 2 0\n')

    cases = [
        ('cnfgen', ['-o', full, 'php', '3', '2'], 'c'),
        ('cnfgen', ['-o', full, '-of', 'latex', 'php', '3', '2'], '%'),
        ('pbgen', ['-o', full, 'php', '3', '2'], '*'),
        ('cnfshuffle', ['-i', cnf, '-o', full], 'c'),
        ('kthlist2pebbling', ['-i', kth, '-o', full], 'c'),
    ]
    failures = 0
    try:
        for tool, args, marker in cases:
            rc, out, err = run_tool(root, tool, args)
            print("$ %s %s" % (tool, ' '.join(args)))
            print("  exit status %d, stdout %d bytes, stderr %r" % (rc, len(out), err[:120]))
            if rc == 0:
                failures += 1
                print("  VIOLATION: not a single byte of the formula could be stored, yet the tool")
                print("             exits successfully and says nothing")
            elif 'Traceback' in err or not all(l.startswith(marker) for l in err.splitlines()) or not err.strip():
                failures += 1
                print("  VIOLATION: failure is not reported as a clean, shielded error")
            else:
                print("  ok: clean error")
            print()

        # control: the same tools do notice the failure when the formula is larger than the
        # I/O buffer, which shows that the silent success is an accident of buffering
        rc, out, err = run_tool(root, 'cnfgen', ['-o', full, 'php', '40', '30'])
        print("control  $ cnfgen -o /dev/full php 40 30   -> exit status %d, stderr %r" % (rc, err.strip()[:80]))
    finally:
        shutil.rmtree(tmp, ignore_errors=True)

    if failures:
        print("\n%d of %d command lines violate C18" % (failures, len(cases)))
        sys.exit(1)
    print("\nall command lines behave as promised")
    sys.exit(0)
