"""C18 counterexample: errors found while the command line is parsed are always prefixed
with the marker of the tool's DEFAULT format ('c ' for cnfgen, '* ' for pbgen), not with
the comment marker of the output format that was requested.

Run as:  cd WORKDIR && /venv/bin/python _hunt/5/demo.py
Exit status: 1 on the defective tree, 0 once repaired.
"""
import os
import subprocess
import sys

LAUNCH = ("import sys, warnings; warnings.simplefilter('ignore'); "
          "sys.path.insert(0, {root!r}); "
          "from cnfgen.clitools.{tool} import main; "
          "sys.argv[0] = {tool!r}; main()")


def run_tool(root, tool, args):
    cmd = [sys.executable, '-c', LAUNCH.format(root=root, tool=tool)] + args
    p = subprocess.run(cmd, capture_output=True, timeout=120,
                       stdin=subprocess.DEVNULL, cwd=root)
    return p.returncode, p.stdout.decode('utf-8', 'replace'), p.stderr.decode('utf-8', 'replace')


if __name__ == '__main__':
    root = os.getcwd()
    sys.path.insert(0, root)
    print("Property C18: a command-line error is reported 'prefixed with the comment marker")
    print("of the output format' (DIMACS 'c', OPB '*', LaTeX '%'), so that the message is")
    print("harmless wherever the formula was supposed to go.\n")

    missing = os.path.join('_hunt', '5', 'no-such-file.gml')
    cases = [
        # (tool, args, expected marker, description)
        ('cnfgen', ['-of', 'opb', 'php', '3', 'x'], '*'),
        ('cnfgen', ['-of', 'opb', 'php', '0', '-1'], '*'),
        ('cnfgen', ['-of', 'opb', 'kcolor', '2', missing], '*'),
        ('cnfgen', ['-of', 'opb', 'kcolor', '2', 'gnd', '5', '3'], '*'),
        ('cnfgen', ['-of', 'opb', 'php', '3', '2', '-T', 'xor', '0'], '*'),
        ('cnfgen', ['-of', 'latex', 'ram', '3', '3'], '%'),
        ('cnfgen', ['-l', 'kcolor', '2', 'gnp', '5', '1.5'], '%'),
        ('pbgen', ['-of', 'latex', 'php', '3', 'x'], '%'),
        ('pbgen', ['-l', 'subsetcard', 'regular', '3', '3', '4'], '%'),
        # control: errors found after parsing do use the right marker
        ('cnfgen', ['-of', 'opb', 'tseitin', '3', '3'], '*'),
        ('cnfgen', ['-of', 'latex', 'tseitin', '3', '3'], '%'),
    ]
    failures = 0
    for tool, args, marker in cases:
        rc, out, err = run_tool(root, tool, args)
        first = err.splitlines()[0] if err.strip() else ''
        print("$ %s %s" % (tool, ' '.join(args)))
        print("  exit status %d, first line of stderr: %r" % (rc, first))
        wrong = [l for l in err.splitlines() if not l.startswith(marker)]
        if rc == 0 or not err.strip():
            failures += 1
            print("  VIOLATION: an error was expected")
        elif wrong:
            failures += 1
            print("  VIOLATION: %d of %d lines do not start with %r, the comment marker of the requested format"
                  % (len(wrong), len(err.splitlines()), marker))
        else:
            print("  ok: every line starts with %r" % marker)
        print()
    if failures:
        print("%d of %d command lines violate C18" % (failures, len(cases)))
        sys.exit(1)
    print("all command lines behave as promised")
    sys.exit(0)
