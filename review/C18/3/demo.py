"""C18 counterexample: LaTeX output + an input file whose name is not valid UTF-8
(or any non-ASCII name under LC_ALL=C PYTHONUTF8=0): UnicodeEncodeError traceback
and a truncated .tex file.

Run as:  cd WORKDIR && /venv/bin/python _hunt/3/demo.py
Exit status: 1 on the defective tree, 0 once repaired.
"""
import os
import shutil
import subprocess
import sys

LAUNCH = ("import sys, warnings; warnings.simplefilter('ignore'); "
          "sys.path.insert(0, {root!r}); "
          "from cnfgen.clitools.{tool} import main; "
          "sys.argv[0] = {tool!r}; main()")


def run_tool(root, tool, args, extra_env=None):
    # arguments are passed as bytes: file names are byte strings on POSIX
    cmd = [os.fsencode(sys.executable), b'-c',
           LAUNCH.format(root=root, tool=tool).encode()] + args
    env = dict(os.environ)
    if extra_env:
        env.update(extra_env)
    p = subprocess.run(cmd, capture_output=True, timeout=300, env=env,
                       stdin=subprocess.DEVNULL, cwd=root)
    return p.returncode, p.stdout, p.stderr.decode('utf-8', 'replace')


def complete_latex(path):
    try:
        with open(path, 'rb') as f:
            data = f.read()
    except OSError:
        return False, 0
    ok = data.count(b'\\begin{document}') == 1 and data.rstrip().endswith(b'\\end{document}')
    return ok, len(data)


if __name__ == '__main__':
    root = os.getcwd()
    sys.path.insert(0, root)
    print("Property C18: a complete formula and exit 0, or a clean shielded error and no")
    print("partial formula; never an unhandled internal exception.\n")

    tmp = os.path.join(root, '_hunt', '3', 'tmp')
    os.makedirs(tmp, exist_ok=True)
    btmp = os.fsencode(tmp)
    graph = b'3\n1 : 2 0\n2 : 1 3 0\n3 : 2 0\n'
    latin1 = os.path.join(btmp, b'gr\xe4ph.kthlist')          # 'graeph' in ISO-8859-1: legal POSIX name
    utf8 = os.path.join(btmp, 'gräph.kthlist'.encode('utf-8'))
    cnfin = os.path.join(btmp, b'f\xe4.cnf')
    for p in (latin1, utf8):
        with open(p, 'wb') as f:
            f.write(graph)
    with open(cnfin, 'wb') as f:
        f.write(b'p cnf 2 1\n1 -2 0\n')
    out = [os.path.join(btmp, b'out%d.tex' % i) for i in range(5)]
    clocale = {'LC_ALL': 'C', 'PYTHONUTF8': '0'}
    cases = [
        ("cnfgen -o out0.tex kcolor 2 gr\\xe4ph.kthlist", 'cnfgen',
         [b'-o', out[0], b'kcolor', b'2', latin1], None, out[0]),
        ("pbgen -of latex -o out1.tex kcolor 2 gr\\xe4ph.kthlist", 'pbgen',
         [b'-of', b'latex', b'-o', out[1], b'kcolor', b'2', latin1], None, out[1]),
        ("cnfgen -o out2.tex dimacs f\\xe4.cnf", 'cnfgen',
         [b'-o', out[2], b'dimacs', cnfin], None, out[2]),
        ("LC_ALL=C PYTHONUTF8=0 cnfgen -o out3.tex kcolor 2 gräph.kthlist   (valid UTF-8 name)", 'cnfgen',
         [b'-o', out[3], b'kcolor', b'2', utf8], clocale, out[3]),
        # control: the DIMACS writer sanitises its header and works
        ("cnfgen -o out4.cnf kcolor 2 gr\\xe4ph.kthlist   (control, DIMACS)", 'cnfgen',
         [b'-o', os.path.join(btmp, b'out4.cnf'), b'kcolor', b'2', latin1], None, None),
    ]
    failures = 0
    try:
        for label, tool, args, env, texfile in cases:
            rc, so, err = run_tool(root, tool, args, env)
            print("$ " + label)
            print("  exit status %d" % rc)
            bad = []
            if 'Traceback (most recent call last)' in err:
                bad.append("unhandled internal exception: " + err.strip().splitlines()[-1])
            if texfile is not None:
                ok, size = complete_latex(texfile)
                if rc == 0 and not ok:
                    bad.append("exit 0 but %s is not a complete LaTeX document" % os.fsdecode(os.path.basename(texfile)))
                if rc != 0 and size > 0:
                    bad.append("a partial formula (%d bytes, no \\end{document}) was left in the output file" % size)
            if rc != 0 and not bad:
                # a clean error would be acceptable
                if not all(l[:1] in ('c', '%', '*') for l in err.splitlines()):
                    bad.append("unshielded error message")
            if bad:
                failures += 1
                for b in bad:
                    print("  VIOLATION: " + b)
            else:
                print("  ok")
            print()
    finally:
        shutil.rmtree(tmp, ignore_errors=True)

    if failures:
        print("%d command lines violate C18" % failures)
        sys.exit(1)
    print("all command lines behave as promised")
    sys.exit(0)
