"""C14 defect: a bipartite graph whose name contains a double quote (or ends
with a backslash) is written in 'dot' format as a file that readGraph rejects.

Run as:  cd WORKDIR && /venv/bin/python _hunt/1/demo.py
Exit status: 1 on the defective tree, 0 once repaired.
"""
import io
import os
import shutil
import sys
import tempfile
import warnings


def signature(B):
    return (B.left_order(), B.right_order(), sorted(B.edges()))


def roundtrip_stream(name):
    """write B to dot and read it back through text streams"""
    from cnfgen.graphs import BipartiteGraph, readGraph, writeGraph
    B = BipartiteGraph(2, 3, name)
    B.add_edge(1, 2)
    B.add_edge(2, 3)
    buf = io.StringIO()
    writeGraph(B, buf, 'bipartite', 'dot')
    text = buf.getvalue()
    try:
        H = readGraph(io.StringIO(text), 'bipartite', 'dot')
    except Exception as e:      # noqa
        return False, "readGraph raised {}: {}\n--- file written by writeGraph:\n{}".format(
            type(e).__name__, e, text)
    if signature(H) != signature(B):
        return False, "graph differs: {} != {}".format(signature(H), signature(B))
    return True, "ok"


def roundtrip_cli(tmpdir):
    """the same through graph arguments '<file>' and 'save <file>'"""
    from cnfgen.clitools.graph_args import make_graph_from_spec
    first = os.path.join(tmpdir, 'my"graph.kthlist')
    second = os.path.join(tmpdir, 'copy.dot')
    G = make_graph_from_spec('bipartite', ['shift', '3', '4', '0', '1', 'save', first])
    # the graph read from file gets the name
    #   bipartite graph from file '.../my"graph.kthlist' (format: kthlist)
    G1 = make_graph_from_spec('bipartite', [first, 'save', second])
    assert signature(G1) == signature(G)
    try:
        G2 = make_graph_from_spec('bipartite', [second])
    except Exception as e:      # noqa
        return False, "reading back {} raised {}: {}".format(second, type(e).__name__, e)
    if signature(G2) != signature(G):
        return False, "graph differs"
    return True, "ok"


if __name__ == '__main__':
    sys.path.insert(0, os.getcwd())
    warnings.simplefilter('ignore')

    print("PROMISED: writing a bipartite graph in any format supported for its type")
    print("          (kthlist, gml, dot, matrix) and reading it back returns the same graph.")
    print()
    failures = 0
    for name in ['plain name',                 # control: works
                 'a "quoted" name',
                 '"',
                 'name ending with a backslash\\']:
        ok, what = roundtrip_stream(name)
        print("BipartiteGraph(2, 3, {!r}) -> dot -> readGraph : {}".format(
            name, "OK" if ok else "FAILED"))
        if not ok:
            failures += 1
            print("   " + what.replace("\n", "\n   "))

    tmpdir = tempfile.mkdtemp(dir=os.path.dirname(os.path.abspath(__file__)))
    try:
        ok, what = roundtrip_cli(tmpdir)
    finally:
        shutil.rmtree(tmpdir, ignore_errors=True)
    print("graph arguments: shift 3 4 0 1 save 'my\"graph.kthlist' ; "
          "'my\"graph.kthlist' save copy.dot ; copy.dot : {}".format("OK" if ok else "FAILED"))
    if not ok:
        failures += 1
        print("   " + what)

    print()
    if failures:
        print("ACTUAL: {} round trip(s) through the dot format failed".format(failures))
        sys.exit(1)
    print("ACTUAL: all round trips succeeded")
    sys.exit(0)
