"""C14 defect: the dot reader silently drops everything that is inside a
subgraph / cluster / '{rank=same; ...}' group. The graph returned has fewer
vertices, a different numbering and fewer edges than the text, and a file
with a backward edge is accepted as 'dag'.

Run as:  cd WORKDIR && /venv/bin/python _hunt/2/demo.py
Exit status: 1 on the defective tree, 0 once repaired (either the subgraphs
are taken into account, or such files are refused with ValueError).
"""
import contextlib
import io
import os
import sys
import warnings


def read(text, graph_type):
    """returns ('error', msg) | ('graph', n, edges) | ('crash', msg)"""
    from cnfgen.graphs import readGraph
    try:
        with contextlib.redirect_stdout(io.StringIO()):
            G = readGraph(io.StringIO(text), graph_type, 'dot')
    except ValueError as e:
        return ('ValueError', str(e))
    except Exception as e:   # noqa
        return ('crash', '{}: {}'.format(type(e).__name__, e))
    return ('graph', G.number_of_vertices(), sorted(G.edges()))


if __name__ == '__main__':
    sys.path.insert(0, os.getcwd())
    warnings.simplefilter('ignore')

    print("PROMISED: reading arbitrary text either returns a graph consistent with the text")
    print("          or raises ValueError; a file declared acyclic is accepted only if every")
    print("          edge goes from a lower to a higher vertex.")
    print()

    # (type, text, the graph that the text describes)
    cases = [
        ('dag',
         'digraph { 1; 2; 3; subgraph s { 3 -> 1 } 1 -> 2 }',
         None),                     # has the backward edge 3 -> 1: must be refused
        ('simple',
         'graph { subgraph cluster_a { 1; 2; 3 } 1 -- 3 }',
         ('graph', 3, [(1, 3)])),
        ('simple',
         'graph { {rank=same; 1; 2; 3} 1 -- 3 }',
         ('graph', 3, [(1, 3)])),
        ('simple',
         'graph { 1; 2; 3; 4; subgraph s { 2 -- 3 } 1 -- 4 }',
         ('graph', 4, [(1, 4), (2, 3)])),
        ('digraph',
         'digraph { 1; 2; 3; subgraph s { 3 -> 1 } 1 -> 2 }',
         ('graph', 3, [(1, 2), (3, 1)])),
    ]
    bad = 0
    for graph_type, text, consistent in cases:
        res = read(text, graph_type)
        fine = res[0] == 'ValueError' or (consistent is not None and res == consistent)
        print("{:8s} {}".format(graph_type, text))
        print("         consistent with the text: {}".format(
            "ValueError (backward edge 3 -> 1)" if consistent is None
            else "{} vertices, edges {}  (or ValueError)".format(consistent[1], consistent[2])))
        print("         readGraph gave          : {}   {}".format(
            res[1:] if res[0] == 'graph' else res, "ok" if fine else "<-- WRONG"))
        if not fine:
            bad += 1
    print()
    if bad:
        print("ACTUAL: {} dot text(s) accepted with a graph that is not the one in the text".format(bad))
        sys.exit(1)
    print("ACTUAL: every text was either read faithfully or refused with ValueError")
    sys.exit(0)
