"""C14 defect: the bipartite reader for gml and dot numbers the vertices of
each side in the order in which they are listed in the file, not in the order
of their identifiers (as the simple / directed readers do, and as the
docstring of BipartiteGraph.normalize promises). A file that lists the nodes
out of order is accepted and the edges end up on the wrong vertices.

Run as:  cd WORKDIR && /venv/bin/python _hunt/3/demo.py
Exit status: 1 on the defective tree, 0 once repaired (identifier order
respected, or the file refused with ValueError).
"""
import contextlib
import io
import os
import sys
import warnings


def read(text, graph_type, fmt):
    from cnfgen.graphs import readGraph
    try:
        with contextlib.redirect_stdout(io.StringIO()):
            G = readGraph(io.StringIO(text), graph_type, fmt)
    except ValueError as e:
        return ('ValueError', str(e))
    except Exception as e:   # noqa
        return ('crash', '{}: {}'.format(type(e).__name__, e))
    if graph_type == 'bipartite':
        return ('graph', G.left_order(), G.right_order(), sorted(G.edges()))
    return ('graph', G.number_of_vertices(), sorted(G.edges()))


GML = """graph [
  node [ id 1 bipartite 0 ]
  node [ id 0 bipartite 0 ]
  node [ id 2 bipartite 1 ]
  edge [ source 0 target 2 ]
]
"""
DOT = "graph { 2 [bipartite=0]; 1 [bipartite=0]; 3 [bipartite=1]; 1 -- 3 }"


def reference_roundtrip():
    """what writeGraph itself produces for the graph 'left 1 -- right 1'
    with two left vertices: the lowest identifier is left vertex 1"""
    from cnfgen.graphs import BipartiteGraph, writeGraph
    B = BipartiteGraph(2, 1)
    B.add_edge(1, 1)
    out = {}
    for fmt in ('gml', 'dot'):
        f = io.StringIO()
        writeGraph(B, f, 'bipartite', fmt)
        out[fmt] = f.getvalue()
    return out


if __name__ == '__main__':
    sys.path.insert(0, os.getcwd())
    warnings.simplefilter('ignore')

    print("PROMISED: reading arbitrary text either returns a graph consistent with the text")
    print("          (same vertex numbering, exactly the same edges) or raises ValueError.")
    print("          BipartiteGraph.normalize: 'If the vertices in the original graph have")
    print("          some kind of order, the order is preserved.'")
    print()
    bad = 0

    # The lowest identifier of the left side (gml id 0 / dot node 1) is the one
    # with the edge. Numbering the vertices by identifier, as the writer does
    # and as the simple reader does, it is LEFT VERTEX 1.
    expected = ('graph', 2, 1, [(1, 1)])
    for fmt, text in (('gml', GML), ('dot', DOT)):
        res = read(text, 'bipartite', fmt)
        fine = res[0] == 'ValueError' or res == expected
        print("bipartite {}: {}".format(fmt, " ".join(text.split())))
        print("   expected : L=2 R=1 edges [(1, 1)]   (or ValueError)")
        print("   got      : {}   {}".format(res[1:] if res[0] == 'graph' else res,
                                             "ok" if fine else "<-- edge moved to left vertex 2"))
        if not fine:
            bad += 1
        # the very same file read as a simple graph: identifiers are sorted
        res_simple = read(text, 'simple', fmt)
        print("   the same text read as 'simple' (for comparison): {}".format(res_simple[1:]))
        print()

    # sanity: the two texts only differ from what writeGraph writes in the
    # order of the first two node lines
    ref = reference_roundtrip()
    for fmt in ('gml', 'dot'):
        res = read(ref[fmt], 'bipartite', fmt)
        print("file written by writeGraph for the same graph, {}: {}".format(fmt, res[1:]))
    print()
    if bad:
        print("ACTUAL: {} text(s) accepted with the edge attached to the wrong vertex".format(bad))
        sys.exit(1)
    print("ACTUAL: vertex numbering follows the identifiers (or the file is refused)")
    sys.exit(0)
