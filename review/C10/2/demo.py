#!/usr/bin/env python
"""C10 counterexample: the *checked* insertion of a clause / constraint
(check=True, the default) accepts literals that are not integers.

Run as:  cd WORKDIR && /venv/bin/python _hunt/2/demo.py
Exit status: 1 on the defective tree, 0 once the check refuses (or
normalises) non-integer literals.
"""
import sys
import warnings


def literals(F):
    from cnfgen.formula.baseopb import BaseOPB
    for item in F:
        if isinstance(F, BaseOPB):
            for _coeff, lit in item[:-2]:
                yield lit
        else:
            for lit in item:
                yield lit


def invariant_holds(F):
    """The C10 invariant, read literally."""
    n = F.number_of_variables()
    if not isinstance(n, int) or isinstance(n, bool):
        return False, "number_of_variables() = {!r} is not an int".format(n)
    for lit in literals(F):
        if not isinstance(lit, int) or isinstance(lit, bool):
            return False, "literal {!r} is not an integer".format(lit)
        if lit == 0 or abs(lit) > n:
            return False, "literal {!r} outside 1..{}".format(lit, n)
    return True, "ok"


def attempt(make, insert, what):
    """Returns True when the behaviour is acceptable"""
    F = make()
    try:
        insert(F)
        outcome = "ACCEPTED"
    except ValueError as e:
        outcome = "refused with ValueError ({})".format(e)
    except TypeError as e:
        outcome = "refused with TypeError ({})".format(e)
    ok, why = invariant_holds(F)
    text = F.to_dimacs() if hasattr(F, 'to_dimacs') else F.to_opb()
    first = [l for l in text.splitlines() if l[:1] in ('p', '*')][0]
    print("  {:<58} -> {}".format(what, outcome))
    if not ok:
        print("      formula now violates the invariant: {}".format(why))
        print("      debug() = {},  output starts with {!r}".format(
            F.debug(), first))
        try:
            v = F.new_variable('fresh')
            print("      next new_variable() -> {!r}".format(v))
        except Exception as e:
            print("      next new_variable() -> {}: {}".format(
                type(e).__name__, e))
    return ok


if __name__ == '__main__':
    sys.path.insert(0, '.')
    warnings.simplefilter('ignore')
    from cnfgen import CNF
    from cnfgen.formula.opb import OPB

    print("Property C10: in every formula every literal is a non-zero INTEGER")
    print("whose variable lies in 1..number_of_variables().  docs/buildcnf.rst:")
    print("'By default CNF.add_clause checks that all literals in the clauses")
    print("are non-zero integers'; the refusal message is 'literals must be")
    print("non-zero integers'.  So these checked insertions must be refused")
    print("(or leave a formula that still satisfies the invariant):\n")

    nan = float('nan')
    results = []
    # -- the cases that decide the exit status: unambiguous non-integers
    results.append(attempt(CNF, lambda F: F.add_clause([1.5]),
                           "CNF().add_clause([1.5])"))
    results.append(attempt(CNF, lambda F: F.add_clause([1, nan]),
                           "CNF().add_clause([1, nan])"))
    results.append(attempt(lambda: CNF([[1, -2]]),
                           lambda F: F.add_clauses_from([[2, -3], [2.5, 1]]),
                           "CNF([[1,-2]]).add_clauses_from([[2,-3],[2.5,1]])"))
    results.append(attempt(CNF, lambda F: F.add_linear([1, 2.5, 3], '>=', 2),
                           "CNF().add_linear([1, 2.5, 3], '>=', 2)"))
    results.append(attempt(CNF, lambda F: F.add_parity([1, 2.5], 1),
                           "CNF().add_parity([1, 2.5], 1)"))
    results.append(attempt(OPB, lambda F: F.add_clause([1.5]),
                           "OPB().add_clause([1.5])"))
    results.append(attempt(OPB,
                           lambda F: F.add_constraint([(2, 1), (1, 2.5), '>=', 2]),
                           "OPB().add_constraint([(2,1),(1,2.5),'>=',2])"))
    results.append(attempt(OPB, lambda F: F.cardinality_eq([1, nan], 1),
                           "OPB().cardinality_eq([1, nan], 1)"))

    print()
    if all(results):
        print("OK: non-integer literals are refused by the checked insertion.")
        sys.exit(0)
    print("VIOLATION: {} of {} checked insertions stored a non-integer literal;"
          .format(results.count(False), len(results)))
    print("the declared number of variables becomes a float (or stays too small")
    print("for nan), debug() does not notice, the DIMACS/OPB header is corrupt")
    print("and the next allocation of a variable group crashes.")
    sys.exit(1)
