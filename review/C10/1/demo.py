#!/usr/bin/env python
"""C10 counterexample: PitfallFormula shifts the negative literals of the
Tseitin template by the wrong offset.

Run as:  cd WORKDIR && /venv/bin/python _hunt/1/demo.py
Exit status: 1 on the defective tree, 0 once the offset is repaired.
"""
import sys
import random
import warnings


def hard_part_report(v, d, ny, nz, k, seed):
    """Build the formula and inspect its 'hard part' (k copies of a Tseitin
    formula, each on its own group of edge variables X[j]).

    Layout promised by the code/documentation of PitfallFormula:
      X[1] ... X[k] : k groups of nx = v*d/2 edge variables (allocated first)
      then Y (k*ny), Z (k*nz), P (k*(nx+nz)), A (3k)
    The first k*tlen clauses are the hard part: the clauses of the template
    Tseitin formula T, translated to the variables of X[j], followed by the
    nz literals Z(j,1..nz).
    """
    from cnfgen import PitfallFormula

    random.seed(seed)
    F = PitfallFormula(v, d, ny, nz, k)
    nx = v * d // 2
    tlen = v * 2**(d - 1)          # clauses of a Tseitin formula, d-regular
    n = F.number_of_variables()
    expected_n = k * nx + k * ny + k * nz + k * (nx + nz) + 3 * k
    clauses = list(F)

    foreign = []                   # (copy, clause index, clause, literal)
    tautologies = 0
    for j in range(1, k + 1):
        lo, hi = (j - 1) * nx + 1, j * nx          # ids owned by X[j]
        for idx in range((j - 1) * tlen, j * tlen):
            cl = clauses[idx]
            edge_part = cl[:len(cl) - nz]          # drop the Z(j,.) suffix
            if any(-l in edge_part for l in edge_part):
                tautologies += 1
            for lit in edge_part:
                if not lo <= abs(lit) <= hi:
                    foreign.append((j, idx, cl, lit))
    return F, n, expected_n, foreign, tautologies, (nx, tlen)


if __name__ == '__main__':
    sys.path.insert(0, '.')
    warnings.simplefilter('ignore')

    print("Property C10: every formula mentions only variables it owns;")
    print("observed through formula.debug(), number_of_variables(), clauses().")
    print("PitfallFormula promises: the hard part is k copies of a Tseitin")
    print("formula, the j-th copy written on the edge variables X[j] only.\n")

    failed = False
    for (v, d, ny, nz, k) in [(4, 3, 2, 2, 2), (6, 3, 2, 2, 2), (8, 4, 3, 3, 4)]:
        F, n, exp_n, foreign, taut, (nx, tlen) = hard_part_report(
            v, d, ny, nz, k, seed=1)
        dbg = F.debug()
        print("PitfallFormula(v={}, d={}, ny={}, nz={}, k={}):".format(
            v, d, ny, nz, k))
        print("  number_of_variables() = {} (expected {})".format(n, exp_n))
        print("  debug()               = {}   (promised: True)".format(dbg))
        print("  hard-part clauses that contain x and -x : {} of {}".format(
            taut, k * tlen))
        print("  edge literals outside the owning group X[j]: {}".format(
            len(foreign)))
        if foreign:
            j, idx, cl, lit = foreign[-1]
            print("    e.g. copy j={} owns variables {}..{}, but clause #{} = {}"
                  .format(j, (j - 1) * nx + 1, j * nx, idx, cl))
            print("         mentions literal {} (variable {} belongs to {})"
                  .format(lit, abs(lit),
                          "group X[{}]".format((abs(lit) - 1) // nx + 1)
                          if abs(lit) <= k * nx else "the Y/Z/P blocks"))
        if n != exp_n or not dbg or foreign or taut:
            failed = True
        print()

    if failed:
        print("VIOLATION: the Tseitin copies of PitfallFormula mention variables")
        print("of other groups (negative literals are shifted two positions too")
        print("far), the clauses contain opposite literals and debug() is False.")
        sys.exit(1)
    print("OK: every Tseitin copy stays inside its own variable group.")
    sys.exit(0)
