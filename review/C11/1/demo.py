"""C11 - an unlabelled single variable has no name: all_variable_labels()
reports None for it, LaTeX output crashes, '--varnames' style output
prints the word 'None', substitutions crash.

Run as:  cd WORKDIR && /venv/bin/python _hunt/1/demo.py
"""
import io
import sys
import warnings


def main():
    sys.path.insert(0, '.')
    warnings.simplefilter('ignore')
    from cnfgen.formula.cnf import CNF
    from cnfgen.formula.opb import OPB
    from cnfgen.transformations.substitutions import XorSubstitution

    failures = []

    print("Property C11: the i-th variable name reported by the formula is the")
    print("name of variable i: the group's label for its index, or the default")
    print("name for variables that were given no name.")
    print()

    for cls in (CNF, OPB):
        F = cls()
        F.update_variable_number(1)       # anonymous variable 1
        v = F.new_variable()              # documented: label is optional
        w = F.new_variable('W')
        F.add_clause([1, -v, w])
        assert (v, w) == (2, 3)

        # 1. the table of names
        names = list(F.all_variable_labels())
        print("{}: update_variable_number(1); new_variable(); new_variable('W')".format(cls.__name__))
        print("   all_variable_labels() ->", names)
        if len(names) != 3 or not all(isinstance(n, str) and n for n in names):
            failures.append("{}: all_variable_labels() reports {!r}: the name of "
                            "variable 2 is not a string".format(cls.__name__, names))
        latexnames = list(F.all_variable_labels(default_label_format='y_{}'))
        if not all(isinstance(n, str) for n in latexnames):
            failures.append("{}: all_variable_labels('y_{{}}') -> {!r}".format(cls.__name__, latexnames))

        # 2. varnames output (DIMACS for CNF, OPB for both)
        out = io.StringIO()
        F.to_file(out, fileformat='opb', export_header=False, export_varnames=True)
        lines = [l for l in out.getvalue().splitlines() if 'varname' in l]
        print("   varname lines       ->", lines)
        if any(l.split()[-1] == 'None' for l in lines):
            failures.append("{}: the varnames table calls variable 2 'None'".format(cls.__name__))

        # 3. LaTeX output
        try:
            F.to_latex()
            print("   to_latex()          -> ok")
        except Exception as e:            # TypeError on the current tree
            print("   to_latex()          -> {}: {}".format(type(e).__name__, e))
            failures.append("{}: to_latex() crashes with {}: {}".format(
                cls.__name__, type(e).__name__, e))

    # 4. a transformation that reads the names
    F = CNF()
    v = F.new_variable()
    F.add_clause([v])
    try:
        G = XorSubstitution(F, 2)
        print("XorSubstitution(F,2) names ->", list(G.all_variable_labels()))
    except Exception as e:                # AttributeError on the current tree
        print("XorSubstitution(F,2) -> {}: {}".format(type(e).__name__, e))
        failures.append("XorSubstitution on a formula with an unlabelled variable "
                        "crashes with {}: {}".format(type(e).__name__, e))

    print()
    if failures:
        print("DEFECT: new_variable() without a label produces a variable whose name is None")
        for f in failures:
            print(" -", f)
        return 1
    print("OK: an unlabelled variable gets a proper (default) name")
    return 0


if __name__ == '__main__':
    sys.exit(main())
