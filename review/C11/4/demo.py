"""C11 (names) - the k-colouring formula gives the same name to different
variables as soon as there are more than 10 vertices and more than 10 colours
(label 'x_{{{0}{1}}}' has no separator between vertex and colour).

Run as:  cd WORKDIR && /venv/bin/python _hunt/4/demo.py
"""
import io
import sys
import contextlib
import collections
import warnings


def main():
    sys.path.insert(0, '.')
    warnings.simplefilter('ignore')
    from cnfgen.graphs import Graph
    from cnfgen.families.coloring import GraphColoringFormula
    from cnfgen.clitools import cnfgen

    print("Property C11: variable groups map indices to identifiers bijectively, with")
    print("names aligned: the i-th name reported by the formula is the name of variable")
    print("i, i.e. the group's label for its index.  A name must therefore identify one")
    print("index of the group.")
    print()

    failures = []

    G = Graph(11)
    G.add_edge(1, 11)
    F = GraphColoringFormula(G, 11)
    names = list(F.all_variable_labels())
    n = F.number_of_variables()
    print("GraphColoringFormula(G on 11 vertices, 11 colours): {} variables, "
          "{} distinct names".format(n, len(set(names))))
    dup = [(k, [i + 1 for i, x in enumerate(names) if x == k])
           for k, c in collections.Counter(names).items() if c > 1]
    for k, ids in dup[:5]:
        print("   name {!r} is given to variables {}".format(k, ids))
    if len(set(names)) != n:
        failures.append("library: {} variables share their name with another "
                        "variable".format(n - len(set(names))))

    out = io.StringIO()
    with contextlib.redirect_stdout(out):
        try:
            cnfgen(['cnfgen', '-q', '--varnames', 'kcolor', '11', 'complete', '11'])
        except SystemExit:
            pass
    table = {}
    for line in out.getvalue().splitlines():
        if line.startswith('c varname '):
            _, _, vid, name = line.split(None, 3)
            table.setdefault(name, []).append(int(vid))
    clash = {k: v for k, v in table.items() if len(v) > 1}
    print("cnfgen -q --varnames kcolor 11 complete 11: {} names denote more than one "
          "variable".format(len(clash)))
    for k in sorted(clash)[:5]:
        print("   c varname {} {}".format(clash[k][0], k))
        print("   c varname {} {}".format(clash[k][1], k))
    if clash:
        failures.append("CLI: {} ambiguous 'c varname' names".format(len(clash)))

    print()
    if failures:
        print("DEFECT: distinct variables of kcolor carry the same name")
        for f in failures:
            print(" -", f)
        return 1
    print("OK: the names of the kcolor variables are pairwise distinct")
    return 0


if __name__ == '__main__':
    sys.exit(main())
