"""C11 - combinations / permutations / words groups reject every index pattern
that contains a wildcard (None), although the pattern is legal.

Run as:  cd WORKDIR && /venv/bin/python _hunt/2/demo.py
"""
import sys
import warnings


def matches(pattern, index):
    return len(pattern) == len(index) and all(
        p is None or p == x for p, x in zip(pattern, index))


def main():
    sys.path.insert(0, '.')
    warnings.simplefilter('ignore')
    from cnfgen.formula.cnf import CNF

    print("Property C11: every variable group (... combinations/permutations/words ...)")
    print("enumerates its legal indices in identifier order and converts index to")
    print("identifier, for all index patterns with wildcards.")
    print("BaseVariableGroup.__call__: 'An index of length 0 or which contains None")
    print("values will be considered a projection pattern of the set of legal indices")
    print("of the variable group.'")
    print()

    failures = []
    F = CNF()
    F.update_variable_number(3)
    groups = [
        ('new_block(3,3)  [reference]', F.new_block(3, 3, label='b({},{})')),
        ('new_words(3,2)', F.new_words(3, 2, label='w({})')),
        ('new_combinations(4,2)', F.new_combinations(4, 2, label='c({})')),
        ('new_combinations_with_replacement(3,2)',
         F.new_combinations_with_replacement(3, 2, label='r({})')),
        ('new_permutations(3,2)', F.new_permutations(3, 2, label='p({})')),
    ]
    patterns = [(1, None), (None, 2), (None, None)]

    for name, g in groups:
        allidx = [tuple(t) for t in g.indices()]
        allids = list(g)
        alllab = list(g.label())
        for pat in patterns:
            want = [(t, i, l) for t, i, l in zip(allidx, allids, alllab)
                    if matches(pat, t)]
            want_idx = [t for t, _, _ in want]
            want_ids = [i for _, i, _ in want]
            want_lab = [l for _, _, l in want]
            for what, call, expected in (
                    ('g{}'.format(pat), lambda: list(g(*pat)), want_ids),
                    ('g.indices{}'.format(pat),
                     lambda: [tuple(t) for t in g.indices(*pat)], want_idx),
                    ('g.label{}'.format(pat), lambda: list(g.label(*pat)), want_lab)):
                try:
                    got = call()
                except Exception as e:
                    got = '{}: {}'.format(type(e).__name__, e)
                ok = (got == expected)
                print("{:40s} {:22s} -> {}{}".format(
                    name, what, got, '' if ok else '   <-- expected {}'.format(expected)))
                if not ok:
                    failures.append((name, what, got, expected))

    print()
    if failures:
        print("DEFECT: {} legal wildcard patterns refused / wrongly answered by the "
              "word-type groups".format(len(failures)))
        return 1
    print("OK: wildcard patterns work on combinations/permutations/words groups")
    return 0


if __name__ == '__main__':
    sys.exit(main())
