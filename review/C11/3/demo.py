"""C11 (names) - the if-then-else substitution reports variable names in which
every brace of the original name is doubled ('p_{1,1}' becomes 'p_{{1,1}}').

Run as:  cd WORKDIR && /venv/bin/python _hunt/3/demo.py
"""
import io
import sys
import contextlib
import warnings


def main():
    sys.path.insert(0, '.')
    warnings.simplefilter('ignore')
    from cnfgen.formula.cnf import CNF
    from cnfgen.transformations.substitutions import IfThenElseSubstitution
    from cnfgen.transformations.substitutions import XorSubstitution
    from cnfgen.clitools import cnfgen

    print("Property C11: the i-th variable name reported by the formula is the name")
    print("of variable i.  After a substitution each new variable is named after the")
    print("original variable it comes from (XOR: '{<name>}^1', '{<name>}^2', ...;")
    print("if-then-else: '{<name>}^{i}', '{<name>}^{t}', '{<name>}^{e}').")
    print()

    F = CNF()
    F.update_variable_number(1)                 # x1
    F.new_variable('Y')                         # Y
    p = F.new_block(1, 2, label='p_{{{},{}}}')  # p_{1,1} p_{1,2}
    F.add_clause([1, -2, p(1, 1), -p(1, 2)])
    orig = list(F.all_variable_labels())
    N = len(orig)
    print("original names          :", orig)

    X = XorSubstitution(F, 2)
    xnames = list(X.all_variable_labels())
    print("after XorSubstitution(2):", xnames)

    T = IfThenElseSubstitution(F)
    tnames = list(T.all_variable_labels())
    print("after IfThenElse        :", tnames)
    print()

    failures = []
    if len(tnames) != 3 * N:
        failures.append("wrong number of names: {}".format(len(tnames)))
    else:
        for part, tag in enumerate('ite'):
            for i, name in enumerate(orig):
                got = tnames[part * N + i]
                expected = '{' + name + '}^{' + tag + '}'
                if name not in got:
                    failures.append("variable {}: name {!r} does not contain the original "
                                    "name {!r} (expected {!r})".format(
                                        part * N + i + 1, got, name, expected))
                elif '{{' + name + '}}' in got:
                    failures.append("variable {}: name {!r} wraps the original name {!r} in "
                                    "doubled braces (expected {!r})".format(
                                        part * N + i + 1, got, name, expected))

    # the same through the command line
    out = io.StringIO()
    with contextlib.redirect_stdout(out):
        try:
            cnfgen(['cnfgen', '-q', '--varnames', 'php', '2', '1', '-T', 'ite'])
        except SystemExit:
            pass
    cli = [l for l in out.getvalue().splitlines() if l.startswith('c varname')]
    print("cnfgen -q --varnames php 2 1 -T ite")
    for l in cli:
        print("   " + l)
    for l in cli:
        if 'p_{1,1}' not in l and 'p_{2,1}' not in l:
            failures.append("CLI: {!r} names neither p_{{1,1}} nor p_{{2,1}}".format(l))

    print()
    if failures:
        print("DEFECT: if-then-else substitution corrupts the variable names")
        for f in failures:
            print(" -", f)
        return 1
    print("OK: names after if-then-else substitution embed the original names")
    return 0


if __name__ == '__main__':
    sys.exit(main())
