"""C15 / complete L R: the complete bipartite graph built on the command line
cannot carry the formula of '-T xorcomp <bipartite>' / '-T majcomp <bipartite>',
while the very same graph built as 'glrm L R L*R' (or 'glrp L R 1', or
'empty L R plantbiclique L R') can.

Run as:  cd WORKDIR && /venv/bin/python _hunt/2/demo.py
Exit status 1 on the defective tree, 0 once repaired.
"""
import os
import sys
import warnings


def run(argv):
    """Clauses of the formula built by a command line, or the error"""
    from cnfgen.clitools.cnfgen import cli
    from cnfgen.clitools.cmdline import CLIError
    try:
        F = cli(argv, mode='formula')
        return [tuple(c) for c in F.clauses()]
    except CLIError as e:
        return 'refused: ' + str(e).splitlines()[0]


if __name__ == '__main__':
    warnings.simplefilter('ignore')
    sys.path.insert(0, os.getcwd())

    from cnfgen.clitools.graph_args import make_graph_from_spec
    from cnfgen.formula.cnf import CNF
    from cnfgen.transformations.substitutions import VariableCompression

    print("Property C15: every graph specification accepted on the command")
    print("line yields the named graph ('complete' is the named graph),")
    print("observable in the formula built on it; requests that can be met")
    print("are not answered with an error.")
    print()

    failures = 0
    for L, R in [(1, 1), (2, 3), (3, 2), (4, 1)]:
        same_graph = [
            'complete {} {}'.format(L, R),
            'glrm {} {} {}'.format(L, R, L * R),
            'glrp {} {} 1'.format(L, R),
            'empty {0} {1} plantbiclique {0} {1}'.format(L, R),
        ]
        # they are the same graph, are they not?
        graphs = [make_graph_from_spec('bipartite', s) for s in same_graph]
        shapes = set((G.left_order(), G.right_order(),
                      tuple(sorted(G.edges()))) for G in graphs)
        assert len(shapes) == 1, "the four specifications give one graph"

        for T in ['xorcomp', 'majcomp']:
            results = []
            for spec in same_graph:
                argv = ['cnfgen', '-q', 'and', str(L), '0', '-T', T]
                argv += spec.split()
                results.append(run(argv))
            print("cnfgen and {} 0 -T {} <B>   with <B> the complete ({},{})"
                  "-bipartite graph".format(L, T, L, R))
            for spec, res in zip(same_graph, results):
                if isinstance(res, str):
                    print("   {:36s} -> {}".format(spec, res))
                else:
                    print("   {:36s} -> formula with {} clauses".format(
                        spec, len(res)))
            if isinstance(results[0], str) or \
               any(r != results[0] for r in results[1:]):
                failures += 1
                print("   VIOLATION: 'complete {} {}' does not give the"
                      " formula of the complete bipartite graph".format(L, R))
            print()

    # the same at the level of make_graph_from_spec + library
    B = make_graph_from_spec('bipartite', 'complete 2 3')
    try:
        VariableCompression(CNF([[1], [2]]), B, 'xor')
        print("library: VariableCompression(CNF([[1],[2]]), <complete 2 3>, 'xor')"
              " works")
    except ValueError as e:
        failures += 1
        print("library: VariableCompression(CNF([[1],[2]]), make_graph_from_spec("
              "'bipartite','complete 2 3'), 'xor')")
        print("   VIOLATION: ValueError:", e)
        print("   right_neighbors(1) of this graph is", B.right_neighbors(1),
              "- BipartiteGraph.right_neighbors promises a list")
    print()

    if failures:
        print("FAIL ({} checks violated)".format(failures))
        sys.exit(1)
    print("OK")
    sys.exit(0)
