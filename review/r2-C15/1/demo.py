"""C15 / iso: the graph given with '-e' is accepted, built (and saved) but the
formula is not built on it.

Run as:  cd WORKDIR && /venv/bin/python _hunt/1/demo.py
Exit status 1 on the defective tree, 0 once repaired.
"""
import os
import sys
import tempfile
import warnings


def clauses(F):
    return [tuple(c) for c in F.clauses()]


if __name__ == '__main__':
    warnings.simplefilter('ignore')
    sys.path.insert(0, os.getcwd())

    from cnfgen.clitools.cnfgen import cli
    from cnfgen.clitools.graph_args import make_graph_from_spec
    from cnfgen.graphs import readGraph
    from cnfgen.families.graphisomorphism import GraphIsomorphism
    from cnfgen.families.graphisomorphism import GraphAutomorphism

    failures = 0

    print("Property C15: every graph specification accepted on the command")
    print("line yields the named graph, observable in the formula built on it,")
    print("and 'save' stores the very graph the formula is built from.")
    print()

    # --- 1. the second graph does not influence the formula at all ---------
    G1 = make_graph_from_spec('simple', 'complete 3')
    G2 = make_graph_from_spec('simple', 'empty 3')
    expected = clauses(GraphIsomorphism(G1, G2))
    automorphism = clauses(GraphAutomorphism(G1))

    F = cli(['cnfgen', '-q', 'iso', 'complete', '3', '-e', 'empty', '3'],
            mode='formula')
    got = clauses(F)
    print("cnfgen iso complete 3 -e empty 3")
    print("  description        :", F.header.get('description'))
    print("  clauses (cmd line) :", len(got))
    print("  GraphIsomorphism(K3, empty3) from the library:", len(expected))
    print("  GraphAutomorphism(K3) from the library       :", len(automorphism))
    if got != expected:
        failures += 1
        print("  VIOLATION: the formula is not the isomorphism formula of the"
              " two graphs given on the command line")
    if got == automorphism:
        print("  ... it is the AUTOMORPHISM formula of the first graph: the"
              " graph after '-e' was dropped")
    print()

    others = ['complete 3', 'gnm 3 1', 'grid 3', 'empty 7']
    same = 0
    for spec in others:
        H = cli(['cnfgen', '-q', 'iso', 'complete', '3', '-e'] + spec.split(),
                mode='formula')
        if clauses(H) == got:
            same += 1
    print("formula for '-e <G2>' with G2 in", others)
    print("  identical to the one above in {} cases out of {}".format(
        same, len(others)))
    if same == len(others):
        failures += 1
        print("  VIOLATION: four different graphs G2 (even one with 7"
              " vertices), one and the same formula")
    print()

    # --- 2. 'save' stores a graph the formula is not built from -----------
    tmpdir = tempfile.mkdtemp()
    fname = os.path.join(tmpdir, 'second.gml')
    F = cli(['cnfgen', '-q', '--seed', '7', 'iso', 'complete', '4',
             '-e', 'gnm', '4', '2', 'save', fname], mode='formula')
    S = readGraph(fname, 'simple', 'gml')
    G1 = make_graph_from_spec('simple', 'complete 4')
    print("cnfgen --seed 7 iso complete 4 -e gnm 4 2 save second.gml")
    print("  saved graph: {} vertices, edges {}".format(
        S.order(), sorted(S.edges())))
    if clauses(F) != clauses(GraphIsomorphism(G1, S)):
        failures += 1
        print("  VIOLATION: the formula is not GraphIsomorphism(complete 4,"
              " <saved graph>): the saved graph is not the graph the formula"
              " is built from")
    os.remove(fname)
    os.rmdir(tmpdir)
    print()

    if failures:
        print("FAIL ({} checks violated)".format(failures))
        sys.exit(1)
    print("OK")
    sys.exit(0)
