#!/usr/bin/env python
"""C11 - word-like variable groups of word length 0 (one variable, whose
index is the empty tuple) answer the same pattern in two incompatible ways:

    g()        -> the identifier itself (an int, not iterable)
    g.label()  -> an iterator over all the labels

so that, for the only legal index idx = () of the group,
g.label(*idx) is not "the group's label for its index" (it is a generator
object, never equal to the name reported by formula.all_variable_labels()),
and the all-wildcard pattern g() does not enumerate the identifiers
(list(g()) raises TypeError), unlike every other group shape.

Run as:  cd WORKDIR && /venv/bin/python _hunt/1/demo.py
Exit status 0 iff the group handles the pattern consistently.
"""
import sys
import warnings

if __name__ == '__main__':
    sys.path.insert(0, '.')
    warnings.simplefilter('ignore')
    from cnfgen.formula.cnf import CNF
    from cnfgen.formula.opb import OPB

    failures = []

    def as_list(value, scalar_type):
        """(is_scalar, list of values)"""
        if isinstance(value, scalar_type):
            return True, [value]
        return False, list(value)

    makers = [
        ('new_combinations(3,0)', lambda F: F.new_combinations(3, 0, label='S_{{{}}}')),
        ('new_combinations_with_replacement(3,0)',
         lambda F: F.new_combinations_with_replacement(3, 0, label='S_{{{}}}')),
        ('new_permutations(3,0)', lambda F: F.new_permutations(3, 0, label='S_{{{}}}')),
        ('new_permutations(0)', lambda F: F.new_permutations(0, label='S_{{{}}}')),
        ('new_words(3,0)', lambda F: F.new_words(3, 0, label='S_{{{}}}')),
    ]

    for cls in (CNF, OPB):
        for desc, maker in makers:
            where = '{}.{}'.format(cls.__name__, desc)
            F = cls()
            F.update_variable_number(2)      # two anonymous variables first
            try:
                g = maker(F)
            except ValueError:
                # refusing the shape altogether is a consistent answer
                continue
            names = list(F.all_variable_labels())
            ids = list(g)
            idxs = [tuple(i) for i in g.indices()]
            if len(ids) != 1 or idxs != [()]:
                failures.append((where, 'unexpected shape', ids, idxs))
                continue
            vid = ids[0]
            idx = idxs[0]

            # (1) the group's label for its index is the reported name
            try:
                lab = g.label(*idx)
                lab_scalar, labs = as_list(lab, str)
            except Exception as e:
                failures.append((where, 'g.label(*idx) raised', repr(e)))
                continue
            # (2) index -> identifier
            try:
                r = g(*idx)
                id_scalar, rids = as_list(r, int)
            except Exception as e:
                failures.append((where, 'g(*idx) raised', repr(e)))
                continue

            print('{:50s} g(*idx)={!r:6}  g.label(*idx)={!r}'.format(
                where, r, lab if lab_scalar else '<iterator over {}>'.format(labs)))

            if rids != [vid]:
                failures.append((where, 'g(*idx) is not the identifier', rids, vid))
            if labs != [names[vid - 1]]:
                failures.append((where, 'label differs from reported name',
                                 labs, names[vid - 1]))
            if tuple(g.to_index(vid)) != idx or tuple(g.to_index(-vid)) != idx:
                failures.append((where, 'to_index does not give the index back'))
            if id_scalar != lab_scalar:
                failures.append(
                    (where,
                     'the pattern {!r} is a full index for g(...) [{}] but a '
                     'wildcard for g.label(...) [{}], or vice versa'.format(
                         idx,
                         'int' if id_scalar else 'iterator',
                         'str' if lab_scalar else 'iterator')))

    print()
    print('PROMISED: a group converts each legal index to its identifier and '
          'label, and the\n          all-wildcard pattern enumerates '
          'identifiers/labels in identifier order,\n          for all group '
          'shapes (the same pattern means the same thing to g(...) and '
          'g.label(...)).')
    if failures:
        print('OBSERVED: {} inconsistencies'.format(len(failures)))
        for f in failures:
            print('   ', *f)
        sys.exit(1)
    print('OBSERVED: consistent.')
    sys.exit(0)
