#!/usr/bin/env python
"""C19 defect 1: the 'transformation' header entry written by
AllEqualSubstitution (cnfgen -T eq) says "not-all-equals".

Run as:  cd WORKDIR && /venv/bin/python _hunt/1/demo.py
Exit status 1 on the defective tree, 0 once repaired.
"""
import sys
import io
import warnings

sys.path.insert(0, '.')
warnings.simplefilter('ignore')


def header_lines(argv):
    """Comment lines of the DIMACS output of the cnfgen command line"""
    from cnfgen.clitools.cnfgen import cli
    out = io.StringIO()
    old = sys.stdout
    sys.stdout = out
    try:
        cli(argv, mode='output')
    finally:
        sys.stdout = old
    return [l for l in out.getvalue().splitlines() if l.startswith('c ')]


if __name__ == '__main__':
    from cnfgen import CNF
    from cnfgen import AllEqualSubstitution, NotAllEqualSubstitution

    print("Property C19: the result's header gains one numbered 'transformation'")
    print("entry per applied step, so that the comment header always tells how")
    print("the formula was produced.")
    print()

    F = CNF([[1, -2]], description='base formula')
    EQ = AllEqualSubstitution(F, 3)
    NEQ = NotAllEqualSubstitution(F, 3)

    eq_entry = EQ.header.get('transformation 1')
    neq_entry = NEQ.header.get('transformation 1')
    print("AllEqualSubstitution(F,3)    clauses:", list(EQ))
    print("NotAllEqualSubstitution(F,3) clauses:", list(NEQ))
    print("AllEqualSubstitution(F,3)    header : transformation 1 =", repr(eq_entry))
    print("NotAllEqualSubstitution(F,3) header : transformation 1 =", repr(neq_entry))

    cli_lines = [l for l in header_lines(['cnfgen', 'php', 2, 1, '-T', 'eq', 2])
                 if 'transformation' in l]
    print("cnfgen php 2 1 -T eq 2       output :", cli_lines)
    print()

    failures = []
    if list(EQ) == list(NEQ):
        failures.append("unexpected: the two substitutions give the same clauses")
    if eq_entry is None or 'not-all-equal' in eq_entry.lower():
        failures.append("the all-equals substitution is recorded as "
                        "'not-all-equals': the header tells the opposite of "
                        "how the formula was produced")
    if eq_entry == neq_entry:
        failures.append("two different transformations (eq / neq, different "
                        "clauses) leave identical provenance entries")
    if any('not-all-equal' in l.lower() for l in cli_lines):
        failures.append("'cnfgen ... -T eq 2' prints 'c transformation 1: "
                        "Substitution with not-all-equals of arity 2'")

    if failures:
        print("VIOLATION:")
        for f in failures:
            print(" -", f)
        sys.exit(1)
    print("OK: the eq substitution is recorded as such")
    sys.exit(0)
