#!/usr/bin/env python
"""C19 defect 3: substitutions crash (AttributeError) on a formula that has
a variable created with new_variable() without a label.

Run as:  cd WORKDIR && /venv/bin/python _hunt/3/demo.py
Exit status 1 on the defective tree, 0 once repaired.
"""
import sys
import copy
import warnings

sys.path.insert(0, '.')
warnings.simplefilter('ignore')

if __name__ == '__main__':
    import cnfgen
    from cnfgen import CNF
    from cnfgen.transformations import substitutions as S

    print("Property C19 (for all formulas, all transformations): applying any")
    print("transformation returns a new formula, leaves the input untouched and")
    print("adds a 'transformation' entry to the header.")
    print()

    F = CNF(description='formula with an unnamed variable')
    x = F.new_variable('x')
    y = F.new_variable()          # label is optional (default None)
    F.add_clause([x, -y])
    before = (copy.deepcopy(list(F)), F.number_of_variables(),
              list(F.all_variable_labels()), list(F.header.items()))
    print("input labels:", before[2])

    transformations = [
        ('XorSubstitution', lambda F: S.XorSubstitution(F, 2)),
        ('OrSubstitution', lambda F: S.OrSubstitution(F, 2)),
        ('ExactlyOneSubstitution', lambda F: S.ExactlyOneSubstitution(F, 2)),
        ('MajoritySubstitution', lambda F: S.MajoritySubstitution(F, 3)),
        ('AllEqualSubstitution', lambda F: S.AllEqualSubstitution(F, 2)),
        ('NotAllEqualSubstitution', lambda F: S.NotAllEqualSubstitution(F, 2)),
        ('AtLeastKSubstitution', lambda F: S.AtLeastKSubstitution(F, 3, 2)),
        ('IfThenElseSubstitution', lambda F: S.IfThenElseSubstitution(F)),
        ('FormulaLifting', lambda F: S.FormulaLifting(F, 2)),
        ('FlipPolarity', lambda F: S.FlipPolarity(F)),
    ]
    failures = []
    for name, t in transformations:
        try:
            G = t(F)
            ok = (G is not F) and 'transformation 1' in G.header
            print("{:<24} -> {}".format(name, G))
            if not ok:
                failures.append(name + ": no new formula / no header entry")
        except Exception as e:   # noqa
            print("{:<24} -> {}: {}".format(name, type(e).__name__, e))
            failures.append("{} raised {}: {}".format(name, type(e).__name__, e))
    after = (copy.deepcopy(list(F)), F.number_of_variables(),
             list(F.all_variable_labels()), list(F.header.items()))
    if before != after:
        failures.append("input formula changed")

    print()
    if failures:
        print("VIOLATION: no transformed formula is returned")
        for f in failures:
            print(" -", f)
        sys.exit(1)
    print("OK: every transformation returned a new formula")
    sys.exit(0)
