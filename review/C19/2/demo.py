#!/usr/bin/env python
"""C19 defect 2: Shuffle does not keep the original description, it rewrites it.

Run as:  cd WORKDIR && /venv/bin/python _hunt/2/demo.py
Exit status 1 on the defective tree, 0 once repaired.
"""
import sys
import warnings

sys.path.insert(0, '.')
warnings.simplefilter('ignore')

if __name__ == '__main__':
    import random
    from cnfgen import CNF, Shuffle, XorSubstitution, FlipPolarity
    from cnfgen.clitools.cnfgen import cli

    print("Property C19: the result's header KEEPS the original description and")
    print("earlier entries and gains one numbered 'transformation' entry per step.")
    print()
    random.seed(0)

    F = CNF([[1, -2], [2, 3]], description='my formula')
    original = F.header['description']
    failures = []

    # every other transformation keeps the description
    for name, G in [('XorSubstitution', XorSubstitution(F, 2)),
                    ('FlipPolarity', FlipPolarity(F))]:
        print("{:<16} description = {!r}".format(name, G.header['description']))
        if G.header['description'] != original:
            failures.append(name + " changed the description")

    # Shuffle, even when asked to do nothing at all
    G = Shuffle(F, 'fixed', 'fixed', 'fixed')
    print("{:<16} description = {!r}".format('Shuffle', G.header['description']))
    print("{:<16} transformation 1 = {!r}".format('', G.header.get('transformation 1')))
    if G.header['description'] != original:
        failures.append("Shuffle: description {!r} became {!r} (the step is "
                        "already recorded by the 'transformation 1' entry)"
                        .format(original, G.header['description']))

    GG = Shuffle(Shuffle(F))
    print("{:<16} description = {!r}".format('Shuffle twice', GG.header['description']))
    if GG.header['description'] != original:
        failures.append("two shuffles: description is {!r}".format(GG.header['description']))

    H = cli(['cnfgen', 'php', 3, 2], mode='formula')
    K = cli(['cnfgen', '-S', 1, 'php', 3, 2, '-T', 'xor', 2, '-T', 'shuffle'], mode='formula')
    print("cnfgen php 3 2                    :", repr(H.header['description']))
    print("cnfgen php 3 2 -T xor 2 -T shuffle:", repr(K.header['description']))
    if K.header['description'] != H.header['description']:
        failures.append("command line chain with '-T shuffle': description changed")

    print()
    if F.header['description'] != original:
        failures.append("the INPUT description changed")
    if failures:
        print("VIOLATION: the original description is not kept")
        for f in failures:
            print(" -", f)
        sys.exit(1)
    print("OK: description kept by every transformation")
    sys.exit(0)
