"""cnfshuffle -i <file> must print the shuffled formula; with the standard
input closed it dies with a traceback although stdin is not needed at all.

Run as:  cd WORKDIR && /venv/bin/python _hunt/1/demo.py
"""
import os
import sys
import subprocess

sys.path.insert(0, os.getcwd())

DIMACS = "p cnf 4 3\n1 -2 3 0\n-1 4 0\n2 -3 -4 0\n"


def close_stdin():
    os.close(0)


def body(text):
    return [l for l in text.splitlines() if l and not l.startswith('c')]


if __name__ == '__main__':
    here = os.path.dirname(os.path.abspath(__file__))
    path = os.path.join(here, 'demo_input.cnf')
    with open(path, 'w') as f:
        f.write(DIMACS)
    env = dict(os.environ, PYTHONPATH=os.getcwd(), PYTHONWARNINGS='ignore')
    failures = 0
    try:
        cases = [
            ('cnfshuffle', ['-m', 'cnfgen.clitools.cnfshuffle',
                            '-S', '1', '-p', '-v', '-c', '-i', path]),
            ('cnfgen dimacs <file> -T shuffle',
             ['-m', 'cnfgen.clitools.cnfgen', '-q', '-S', '1',
              'dimacs', path, '-T', 'shuffle', '-p', '-v', '-c']),
        ]
        for name, args in cases:
            # reference run: stdin is an (unused) empty pipe
            ref = subprocess.run([sys.executable] + args, env=env,
                                 stdin=subprocess.DEVNULL,
                                 capture_output=True, text=True)
            # same command line, standard input closed (as under cron,
            # daemons, 'cmd <&-')
            res = subprocess.run([sys.executable] + args, env=env,
                                 preexec_fn=close_stdin,
                                 capture_output=True, text=True)
            print("== {} ==".format(name))
            print("promised : exit 0 and the formula, all three switches off "
                  "so exactly the input clauses:")
            print("           ", body(ref.stdout))
            print("observed (stdin closed): exit status {}, stdout {}".format(
                res.returncode, body(res.stdout)))
            if res.returncode != 0 or body(res.stdout) != body(DIMACS):
                failures += 1
                print("stderr tail:",
                      " | ".join(res.stderr.strip().splitlines()[-2:]))
    finally:
        os.remove(path)
    if failures:
        print("\nFAIL: {} command(s) produce a traceback instead of the "
              "shuffled formula when stdin is closed".format(failures))
        sys.exit(1)
    print("\nOK")
    sys.exit(0)
