"""C14 - readGraph lets RecursionError escape on nested dot / GML text

Run as:  cd WORKDIR && /venv/bin/python _hunt/2/demo.py
"""
import io
import sys
import warnings


def read(text, graph_type, fmt):
    from cnfgen.graphs import readGraph
    try:
        G = readGraph(io.StringIO(text), graph_type, fmt)
    except ValueError as e:
        return 'ValueError'
    except BaseException as e:      # whatever else escapes
        return type(e).__name__
    return 'graph with {} vertices, {} edges'.format(G.number_of_vertices(),
                                                     G.number_of_edges())


if __name__ == '__main__':
    sys.path.insert(0, '.')
    warnings.simplefilter('ignore')

    print("Property C14: reading arbitrary text either returns a graph "
          "consistent with the text or raises ValueError.")
    print("(recursion limit of the interpreter: {})\n".format(
        sys.getrecursionlimit()))

    d = 50      # 50 nested braces: a 210 bytes file
    g = 500     # 500 nested lists: a 3 KB file
    cases = [
        ("dot, {} nested '{{ }}' (nested subgraphs: to be rejected)".format(d),
         'graph { ' + '{ ' * d + ' }' * d + ' }', 'simple', 'dot',
         ['ValueError']),
        ("dot, truncated after {} '{{'".format(d),
         'graph { ' + '{ ' * d, 'dag', 'dot',
         ['ValueError']),
        ("gml, well formed, attribute nested {} times, no vertex".format(g),
         'graph [ ' + 'a [ ' * g + ' ]' * g + ' ]', 'simple', 'gml',
         ['ValueError', 'graph with 0 vertices, 0 edges']),
        ("gml, one vertex with an attribute nested {} times".format(g),
         'graph [ node [ id 1 ' + 'a [ ' * g + ' ]' * g + ' ] ]',
         'bipartite', 'gml',
         ['ValueError']),    # (no 'bipartite' attribute)
        ("gml, truncated after {} '['".format(g),
         'graph [ ' + 'a [ ' * g, 'digraph', 'gml',
         ['ValueError']),
    ]
    failures = 0
    for title, text, gtype, fmt, good in cases:
        res = read(text, gtype, fmt)
        ok = res in good
        print(title)
        print("   expected: " + " or ".join(good))
        print("   got     : {}   {}".format(res, 'ok' if ok else '<-- WRONG'))
        if not ok:
            failures += 1

    if failures:
        print("\n{} texts made readGraph raise something else than "
              "ValueError".format(failures))
        sys.exit(1)
    print("\nall fine")
    sys.exit(0)
