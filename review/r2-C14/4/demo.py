"""C14 - kthlist2pebbling -i <file> opens the graph file in the locale's
encoding, while writeGraph / 'save' write UTF-8

Run as:  cd WORKDIR && /venv/bin/python _hunt/4/demo.py
"""
import os
import subprocess
import sys
import tempfile

K2P = ("import sys, warnings; warnings.simplefilter('ignore'); "
       "sys.path.insert(0, '.'); "
       "from cnfgen.clitools.kthlist2pebbling import main; "
       "sys.argv[0] = 'kthlist2pebbling'; main()")
CNFGEN = ("import sys, warnings; warnings.simplefilter('ignore'); "
          "sys.path.insert(0, '.'); "
          "from cnfgen.clitools.cnfgen import main; "
          "sys.argv[0] = 'cnfgen'; main()")


def run(code, args, env):
    p = subprocess.run([sys.executable, '-X', 'utf8=0', '-c', code] + args,
                       env=env, stdout=subprocess.PIPE, stderr=subprocess.PIPE)
    out = p.stdout.decode('utf-8', 'replace')
    err = p.stderr.decode('utf-8', 'replace')
    clauses = [l for l in out.splitlines() if l and l[0] != 'c']
    return p.returncode, clauses, err.strip()


if __name__ == '__main__':
    sys.path.insert(0, '.')
    import warnings
    warnings.simplefilter('ignore')
    from cnfgen.graphs import DirectedGraph, writeGraph

    print("Property C14: writing a graph in any supported format and reading "
          "it back returns the same graph (observed on: writeGraph, and the "
          "tools that read a graph file).\n")

    # an ASCII locale, as in the repaired defect about graph arguments
    env = dict(os.environ)
    for k in list(env):
        if k.startswith('LC_') or k in ('LANG', 'LANGUAGE', 'PYTHONUTF8',
                                        'PYTHONIOENCODING'):
            del env[k]
    env['LC_ALL'] = 'C'
    env['PYTHONCOERCECLOCALE'] = '0'

    D = DirectedGraph(3, 'café')
    D.add_edge(1, 2)
    D.add_edge(2, 3)
    here = os.path.dirname(os.path.abspath(__file__))
    with tempfile.TemporaryDirectory(dir=here) as tmp:
        fname = os.path.join(tmp, 'g.kthlist')
        writeGraph(D, fname, 'dag')       # UTF-8, as documented
        print("graph file written by writeGraph:")
        with open(fname, encoding='utf-8') as f:
            print("   " + f.read().strip().replace("\n", "\n   "))
        ref = run(CNFGEN, ['-q', 'peb', fname], env)
        got = run(K2P, ['-q', '-i', fname], env)

    print("\nunder LC_ALL=C, python -X utf8=0:")
    print("cnfgen peb <file>           : exit {}, {} clause lines  {}".format(
        ref[0], len(ref[1]), ref[2]))
    print("kthlist2pebbling -i <file>  : exit {}, {} clause lines  {}".format(
        got[0], len(got[1]), got[2]))

    if ref[0] != 0 or not ref[1]:
        print("\n(reference run failed: cannot compare)")
        sys.exit(2)
    if got[0] != 0 or got[1] != ref[1]:
        print("\nWRONG: the file written by writeGraph is not read back by "
              "kthlist2pebbling\n(expected: the same pebbling formula as "
              "'cnfgen peb <file>')")
        sys.exit(1)
    print("\nall fine")
    sys.exit(0)
