"""C14 - dot reader: whatever is written inside a subgraph used as an edge
endpoint is silently dropped (edges, implicitly declared vertices, nested
subgraphs); cyclic files are accepted as 'dag'.

Run as:  cd WORKDIR && /venv/bin/python _hunt/1/demo.py
"""
import io
import sys
import warnings


def read(text, graph_type):
    from cnfgen.graphs import readGraph
    try:
        G = readGraph(io.StringIO(text), graph_type, 'dot')
    except ValueError as e:
        return 'ValueError', str(e)
    return G.number_of_vertices(), sorted(G.edges())


if __name__ == '__main__':
    sys.path.insert(0, '.')
    warnings.simplefilter('ignore')

    failures = 0

    # (text, graph type, set of acceptable outcomes besides ValueError)
    cases = [
        # 3 -> 2 goes from a higher to a lower vertex: never a 'dag'
        ('digraph { 2; 1 -> { 3 -> 2 } }', 'dag', []),
        # 1 -> 2 -> 3 -> 1 is a cycle: never a 'dag'
        ('digraph { 1 -> 2; 2 -> { 3 -> 1 } }', 'dag', []),
        # vertices 1,2,3; edges 2--3 and 1--{2,3}
        ('graph { 1 -- { 2 -- 3 } }', 'simple',
         [(3, [(1, 2), (1, 3), (2, 3)])]),
        # vertices 1,2,3; edges 1--2 1--3
        ('graph { 1 -- { {2} 3 } }', 'simple',
         [(3, [(1, 2), (1, 3)])]),
        # 'node [..]' inside the endpoint is a default-attribute statement,
        # not a vertex
        ('graph { 1 -- { node [color=red]; 2 3 } }', 'simple',
         [(3, [(1, 2), (1, 3)])]),
    ]
    print("Property C14: reading arbitrary text either returns a graph "
          "consistent with the text or raises ValueError; a file declared "
          "acyclic is accepted only if every edge goes from a lower to a "
          "higher vertex.\n")
    for text, gtype, good in cases:
        res = read(text, gtype)
        ok = res[0] == 'ValueError' or res in good
        print("{!r} read as {!r}".format(text, gtype))
        print("   expected: ValueError" +
              "".join(" or {}".format(g) for g in good))
        print("   got     : {}   {}".format(res, 'ok' if ok else '<-- WRONG'))
        if not ok:
            failures += 1

    if failures:
        print("\n{} dot texts were accepted with a graph that contradicts "
              "the text".format(failures))
        sys.exit(1)
    print("\nall fine")
    sys.exit(0)
