"""C14 - dot reader: an edge endpoint with a port ('2:n') becomes a new vertex

Run as:  cd WORKDIR && /venv/bin/python _hunt/3/demo.py
"""
import io
import sys
import warnings


def read(text, graph_type):
    from cnfgen.graphs import readGraph
    try:
        G = readGraph(io.StringIO(text), graph_type, 'dot')
    except ValueError as e:
        return 'ValueError', str(e)
    return G.number_of_vertices(), sorted(G.edges())


if __name__ == '__main__':
    sys.path.insert(0, '.')
    warnings.simplefilter('ignore')

    print("Property C14: reading arbitrary text either returns a graph "
          "consistent with the text or raises ValueError; a file declared "
          "acyclic is accepted only if every edge goes from a lower to a "
          "higher vertex.\n"
          "In the dot language 'ID:port' as an edge endpoint is vertex ID "
          "(the port only says where the edge is attached in a drawing).\n")

    cases = [
        # the path 1 - 2 - 3
        ('graph { 1 -- 2:n; 2 -- 3 }', 'simple', [(3, [(1, 2), (2, 3)])]),
        # two vertices, one edge
        ('graph { 1; 2; 1:n -- 2:s }', 'simple', [(2, [(1, 2)])]),
        # an edge from vertex 10 to vertex 9: not acceptable as a dag
        ('digraph { 10:s -> 9:n }', 'dag', []),
        ('digraph { 10 -> 9:n }', 'dag', []),
    ]
    failures = 0
    for text, gtype, good in cases:
        res = read(text, gtype)
        ok = res[0] == 'ValueError' or res in good
        print("{!r} read as {!r}".format(text, gtype))
        print("   expected: ValueError" +
              "".join(" or {}".format(g) for g in good))
        print("   got     : {}   {}".format(res, 'ok' if ok else '<-- WRONG'))
        if not ok:
            failures += 1

    if failures:
        print("\n{} dot texts were accepted with a graph that contradicts "
              "the text".format(failures))
        sys.exit(1)
    print("\nall fine")
    sys.exit(0)
