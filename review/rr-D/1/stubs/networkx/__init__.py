"""Empty stand-in for networkx.

Only used by ../demo.py when it finds a real python 3.6 / 3.7 interpreter
that has no networkx installed: `import cnfgen` needs `import networkx` to
succeed, RandomKCNF / RandomKXOR never call it."""


class Graph:
    pass


class DiGraph:
    pass
