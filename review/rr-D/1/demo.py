"""RandomKCNF / RandomKXOR use math.comb, which python 3.6 and 3.7 do not have.

Run as:  cd /tmp/rr-D && /venv/bin/python _review/1/demo.py

setup.py declares python_requires='>=3.6'.  math.comb exists since python 3.8.
The demo
 (1) reads the declared minimum version (if it is raised to 3.8 the problem is
     settled and the demo exits 0);
 (2) emulates the `math` module of python < 3.8 (no `comb`) and calls
     RandomKCNF / RandomKXOR and the two command line requests;
 (3) if a real python 3.6 / 3.7 is found on the machine, runs the same calls
     there (with an empty stand-in for networkx if that is not installed).
"""

CHILD = r'''
import sys, os
sys.dont_write_bytecode = True
sys.path.insert(0, os.getcwd())
try:
    import networkx
except ImportError:
    sys.path.append(os.path.join(os.getcwd(), '_review', '1', 'stubs'))
from cnfgen import RandomKCNF, RandomKXOR
F = RandomKCNF(3, 10, 5, seed=1)
assert F.number_of_clauses() == 5
F = RandomKXOR(3, 10, 5, seed=1)
assert F.number_of_clauses() == 20
print("fine on python %d.%d" % sys.version_info[:2])
'''

if __name__ == '__main__':
    import glob
    import os
    import re
    import subprocess
    import sys

    sys.path.insert(0, os.getcwd())
    failures = []

    # (1) what does the package promise?
    with open('setup.py') as f:
        m = re.search(r"python_requires\s*=\s*['\"]\s*>=\s*(\d+)\.(\d+)", f.read())
    minimum = (int(m.group(1)), int(m.group(2))) if m else None
    print("setup.py: python_requires >= %s" % (minimum,))
    if minimum is not None and minimum >= (3, 8):
        print("OK: python < 3.8 is not supported any more, math.comb can be used")
        sys.exit(0)

    # (2) the math module of python 3.6 / 3.7, emulated
    import networkx  # (before the emulation, it is not under test)
    import math
    if hasattr(math, 'comb'):
        del math.comb
    import io
    import contextlib
    from cnfgen import RandomKCNF, RandomKXOR
    for name, call in (('RandomKCNF(3, 10, 5, seed=1)', lambda: RandomKCNF(3, 10, 5, seed=1)),
                       ('RandomKXOR(3, 10, 5, seed=1)', lambda: RandomKXOR(3, 10, 5, seed=1)),
                       ('RandomKCNF(0, 0, 0)', lambda: RandomKCNF(0, 0, 0))):
        try:
            call()
            print("emulated python<3.8: %-30s fine" % name)
        except Exception as e:
            print("emulated python<3.8: %-30s %s: %s" % (name, type(e).__name__, e))
            failures.append(name)
    # ... a request beyond the maximum must still be refused with ValueError
    try:
        RandomKCNF(3, 5, 81)
        failures.append('RandomKCNF(3, 5, 81) accepted')
    except ValueError:
        print("emulated python<3.8: RandomKCNF(3, 5, 81)           ValueError, as documented")
    except Exception as e:
        print("emulated python<3.8: RandomKCNF(3, 5, 81)           %s: %s" % (type(e).__name__, e))
        failures.append('RandomKCNF(3, 5, 81)')

    from cnfgen.clitools.cnfgen import cli
    for argv in (['cnfgen', '-q', 'randkcnf', '3', '10', '5'],
                 ['cnfgen', '-q', 'randkxor', '3', '10', '5']):
        try:
            text = cli(argv, mode='string')
            print("emulated python<3.8: %-30s fine (%s)" % (' '.join(argv[2:]), text.split('\n')[0]))
        except BaseException as e:
            print("emulated python<3.8: %-30s %s: %s" % (' '.join(argv[2:]), type(e).__name__, e))
            failures.append(' '.join(argv))

    # (3) the real thing, when available
    candidates = []
    for pattern in ('/root/.pyenv/versions/3.6*/bin/python', '/root/.pyenv/versions/3.7*/bin/python',
                    '/usr/bin/python3.6', '/usr/bin/python3.7', '/usr/local/bin/python3.6',
                    '/usr/local/bin/python3.7'):
        candidates.extend(sorted(glob.glob(pattern)))
    if not candidates:
        print("(no python 3.6 / 3.7 interpreter found here: only the emulation was run)")
    for exe in candidates:
        p = subprocess.run([exe, '-W', 'ignore', '-c', CHILD], stdout=subprocess.PIPE,
                           stderr=subprocess.STDOUT, universal_newlines=True)
        last = p.stdout.strip().split('\n')[-1]
        print("%s: exit status %d: %s" % (exe, p.returncode, last))
        if p.returncode != 0:
            failures.append(exe)

    print()
    print("EXPECTED: with python_requires='>=3.6' RandomKCNF and RandomKXOR work on python 3.6")
    print("          and 3.7 (they do in /tmp/rr-D-base), and refuse m > C(n,k)*2^k with ValueError")
    if failures:
        print("OBSERVED: AttributeError: module 'math' has no attribute 'comb' in", len(failures), "checks:")
        for f in failures:
            print("   -", f)
        sys.exit(1)
    print("OBSERVED: all fine")
    sys.exit(0)
