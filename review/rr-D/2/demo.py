"""The graph functions that document `seed : hashable object` still refuse hashable seeds.

Run as:  cd /tmp/rr-D && /venv/bin/python _review/2/demo.py

Commit 94ca068 made RandomKCNF / RandomKXOR accept any hashable seed again on
python >= 3.11 (random.seed() only takes None, int, float, str, bytes,
bytearray there).  The six functions of cnfgen/graphs.py with the very same
docstring entry and the very same `random.seed(seed)` were left as they were.
"""

if __name__ == '__main__':
    import os
    import sys

    sys.path.insert(0, os.getcwd())
    import warnings
    warnings.simplefilter('ignore')

    from cnfgen import RandomKCNF
    from cnfgen.graphs import Graph, BipartiteGraph
    from cnfgen.graphs import bipartite_random_left_regular
    from cnfgen.graphs import bipartite_random_m_edges
    from cnfgen.graphs import bipartite_random
    from cnfgen.graphs import bipartite_random_regular
    from cnfgen.graphs import split_random_edges
    from cnfgen.graphs import add_random_missing_edges

    def edges(G):
        return sorted(G.edges())

    def simple():
        G = Graph(6)
        G.add_edges_from([(1, 4), (4, 5), (2, 4), (2, 3), (5, 6)])
        return G

    def split(seed):
        G = simple()
        split_random_edges(G, 2, seed=seed)
        return G

    def addmissing(seed):
        G = simple()
        add_random_missing_edges(G, 3, seed=seed)
        return G

    def addmissing_bipartite(seed):
        G = BipartiteGraph(3, 4)
        add_random_missing_edges(G, 5, seed=seed)
        return G

    calls = [
        ('bipartite_random_left_regular(4, 6, 2, seed=%r)', lambda s: bipartite_random_left_regular(4, 6, 2, seed=s)),
        ('bipartite_random_m_edges(4, 6, 5, seed=%r)', lambda s: bipartite_random_m_edges(4, 6, 5, seed=s)),
        ('bipartite_random_m_edges(4, 6, 20, seed=%r)', lambda s: bipartite_random_m_edges(4, 6, 20, seed=s)),
        ('bipartite_random(4, 6, 0.5, seed=%r)', lambda s: bipartite_random(4, 6, 0.5, seed=s)),
        ('bipartite_random_regular(6, 6, 2, seed=%r)', lambda s: bipartite_random_regular(6, 6, 2, seed=s)),
        ('bipartite_random_regular(6, 6, 5, seed=%r)', lambda s: bipartite_random_regular(6, 6, 5, seed=s)),
        ('split_random_edges(G, 2, seed=%r)', split),
        ('add_random_missing_edges(G, 3, seed=%r)', addmissing),
        ('add_random_missing_edges(B, 5, seed=%r)', addmissing_bipartite),
    ]
    seeds = [(1, 2), frozenset([3]), 2.5, 'abc', 7]   # all hashable

    # the model: what 94ca068 repaired
    F1 = RandomKCNF(3, 8, 6, seed=(1, 2))
    F2 = RandomKCNF(3, 8, 6, seed=(1, 2))
    print("RandomKCNF(3, 8, 6, seed=(1, 2)): accepted, reproducible:",
          list(F1.clauses()) == list(F2.clauses()))

    failures = 0
    for text, call in calls:
        for seed in seeds:
            name = text % (seed,)
            try:
                G1 = call(seed)
                G2 = call(seed)
            except Exception as e:
                print("%-58s %s: %s" % (name, type(e).__name__, str(e).split('\n')[0]))
                failures += 1
                continue
            if edges(G1) != edges(G2):
                print("%-58s accepted, but two calls give different graphs" % name)
                failures += 1

    print()
    print("EXPECTED: every function whose docstring says `seed : hashable object` takes any")
    print("          hashable seed and is reproducible with it, as RandomKCNF does since 94ca068")
    if failures:
        print("OBSERVED: %d of %d calls failed (TypeError of random.seed on python >= 3.11)"
              % (failures, len(calls) * len(seeds)))
        sys.exit(1)
    print("OBSERVED: all %d calls accepted and reproducible" % (len(calls) * len(seeds)))
    sys.exit(0)
