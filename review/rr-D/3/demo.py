"""bipartite_random_regular(l, r, d) with d > r: a ValueError about negative arguments.

Run as:  cd /tmp/rr-D && /venv/bin/python _review/3/demo.py

Commit 70431dd builds a graph of degree d > r/2 as the bipartite complement of
bipartite_random_regular(l, r, r - d).  For d > r the degree of the complement
is negative, and the error of the inner call surfaces: "needs l,r,d >=0",
although l, r and d are all positive.  With l = 0 (no left vertices: the
request is trivially met, /tmp/rr-D-base returns the graph) the call now fails
too.
"""

if __name__ == '__main__':
    import os
    import sys

    sys.path.insert(0, os.getcwd())
    import warnings
    warnings.simplefilter('ignore')
    from cnfgen.graphs import bipartite_random_regular, BipartiteGraph

    failures = 0

    # d > r with left vertices: no such graph, ValueError is fine, but the
    # message must not blame the sign of arguments that are all positive
    for (l, r, d) in [(3, 3, 4), (2, 2, 3), (4, 2, 4), (3, 3, 6)]:
        name = "bipartite_random_regular(%d, %d, %d)" % (l, r, d)
        try:
            bipartite_random_regular(l, r, d, seed=1)
            print("%-36s returned a graph ?!" % name)
            failures += 1
        except ValueError as e:
            wrong = '>=0' in str(e).replace(' ', '')
            print("%-36s ValueError: %s%s" % (name, e, "   <-- but l, r, d are all positive" if wrong else ""))
            failures += wrong
        except Exception as e:
            print("%-36s %s: %s" % (name, type(e).__name__, e))
            failures += 1

    # no left vertices: every degree is fine (this is what the base version answers)
    for (l, r, d) in [(0, 3, 4), (0, 1, 2)]:
        name = "bipartite_random_regular(%d, %d, %d)" % (l, r, d)
        try:
            G = bipartite_random_regular(l, r, d, seed=1)
            ok = isinstance(G, BipartiteGraph) and G.number_of_edges() == 0 and G.right_order() == r
            print("%-36s graph with %d+%d vertices, %d edges" % (name, G.left_order(), G.right_order(),
                                                               G.number_of_edges()))
            failures += not ok
        except ValueError as e:
            wrong = '>=0' in str(e).replace(' ', '')
            print("%-36s ValueError: %s%s" % (name, e, "   <-- but l, r, d are not negative" if wrong else ""))
            failures += wrong
        except Exception as e:
            print("%-36s %s: %s" % (name, type(e).__name__, e))
            failures += 1

    print()
    print("EXPECTED: d > r is refused with a ValueError that says so (e.g. 'needs d <= r'), or,")
    print("          when there is no left vertex, served as before the repair")
    if failures:
        print("OBSERVED: %d calls end in \"bipartite_random_regular(l,r,d) needs l,r,d >=0.\"" % failures)
        sys.exit(1)
    print("OBSERVED: as expected")
    sys.exit(0)
