"""A model that leaves out an unused variable *in the middle* is refused.

run as:  cd /tmp/rr-F && /venv/bin/python _review/1/demo.py
"""
import os
import stat
import sys

FAKE = r'''#!%(python)s
# A stand-in for a DIMACS-output solver that, like Sat4j, lists in the
# model only the variables that occur in some clause.
# usage: fake-sat4j <file.cnf>
import itertools, sys
if '--help' in sys.argv:
    sys.exit(0)
clauses = []
for line in open(sys.argv[-1]):
    if line[:1] in 'cp' or not line.strip():
        continue
    clauses.append([int(x) for x in line.split()[:-1]])
used = sorted({abs(l) for c in clauses for l in c})
for values in itertools.product([True, False], repeat=len(used)):
    a = dict(zip(used, values))
    if all(any(a[abs(l)] == (l > 0) for l in c) for c in clauses):
        print('c fake solver: model restricted to the variables in use')
        print('s SATISFIABLE')
        print('v ' + ' '.join(str(v if a[v] else -v) for v in used) + ' 0')
        sys.exit(10)
print('s UNSATISFIABLE')
sys.exit(20)
'''


def main():
    sys.path.insert(0, os.getcwd())
    here = os.path.dirname(os.path.abspath(__file__))
    bindir = os.path.join(here, 'bin')
    os.makedirs(bindir, exist_ok=True)
    solver = os.path.join(bindir, 'fake-sat4j')
    with open(solver, 'w') as f:
        f.write(FAKE % {'python': sys.executable})
    os.chmod(solver, os.stat(solver).st_mode | stat.S_IXUSR)
    os.environ['PATH'] = bindir + os.pathsep + os.environ.get('PATH', '')

    from cnfgen import CNF

    # three variables, the second one occurs in no clause
    F = CNF()
    F.add_clause([1, 3])
    F.add_clause([-1, 3])
    F.update_variable_number(3)
    print('formula:')
    print(F.to_dimacs())
    print("expected: F.solve(cmd='fake-sat4j', sameas='sat4j') == (True, model)")
    print("          where the model satisfies F (the solver prints 'v 1 3 0':")
    print("          variable 2 is in no clause, any value will do);")
    print("          the project before the repairs returned (True, [1, 3])")

    try:
        answer = F.solve(cmd='fake-sat4j', sameas='sat4j')
    except Exception as e:
        print('observed: {}: {}'.format(type(e).__name__, e))
        return 1
    print('observed:', answer)

    ok = isinstance(answer, tuple) and len(answer) == 2 and answer[0] is True
    model = answer[1] if ok else None
    ok = ok and isinstance(model, list)
    ok = ok and all(isinstance(l, int) and 1 <= abs(l) <= 3 for l in model)
    ok = ok and all(any(l in model for l in cls) for cls in F)
    ok = ok and not any(-l in model for l in model)
    if not ok:
        print('this is not a satisfying assignment of F')
        return 1

    # the trailing case, which 3d13b30 repaired, must keep working
    G = CNF()
    G.add_clause([1, 2])
    G.update_variable_number(3)
    answer = G.solve(cmd='fake-sat4j', sameas='sat4j')
    print('trailing unused variable:', answer)
    if answer[0] is not True or not any(l in answer[1] for l in (1, 2)):
        return 1
    return 0


if __name__ == '__main__':
    sys.exit(main())
