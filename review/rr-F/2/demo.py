"""The file-input bridge (sat4j, march) dies with FileNotFoundError when
the temporary DIMACS file is already gone after the solver has run.

run as:  cd /tmp/rr-F && /venv/bin/python _review/2/demo.py
"""
import os
import stat
import sys

FAKE = r'''#!%(python)s
# A wrapper around a DIMACS-output solver that tidies up after itself:
# it answers properly and then removes the file it was given.
# usage: tidy-solver <file.cnf>
import os, sys
if '--help' in sys.argv:
    sys.exit(0)
print('c tidy solver')
print('s SATISFIABLE')
print('v 1 -2 0')
sys.stdout.flush()
os.unlink(sys.argv[-1])
sys.exit(10)
'''


def main():
    sys.path.insert(0, os.getcwd())
    here = os.path.dirname(os.path.abspath(__file__))
    bindir = os.path.join(here, 'bin')
    os.makedirs(bindir, exist_ok=True)
    solver = os.path.join(bindir, 'tidy-solver')
    with open(solver, 'w') as f:
        f.write(FAKE % {'python': sys.executable})
    os.chmod(solver, os.stat(solver).st_mode | stat.S_IXUSR)
    os.environ['PATH'] = bindir + os.pathsep + os.environ.get('PATH', '')

    from cnfgen import CNF

    F = CNF([[1, -2]])
    status = 0
    print("expected: the answer of the solver, (True, [1, -2]) and True, as")
    print("          before the repairs - or at worst the documented RuntimeError,")
    print("          which the sibling bridge (minisat) raises since b5b7580")
    print("          when its result file is gone")
    for what, call in (
            ("F.solve(cmd='tidy-solver', sameas='sat4j')",
             lambda: F.solve(cmd='tidy-solver', sameas='sat4j')),
            ("F.is_satisfiable(cmd='tidy-solver', sameas='march')",
             lambda: F.is_satisfiable(cmd='tidy-solver', sameas='march'))):
        try:
            answer = call()
        except RuntimeError as e:
            print('observed: {} raises the documented RuntimeError: {}'.format(what, e))
            continue
        except Exception as e:
            print('observed: {} raises {}: {}'.format(what, type(e).__name__, e))
            status = 1
            continue
        print('observed: {} = {}'.format(what, answer))
        if answer not in ((True, [1, -2]), True):
            status = 1
    return status


if __name__ == '__main__':
    sys.exit(main())
