"""FlipPolarity keeps the number of the variables but not their names.

run as:  cd /tmp/rr-F && /venv/bin/python _review/3/demo.py
"""
import io
import os
import sys
from contextlib import redirect_stdout


def main():
    sys.path.insert(0, os.getcwd())
    from cnfgen import CNF, FlipPolarity, OrSubstitution, PigeonholePrinciple

    status = 0

    F = PigeonholePrinciple(3, 2)
    F.new_variable('y')              # a trailing variable in no clause
    G = FlipPolarity(F)
    before = list(F.all_variable_labels())
    after = list(G.all_variable_labels())
    print('number of variables: {} -> {} (kept since 766e3fd)'.format(
        F.number_of_variables(), G.number_of_variables()))
    print('expected names after FlipPolarity:', before)
    print('observed names after FlipPolarity:', after)
    if after != before:
        status = 1
    # every other substitution derives the new names from the old ones
    print('         names after OrSubstitution(F,1):',
          list(OrSubstitution(F, 1).all_variable_labels()))

    # the same from the command line
    from cnfgen.clitools.cnfgen import main as cnfgen
    outputs = []
    for argv in (['cnfgen', '-q', '--varnames', 'php', '2', '1'],
                 ['cnfgen', '-q', '--varnames', 'php', '2', '1', '-T', 'flip']):
        out = io.StringIO()
        with redirect_stdout(out):
            saved = sys.argv
            sys.argv = argv
            try:
                cnfgen()
            except SystemExit:
                pass
            finally:
                sys.argv = saved
        names = [l for l in out.getvalue().splitlines() if 'varname' in l]
        outputs.append(names)
        print(' '.join(argv), '->', names)
    if outputs[0] != outputs[1]:
        print("expected the same 'c varname' lines with and without '-T flip'")
        status = 1
    return status


if __name__ == '__main__':
    sys.exit(main())
