#!/usr/bin/env python3
"""C18 -- `cnfgen php -- -h` exits with status 0 and prints NOTHING.

Run as:  cd WORKDIR && /venv/bin/python _hunt/1/demo.py
"""
import os
import subprocess
import sys
import tempfile

ROOT = os.getcwd()
sys.path.insert(0, ROOT)

LAUNCH = ("import sys; sys.path.insert(0, {root!r}); "
          "sys.argv = [{tool!r}] + sys.argv[1:]; "
          "from cnfgen.clitools.{tool} import main; main()")


def run_tool(tool, args, cwd):
    cmd = [sys.executable, '-W', 'ignore', '-c',
           LAUNCH.format(root=ROOT, tool=tool)] + list(args)
    p = subprocess.run(cmd, cwd=cwd, stdin=subprocess.DEVNULL,
                       stdout=subprocess.PIPE, stderr=subprocess.PIPE)
    return p.returncode, p.stdout.decode(), p.stderr.decode()


def outcome(status, out, err):
    """Which of the outcomes allowed by the property did we get?"""
    if status == 0 and out.strip() != '':
        return 'formula-or-help'          # something was written
    if status != 0 and err.strip() != '' and out == '':
        return 'error-report'
    if status == 0 and out.strip() == '' and err.strip() == '':
        return 'SUCCESS WITHOUT ANY OUTPUT'
    return 'other (status={}, stdout={!r}, stderr={!r})'.format(
        status, out[:60], err[:60])


if __name__ == '__main__':
    print("Property C18 promises: every argument vector ends in (a) a complete")
    print("formula and exit status 0, or (b) a help text, or (c) a command-line")
    print("error on stderr with a non-zero exit status.\n")

    failures = 0
    scratch = tempfile.mkdtemp(dir=os.path.dirname(os.path.abspath(__file__)))
    try:
        vectors = [
            ('cnfgen', ['php', '--', '-h']),
            ('cnfgen', ['php', '--', '--help']),
            ('pbgen', ['php', '--', 'complete', '3', '2', '--help']),
            ('cnfgen', ['-of', 'latex', 'php', '--functional', '--', '-h']),
        ]
        for tool, args in vectors:
            status, out, err = run_tool(tool, args, scratch)
            what = outcome(status, out, err)
            print("{} {}\n    -> exit status {}, {} bytes on stdout, "
                  "{} bytes on stderr: {}".format(
                      tool, ' '.join(args), status, len(out), len(err), what))
            if what not in ('formula-or-help', 'error-report'):
                failures += 1

        # the same with -o: a solver run after `&&` gets an empty file
        target = os.path.join(scratch, 'out.cnf')
        status, out, err = run_tool('cnfgen',
                                    ['-o', target, 'php', '--', '-h'],
                                    scratch)
        size = os.path.getsize(target) if os.path.exists(target) else None
        print("cnfgen -o out.cnf php -- -h\n    -> exit status {}, stdout {!r}, "
              "stderr {!r}, out.cnf has {} bytes".format(status, out, err, size))
        if status == 0 and out.strip() == '' and err.strip() == '' \
           and not size:
            failures += 1

        # for comparison: the sibling helpers do print a help text
        status, out, err = run_tool('cnfgen', ['tseitin', '--', 'first', '-h'],
                                    scratch)
        print("(for comparison) cnfgen tseitin -- first -h\n    -> exit status "
              "{}, {} bytes of help on stdout".format(status, len(out)))
    finally:
        for name in os.listdir(scratch):
            os.remove(os.path.join(scratch, name))
        os.rmdir(scratch)

    if failures:
        print("\nDEFECT: {} argument vector(s) ended with exit status 0 although "
              "neither a formula,\nnor a help text, nor an error message was "
              "written.".format(failures))
        sys.exit(1)
    print("\nOK: every vector ended in a formula, a help text or an error report.")
    sys.exit(0)
