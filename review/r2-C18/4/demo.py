#!/usr/bin/env python3
"""C18 -- LaTeX output on a standard output that is not UTF-8: the title is
written with the encoding of the stream.  A non-ASCII input file name ends in
a UnicodeEncodeError traceback and a truncated document (ASCII stdout), or in
a document that is not the UTF-8 it declares to be (Latin-1 stdout).

Run as:  cd WORKDIR && /venv/bin/python _hunt/4/demo.py
"""
import os
import subprocess
import sys
import tempfile

ROOT = os.getcwd()
sys.path.insert(0, ROOT)

LAUNCH = ("import sys; sys.path.insert(0, {root!r}); "
          "sys.argv = [{tool!r}] + sys.argv[1:]; "
          "from cnfgen.clitools.{tool} import main; main()")


def run_tool(tool, args, cwd, ioencoding):
    env = dict(os.environ)
    # a UTF-8 locale, so that the file name on the command line is
    # decoded properly; only the standard streams use another encoding
    # (the same happens, without PYTHONIOENCODING, in any non UTF-8 locale)
    env['LC_ALL'] = 'C.UTF-8'
    env['LANG'] = 'C.UTF-8'
    env.pop('PYTHONUTF8', None)
    env['PYTHONIOENCODING'] = ioencoding
    cmd = [sys.executable, '-W', 'ignore', '-c',
           LAUNCH.format(root=ROOT, tool=tool)]
    cmd = [os.fsencode(x) for x in cmd] + list(args)
    p = subprocess.run(cmd, cwd=cwd, env=env, stdin=subprocess.DEVNULL,
                       stdout=subprocess.PIPE, stderr=subprocess.PIPE)
    return p.returncode, p.stdout, p.stderr.decode('utf-8', 'replace')


if __name__ == '__main__':
    print("Property C18 promises: a complete formula that a strict reader of "
          "the chosen format\naccepts, or a clean error without a partial "
          "formula; never an unhandled exception.\n")
    failures = 0
    scratch = tempfile.mkdtemp(dir=os.path.dirname(os.path.abspath(__file__)))
    name = 'gré.cnf'.encode('utf-8')        # a file called  gré.cnf
    bscratch = os.fsencode(scratch)
    try:
        with open(os.path.join(bscratch, name), 'wb') as f:
            f.write(b'p cnf 2 1\n1 -2 0\n')

        for tool, opts in [('cnfgen', [b'-of', b'latex']),
                           ('pbgen', [b'-of', b'latex'])]:
            args = opts + [b'dimacs', name]
            shown = b' '.join(args).decode('utf-8')

            # --- stdout can encode ASCII only
            status, out, err = run_tool(tool, args, scratch, 'ascii')
            complete = out.rstrip().endswith(b'\\end{document}')
            last = err.strip().splitlines()[-1] if err.strip() else ''
            print("PYTHONIOENCODING=ascii {} {}\n    -> exit status {}, {} "
                  "bytes on stdout, document complete: {}\n    stderr ends "
                  "with: {!r}".format(tool, shown, status, len(out), complete,
                                      last[:110]))
            if 'Traceback' in err:
                print("    VIOLATION: unhandled internal exception")
                failures += 1
            if out and not complete:
                print("    VIOLATION: partial document on standard output")
                failures += 1
            if status == 0 and not complete:
                failures += 1

            # --- stdout is Latin-1: 'é' can be written, as byte 0xE9
            status, out, err = run_tool(tool, args, scratch, 'latin-1')
            declared = b'\\usepackage[utf8]{inputenc}' in out
            try:
                out.decode('utf-8')
                valid = True
            except UnicodeDecodeError as e:
                valid = False
                where = out[max(0, e.start - 30):e.start + 10]
            print("PYTHONIOENCODING=latin-1 {} {}\n    -> exit status {}, "
                  "document declares utf8 input encoding: {}, is valid "
                  "UTF-8: {}".format(tool, shown, status, declared, valid))
            if 'Traceback' in err:
                print("    VIOLATION: unhandled internal exception")
                failures += 1
            if status == 0 and declared and not valid:
                print("    VIOLATION: exit status 0, but LaTeX (inputenc, "
                      "utf8) rejects the byte sequence\n    near {!r}".format(
                          where))
                failures += 1
    finally:
        for n in os.listdir(bscratch):
            os.remove(os.path.join(bscratch, n))
        os.rmdir(bscratch)

    if failures:
        print("\nDEFECT: the title of the LaTeX document is written in the "
              "encoding of standard output,\nwhatever it is ({} violations "
              "above).".format(failures))
        sys.exit(1)
    print("\nOK")
    sys.exit(0)
