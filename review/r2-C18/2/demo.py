#!/usr/bin/env python3
"""C18 -- clustered short options (`-ql`, `-qo f.opb`, `-vl`) select an
output format, but command-line errors are reported with the comment marker
of ANOTHER format.

Run as:  cd WORKDIR && /venv/bin/python _hunt/2/demo.py
"""
import os
import subprocess
import sys
import tempfile

ROOT = os.getcwd()
sys.path.insert(0, ROOT)

LAUNCH = ("import sys; sys.path.insert(0, {root!r}); "
          "sys.argv = [{tool!r}] + sys.argv[1:]; "
          "from cnfgen.clitools.{tool} import main; main()")


def run_tool(tool, args, cwd):
    cmd = [sys.executable, '-W', 'ignore', '-c',
           LAUNCH.format(root=ROOT, tool=tool)] + list(args)
    p = subprocess.run(cmd, cwd=cwd, stdin=subprocess.DEVNULL,
                       stdout=subprocess.PIPE, stderr=subprocess.PIPE)
    return p.returncode, p.stdout.decode(), p.stderr.decode()


def fmt_of_output(text):
    if text.startswith('%\n\\documentclass'):
        return 'latex'
    if text.startswith('* #variable='):
        return 'opb'
    if text.startswith('p cnf') or text.startswith('c '):
        return 'dimacs'
    return 'unknown'


MARKER = {'dimacs': 'c', 'opb': '*', 'latex': '%'}

if __name__ == '__main__':
    print("Property C18 promises: a command-line error is reported with every "
          "line prefixed by\nthe comment marker of the requested output format "
          "('c ' dimacs, '* ' opb, '% ' latex).\n")

    scratch = tempfile.mkdtemp(dir=os.path.dirname(os.path.abspath(__file__)))
    failures = 0
    try:
        # (tool, options, how the formula is read back)
        cases = [
            ('cnfgen', ['-ql'], None),
            ('cnfgen', ['-vl'], None),
            ('cnfgen', ['-qo', 'f.opb'], 'f.opb'),
            ('cnfgen', ['-qo', 'f.tex'], 'f.tex'),
            ('pbgen', ['-ql'], None),
            # unclustered spelling of the first one, for comparison (correct)
            ('cnfgen', ['-q', '-l'], None),
        ]
        for tool, opts, outfile in cases:
            # 1. which output format do these options request?  Ask the
            #    tool itself, with a correct formula specification.
            status, out, err = run_tool(tool, opts + ['php', '2'], scratch)
            if outfile is not None:
                with open(os.path.join(scratch, outfile)) as f:
                    out = f.read()
            fmt = fmt_of_output(out)
            # 2. same options, wrong formula arguments
            status2, out2, err2 = run_tool(tool, opts + ['php', 'x'], scratch)
            lines = [l for l in err2.splitlines() if l.strip() != '']
            wrong = [l for l in lines if not l.startswith(MARKER[fmt])]
            print("{} {} php 2   -> status {}, writes a formula in format "
                  "'{}'".format(tool, ' '.join(opts), status, fmt))
            print("{} {} php x   -> status {}, first line of the error "
                  "report: {!r}".format(tool, ' '.join(opts), status2,
                                        lines[0] if lines else ''))
            if status2 == 0 or not lines or out2 != '':
                print("    UNEXPECTED: no error report at all")
                failures += 1
            elif wrong:
                print("    WRONG MARKER: expected every line to start with "
                      "{!r}, {} of {} lines do not".format(
                          MARKER[fmt] + ' ', len(wrong), len(lines)))
                failures += 1
            else:
                print("    ok: every line starts with {!r}".format(
                    MARKER[fmt] + ' '))
    finally:
        for name in os.listdir(scratch):
            os.remove(os.path.join(scratch, name))
        os.rmdir(scratch)

    if failures:
        print("\nDEFECT: {} option spelling(s) report command-line errors with "
              "the comment marker of a\nformat which is not the requested "
              "one.".format(failures))
        sys.exit(1)
    print("\nOK: all error reports carry the marker of the requested format.")
    sys.exit(0)
