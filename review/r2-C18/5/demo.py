#!/usr/bin/env python3
"""C18 -- LaTeX output: the name of an input file is copied into \\title{...}
with only '_' escaped.  A '%' in the name comments out the closing brace of
\\title, '#', '&', '$', '^' are errors for TeX: exit status 0, but no LaTeX
engine accepts the document.

Run as:  cd WORKDIR && /venv/bin/python _hunt/5/demo.py
"""
import os
import re
import subprocess
import sys
import tempfile

ROOT = os.getcwd()
sys.path.insert(0, ROOT)

LAUNCH = ("import sys; sys.path.insert(0, {root!r}); "
          "sys.argv = [{tool!r}] + sys.argv[1:]; "
          "from cnfgen.clitools.{tool} import main; main()")


def run_tool(tool, args, cwd):
    cmd = [sys.executable, '-W', 'ignore', '-c',
           LAUNCH.format(root=ROOT, tool=tool)] + list(args)
    p = subprocess.run(cmd, cwd=cwd, stdin=subprocess.DEVNULL,
                       stdout=subprocess.PIPE, stderr=subprocess.PIPE)
    return p.returncode, p.stdout.decode(), p.stderr.decode()


def tex_strip_comment(line):
    """What TeX reads of a line: up to the first '%' not escaped as '\\%'"""
    mt = re.search(r'(?<!\\)%', line)
    return line if mt is None else line[:mt.start()]


def title_problems(document):
    """Problems of the \\title{...} command, as TeX reads it.

    (the title is written on one line, followed by \\author{...})"""
    problems = []
    lines = document.splitlines()
    idx = [i for i, l in enumerate(lines) if l.startswith('\\title{')]
    if len(idx) != 1:
        return ['no \\title line']
    read = tex_strip_comment(lines[idx[0]])
    depth = 0
    for pos, ch in enumerate(read):
        if pos > 0 and read[pos - 1] == '\\':
            continue
        if ch == '{':
            depth += 1
        elif ch == '}':
            depth -= 1
    if depth != 0:
        problems.append("braces of \\title do not balance on its line (TeX "
                        "reads {!r}): the argument of \\title swallows "
                        "\\author, \\maketitle, ... up to the first empty "
                        "line -> 'Paragraph ended before \\title was "
                        "complete'".format(read))
    argument = read[len('\\title{'):]
    for ch, msg in [('#', "macro parameter character # in the argument of "
                          "\\title (Illegal parameter number in definition "
                          "of \\@title)"),
                    ('&', "Misplaced alignment tab character &"),
                    ('$', "Missing $ inserted (math shift in the title)"),
                    ('^', "Missing $ inserted (superscript outside math)")]:
        if re.search(r'(?<!\\)' + re.escape(ch), argument):
            problems.append("unescaped {!r} in the title -> TeX error: "
                            "{}".format(ch, msg))
    return problems


if __name__ == '__main__':
    print("Property C18 promises: exit status 0 comes with a complete formula "
          "that a strict reader\nof the chosen format accepts.\n")
    failures = 0
    scratch = tempfile.mkdtemp(dir=os.path.dirname(os.path.abspath(__file__)))
    try:
        cnf = 'p cnf 2 1\n1 -2 0\n'
        dot = 'graph G {\n a -- b;\n}\n'
        files = {'50%.cnf': cnf, 'run#1.cnf': cnf, 'a&b.cnf': cnf,
                 'x^2.cnf': cnf, '50%.dot': dot, 'under_score.cnf': cnf}
        for name, content in files.items():
            with open(os.path.join(scratch, name), 'w') as f:
                f.write(content)

        vectors = [('cnfgen', ['-of', 'latex', 'dimacs', '50%.cnf']),
                   ('pbgen', ['-of', 'latex', 'dimacs', '50%.cnf']),
                   ('cnfgen', ['-l', 'kcolor', '2', '50%.dot']),
                   ('cnfgen', ['-of', 'latex', 'dimacs', 'run#1.cnf']),
                   ('cnfgen', ['-of', 'latex', 'dimacs', 'a&b.cnf']),
                   ('cnfgen', ['-of', 'latex', 'dimacs', 'x^2.cnf']),
                   # the one special character that IS taken care of
                   ('cnfgen', ['-of', 'latex', 'dimacs', 'under_score.cnf'])]
        for tool, args in vectors:
            status, out, err = run_tool(tool, args, scratch)
            print("{} {}  -> exit status {}".format(tool, ' '.join(args),
                                                    status))
            if status != 0:
                # a clean refusal would be fine
                print("    (error report: {!r})".format(err[:80]))
                if 'Traceback' in err or out != '':
                    failures += 1
                continue
            titles = [l for l in out.splitlines() if l.startswith('\\title')]
            print("    " + (titles[0] if titles else '<no title>'))
            problems = title_problems(out)
            for p in problems:
                print("    REJECTED BY TeX: " + p)
            if problems:
                failures += 1
            else:
                print("    ok")
    finally:
        for n in os.listdir(scratch):
            os.remove(os.path.join(scratch, n))
        os.rmdir(scratch)

    if failures:
        print("\nDEFECT: {} command line(s) exit with status 0 and a LaTeX "
              "document that TeX rejects.".format(failures))
        sys.exit(1)
    print("\nOK")
    sys.exit(0)
