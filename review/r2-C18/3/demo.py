#!/usr/bin/env python3
"""C18 -- with a closed standard stream (`2>&-`, `>&-`, `<&-`) the tools end
through an unhandled AttributeError: a complete formula is followed by exit
status 1, or a traceback replaces the clean error.

Run as:  cd WORKDIR && /venv/bin/python _hunt/3/demo.py
"""
import os
import re
import subprocess
import sys

ROOT = os.getcwd()
sys.path.insert(0, ROOT)

LAUNCH = ("import sys; sys.path.insert(0, {root!r}); "
          "sys.argv = [{tool!r}] + sys.argv[1:]; "
          "from cnfgen.clitools.{tool} import main; main()")

DEVNULL = subprocess.DEVNULL
PIPE = subprocess.PIPE


def run_tool(tool, args, closed, stdin_data=None):
    """Run a tool with the file descriptor `closed` (0, 1 or 2) closed,
    exactly as the shell does for `<&-`, `>&-`, `2>&-`."""
    cmd = [sys.executable, '-W', 'ignore', '-c',
           LAUNCH.format(root=ROOT, tool=tool)] + list(args)

    p = subprocess.Popen(cmd,
                         stdin=PIPE if stdin_data is not None else DEVNULL,
                         stdout=PIPE, stderr=PIPE,
                         preexec_fn=lambda: os.close(closed))
    out, err = p.communicate(stdin_data)
    return p.returncode, out.decode(), err.decode()


def strict_dimacs(text):
    """None if `text` is a complete DIMACS file, else the complaint"""
    n = m = None
    count = 0
    if not text.endswith('\n'):
        return 'truncated'
    for line in text.splitlines():
        if line.startswith('c'):
            continue
        if line.startswith('p'):
            mt = re.fullmatch(r'p cnf (\d+) (\d+)', line)
            if mt is None or n is not None:
                return 'bad p line'
            n, m = int(mt.group(1)), int(mt.group(2))
            continue
        if n is None or re.fullmatch(r'(-?[1-9]\d* )*0', line) is None:
            return 'bad line {!r}'.format(line)
        count += 1
    if n is None or count != m:
        return 'header does not match the body'
    return None


def strict_opb(text):
    """None if `text` is a complete OPB file, else the complaint"""
    lines = text.splitlines()
    if not text.endswith('\n') or not lines:
        return 'truncated'
    mt = re.fullmatch(r'\* #variable= (\d+) #constraint= (\d+)', lines[0])
    if mt is None:
        return 'bad first line'
    count = 0
    for line in lines[1:]:
        if line.startswith('*'):
            continue
        if re.fullmatch(r'([+-]\d+ ~?x[1-9]\d* )+(>=|=) -?\d+ ?;?', line) is None:
            return 'bad line {!r}'.format(line)
        count += 1
    if count != int(mt.group(2)):
        return 'header does not match the body'
    return None


def internal(err):
    return 'Traceback (most recent call last)' in err or \
        'AttributeError' in err


if __name__ == '__main__':
    print("Property C18 promises: a complete formula comes with a successful "
          "exit status;\nthe tools never terminate through an unhandled "
          "internal exception.\n")
    failures = 0

    cnf = b'p cnf 2 2\n1 -2 0\n2 0\n'
    kth = b'3\n1 : 0\n2 : 0\n3 : 1 2 0\n'

    print("--- A. standard error closed (2>&-): nothing has to be reported, "
          "the run is a success")
    for tool, args, data in [('cnfgen', ['php', '2'], None),
                             ('pbgen', ['php', '2'], None),
                             ('cnfshuffle', [], cnf),
                             ('kthlist2pebbling', [], kth)]:
        status, out, err = run_tool(tool, args, 2, data)
        if tool == 'pbgen':
            complete = strict_opb(out) is None
        else:
            complete = strict_dimacs(out) is None
        print("{} {} 2>&-  -> formula complete: {}, exit status {}".format(
            tool, ' '.join(args), complete, status))
        if complete and status != 0:
            print("    VIOLATION: a complete formula, yet the tool reports "
                  "failure")
            failures += 1
        elif not complete and status == 0:
            print("    VIOLATION: success without a complete formula")
            failures += 1

    print("\n--- B. standard output closed (>&-): the formula cannot be "
          "written, a clean error is due")
    for tool, args, data in [('cnfgen', ['php', '2'], None),
                             ('pbgen', ['php', '2'], None),
                             ('cnfshuffle', [], cnf),
                             ('kthlist2pebbling', [], kth)]:
        status, out, err = run_tool(tool, args, 1, data)
        last = err.strip().splitlines()[-1] if err.strip() else ''
        print("{} {} >&-  -> exit status {}, stderr ends with: {!r}".format(
            tool, ' '.join(args), status, last))
        if internal(err):
            print("    VIOLATION: unhandled internal exception (traceback)")
            failures += 1

    print("\n--- C. standard input closed (<&-) while the input is read from "
          "it: a clean error is due")
    for tool, args in [('cnfgen', ['kcolor', '2', 'dot', '-']),
                       ('cnfgen', ['dimacs']),
                       ('pbgen', ['php', 'matrix', '-']),
                       ('cnfshuffle', []),
                       ('kthlist2pebbling', [])]:
        status, out, err = run_tool(tool, args, 0)
        last = err.strip().splitlines()[-1] if err.strip() else ''
        print("{} {} <&-  -> exit status {}, stderr ends with: {!r}".format(
            tool, ' '.join(args), status, last))
        if internal(err):
            print("    VIOLATION: unhandled internal exception (traceback)")
            failures += 1
        elif status == 0 and out == '':
            print("    VIOLATION: success without output")
            failures += 1

    if failures:
        print("\nDEFECT: {} run(s) ended through an unhandled "
              "AttributeError on a closed standard stream.".format(failures))
        sys.exit(1)
    print("\nOK")
    sys.exit(0)
