"""Commit 9eba433: repr(seed) is not a canonical text of a hashable seed

(A) regression: two EQUAL hashable objects (value based __eq__/__hash__,
    no __repr__ of their own) used to give the same formula, in the
    same process and in every process. Now each object gives its own
    formula, and the formula changes from one run to the next (the
    default repr carries the memory address).
(B) incomplete: a frozenset of strings (or a tuple which contains one)
    still gives a different formula in every process: the order in its
    repr follows the hashes of the strings (PYTHONHASHSEED).

Run as: cd /tmp/rr-H && /venv/bin/python _review/1/demo.py
"""
import os
import subprocess
import sys

CHILD = r'''
import sys, warnings
warnings.simplefilter('ignore')
sys.path.insert(0, '.')
from cnfgen import RandomKCNF, RandomKXOR

class Key:
    """A hashable key as users write them: __eq__ and __hash__, no __repr__"""
    def __init__(self, family, index):
        self.family = family
        self.index = index
    def __eq__(self, other):
        return (self.family, self.index) == (other.family, other.index)
    def __hash__(self):
        return hash((self.family, self.index))

what = sys.argv[1]
if what == 'key':
    seed = Key(3, 7)
elif what == 'frozenset':
    seed = frozenset(['alpha', 'beta', 'gamma', 'delta', 'epsilon'])
elif what == 'nested':
    seed = (1, frozenset(['alpha', 'beta', 'gamma', 'delta', 'epsilon']))
for gen in (RandomKCNF, RandomKXOR):
    print(gen.__name__, [list(c) for c in gen(3, 12, 6, seed=seed)])
'''


def child(what, hashseed):
    env = dict(os.environ)
    env['PYTHONHASHSEED'] = str(hashseed)
    p = subprocess.run([sys.executable, '-c', CHILD, what],
                       capture_output=True, text=True, env=env)
    if p.returncode != 0:
        return 'FAILED: ' + p.stderr[-300:]
    return p.stdout


if __name__ == '__main__':
    sys.path.insert(0, os.getcwd())
    import warnings
    warnings.simplefilter('ignore')
    from cnfgen import RandomKCNF

    class Key:
        def __init__(self, family, index):
            self.family = family
            self.index = index

        def __eq__(self, other):
            return (self.family, self.index) == (other.family, other.index)

        def __hash__(self):
            return hash((self.family, self.index))

    problems = 0

    # (A1) equal seeds, same process
    a, b = Key(3, 7), Key(3, 7)
    assert a == b and hash(a) == hash(b)
    Fa = [list(c) for c in RandomKCNF(3, 12, 6, seed=a)]
    Fb = [list(c) for c in RandomKCNF(3, 12, 6, seed=b)]
    print("(A1) two equal hashable seeds in one process")
    print("     expected: the same formula (as in /tmp/rr-H-base)")
    if Fa == Fb:
        print("     observed: the same formula")
    else:
        problems += 1
        print("     observed: two formulas\n       ", Fa, "\n       ", Fb)

    # (A2) same seed, several processes (hash of a tuple of ints does
    # not depend on PYTHONHASHSEED: the base tree is reproducible)
    outs = {child('key', hs) for hs in (1, 2, 3)}
    print("(A2) seed=Key(3, 7) in three processes")
    print("     expected: one formula (as in /tmp/rr-H-base)")
    print("     observed: {} different outputs".format(len(outs)))
    if len(outs) != 1:
        problems += 1

    # (B) what the commit set out to repair, for other hashable objects
    for what in ('frozenset', 'nested'):
        outs = {child(what, hs) for hs in (1, 2, 3, 4)}
        print("(B)  seed={} of strings in four processes "
              "(PYTHONHASHSEED=1..4)".format(what))
        print("     expected: one formula (the claim of the commit)")
        print("     observed: {} different outputs".format(len(outs)))
        if len(outs) != 1:
            problems += 1

    if problems:
        print("PROBLEM: {} of 4 checks failed".format(problems))
        sys.exit(1)
    print("OK")
    sys.exit(0)
