"""Commit 9eba433 (and 94ca068 before it): the random graph generators
document `seed : hashable object` exactly as RandomKCNF / RandomKXOR do,
but have not been repaired: a tuple seed is refused (TypeError from
random.seed on python >= 3.11) instead of giving the same graph in
every process.

Run as: cd /tmp/rr-H && /venv/bin/python _review/2/demo.py
"""
import os
import sys

if __name__ == '__main__':
    sys.path.insert(0, os.getcwd())
    import warnings
    warnings.simplefilter('ignore')
    from cnfgen import RandomKCNF
    from cnfgen.graphs import Graph
    from cnfgen.graphs import bipartite_random_left_regular
    from cnfgen.graphs import bipartite_random_regular
    from cnfgen.graphs import bipartite_random_m_edges
    from cnfgen.graphs import bipartite_random
    from cnfgen.graphs import split_random_edges
    from cnfgen.graphs import add_random_missing_edges

    seed = (2026, 'experiment-1')

    # the repaired sibling, for reference
    F1 = [list(c) for c in RandomKCNF(3, 8, 4, seed=seed)]
    F2 = [list(c) for c in RandomKCNF(3, 8, 4, seed=seed)]
    print("RandomKCNF(3, 8, 4, seed={!r}): accepted, reproducible: {}".format(
        seed, F1 == F2))

    def path(n):
        G = Graph(n)
        for i in range(1, n):
            G.add_edge(i, i + 1)
        return G

    calls = [
        ('bipartite_random_left_regular(5, 6, 2, seed)',
         lambda: sorted(bipartite_random_left_regular(5, 6, 2, seed=seed).edges())),
        ('bipartite_random_regular(4, 4, 2, seed)',
         lambda: sorted(bipartite_random_regular(4, 4, 2, seed=seed).edges())),
        ('bipartite_random_m_edges(4, 4, 5, seed)',
         lambda: sorted(bipartite_random_m_edges(4, 4, 5, seed=seed).edges())),
        ('bipartite_random(4, 4, 0.5, seed)',
         lambda: sorted(bipartite_random(4, 4, 0.5, seed=seed).edges())),
        ('split_random_edges(path(6), 2, seed)',
         lambda: (lambda G: (split_random_edges(G, 2, seed=seed), sorted(G.edges()))[1])(path(6))),
        ('add_random_missing_edges(path(6), 2, seed)',
         lambda: (lambda G: (add_random_missing_edges(G, 2, seed=seed), sorted(G.edges()))[1])(path(6))),
    ]
    problems = 0
    for label, call in calls:
        print(label)
        print("   expected: a graph, the same at every call "
              "(`seed : hashable object` in the docstring)")
        try:
            first = call()
            second = call()
        except Exception as e:
            problems += 1
            print("   observed: {}: {}".format(type(e).__name__,
                                              ' '.join(str(e).split())))
            continue
        if first != second:
            problems += 1
            print("   observed: two different graphs")
        else:
            print("   observed: reproducible graph", first)

    if problems:
        print("PROBLEM: {} of {} generators refuse the hashable seed".format(
            problems, len(calls)))
        sys.exit(1)
    print("OK")
    sys.exit(0)
