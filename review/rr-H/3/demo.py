"""Commit d182fa6: OPB.cardinality_neq takes its literals from any iterable,
but the siblings with the same idiom (`if isgenerator(lits): lits = list(lits)`)
still accept generators only: OPB.add_parity, CNF.cardinality_neq (the twin
of the repaired method), CNF.add_parity, CNF.add_linear and the cardinality /
majority methods built on it refuse a `map`, an `iter(...)`, a `reversed(...)`.

Run as: cd /tmp/rr-H && /venv/bin/python _review/3/demo.py
"""
import os
import sys

if __name__ == '__main__':
    sys.path.insert(0, os.getcwd())
    import warnings
    warnings.simplefilter('ignore')
    from cnfgen import CNF
    from cnfgen.formula.opb import OPB

    one_shot = [
        ('generator', lambda: (x for x in [1, 2, 3])),
        ('map', lambda: map(int, ['1', '2', '3'])),
        ('iter', lambda: iter([1, 2, 3])),
        ('reversed', lambda: reversed([3, 2, 1])),
    ]
    methods = [
        (OPB, 'cardinality_neq', (2,)),     # the repaired one
        (OPB, 'add_parity', (1,)),
        (CNF, 'cardinality_neq', (2,)),
        (CNF, 'cardinality_eq', (2,)),
        (CNF, 'cardinality_geq', (2,)),
        (CNF, 'cardinality_leq', (2,)),
        (CNF, 'add_parity', (1,)),
        (CNF, 'add_linear', ('>=', 2)),
        (CNF, 'add_loose_majority', ()),    # "lists : iterable(int)"
        (CNF, 'add_loose_minority', ()),    # "lists : iterable(int)"
        (CNF, 'add_strict_majority', ()),   # "lists : iterable(int)"
        (CNF, 'add_strict_minority', ()),   # "lists : iterable(int)"
    ]
    problems = 0
    for cls, name, args in methods:
        reference = cls()
        getattr(reference, name)([1, 2, 3], *args)
        reference = list(reference)
        outcome = []
        for kind, make in one_shot:
            F = cls()
            try:
                getattr(F, name)(make(), *args)
                if list(F) == reference and F.number_of_variables() == 3:
                    outcome.append(kind + ': ok')
                else:
                    problems += 1
                    outcome.append(kind + ': WRONG FORMULA {}'.format(list(F)))
            except Exception as e:
                problems += 1
                outcome.append('{}: {}'.format(kind, type(e).__name__))
        print('{}.{}{}'.format(cls.__name__, name, (['lits'] + list(args))))
        print('    expected: generator: ok, map: ok, iter: ok, reversed: ok')
        print('    observed: ' + ', '.join(outcome))

    if problems:
        print("PROBLEM: {} calls with a one-shot iterable fail "
              "(the same calls with a generator succeed)".format(problems))
        sys.exit(1)
    print("OK")
    sys.exit(0)
