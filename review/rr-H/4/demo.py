"""Commit 6ce19f2: bipartite_random_regular "says that d exceeds r when it
does, and serves l = 0" - not when r = 0, the neighbouring input: the test
`(l * d) % r` that comes before the new one divides by zero.

Run as: cd /tmp/rr-H && /venv/bin/python _review/4/demo.py
"""
import os
import sys

if __name__ == '__main__':
    sys.path.insert(0, os.getcwd())
    import warnings
    warnings.simplefilter('ignore')
    from cnfgen.graphs import bipartite_random_regular

    cases = [
        # (l, r, d), what the docstring and the commit lead one to expect
        ((2, 0, 1), "ValueError (d = 1 exceeds r = 0)"),
        ((3, 0, 2), "ValueError (d = 2 exceeds r = 0)"),
        ((0, 0, 1), "the graph without vertices (l = 0 is served) or ValueError"),
        ((0, 0, 0), "the graph without vertices or ValueError"),
        ((2, 0, 0), "the graph with 2 isolated left vertices or ValueError"),
        # for comparison: these are fine
        ((2, 1, 3), "ValueError (d = 3 exceeds r = 1)"),
        ((0, 1, 3), "the graph with 1 isolated right vertex"),
    ]
    problems = 0
    for args, expected in cases:
        try:
            G = bipartite_random_regular(*args)
            observed = "graph with ({},{}) vertices and {} edges".format(
                G.left_order(), G.right_order(), G.number_of_edges())
            bad = 'ValueError (' in expected and 'or' not in expected
        except ValueError as e:
            observed = "ValueError: {}".format(e)
            bad = False
        except Exception as e:
            observed = "{}: {}".format(type(e).__name__, e)
            bad = True
        problems += bad
        print("bipartite_random_regular{}".format(args))
        print("    expected:", expected)
        print("    observed:", observed, "   <-- PROBLEM" if bad else "")
    if problems:
        print("PROBLEM: {} calls end with an exception that is not the "
              "documented ValueError".format(problems))
        sys.exit(1)
    print("OK")
    sys.exit(0)
