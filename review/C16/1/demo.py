"""C16 - BipartiteGraph.add_edge accepts an endpoint that is not a vertex
(a non-integral number inside the numeric range, e.g. 2.5).

Run as:  cd WORKDIR && /venv/bin/python _hunt/1/demo.py
Exit status 1 on the defective tree, 0 once the insertion is refused
without side effect.
"""
import sys


def views(B):
    """Everything the public interface shows about a bipartite graph."""
    L, R = B.left_order(), B.right_order()
    N = B.to_networkx()
    return {
        'number_of_edges': B.number_of_edges(),
        'len(edges())': len(B.edges()),
        'edges()': list(B.edges()),
        'right_neighbors': [list(B.right_neighbors(u)) for u in range(1, L + 1)],
        'left_neighbors': [list(B.left_neighbors(v)) for v in range(1, R + 1)],
        'right_degree': [B.right_degree(u) for u in range(1, L + 1)],
        'left_degree': [B.left_degree(v) for v in range(1, R + 1)],
        'networkx nodes': sorted(N.nodes()),
        'networkx edges': sorted(N.edges()),
    }


def main():
    sys.path.insert(0, '.')
    from cnfgen.graphs import BipartiteGraph

    print("Property C16 promises: insertions the graph type does not allow")
    print("(vertices out of range) are refused without side effect, all views")
    print("agree, and conversion to networkx preserves vertices and edges.\n")

    failures = 0
    for (u, v) in [(1, 2.5), (2.5, 1)]:
        B = BipartiteGraph(3, 3)
        B.add_edge(1, 2)
        B.add_edge(3, 3)
        before = views(B)
        try:
            B.add_edge(u, v)
            outcome = 'accepted (no exception)'
        except (ValueError, TypeError) as e:
            outcome = 'refused with ' + type(e).__name__
        after = views(B)
        print("BipartiteGraph(3,3) with edges (1,2),(3,3); add_edge({!r}, {!r}): {}".format(u, v, outcome))
        if outcome.startswith('accepted') or after != before:
            failures += 1
            print("  VIOLATION: {!r} is not a vertex of the graph, but the views changed:".format(
                u if u == 2.5 else v))
            for k in before:
                if before[k] != after[k]:
                    print("    {:16s} {!r}  ->  {!r}".format(k, before[k], after[k]))
            dl = sum(after['left_degree'])
            dr = sum(after['right_degree'])
            print("    edge count {} / sum of left degrees {} / sum of right degrees {}".format(
                after['number_of_edges'], dl, dr))
            if after['networkx nodes'] != list(range(1, 7)):
                print("    to_networkx() now has the vertices {!r} instead of 1..6".format(
                    after['networkx nodes']))
                try:
                    BipartiteGraph.from_networkx(B.to_networkx())
                except ValueError as e:
                    print("    and converting back fails: ValueError: {}".format(e))
        else:
            print("  ok: refused, all views unchanged")

    if failures:
        print("\nFAIL: {} insertion(s) of a non-vertex were accepted".format(failures))
        return 1
    print("\nPASS")
    return 0


if __name__ == '__main__':
    sys.exit(main())
