"""C16 - DirectedGraph.add_edge: a refused insertion (TypeError for a non-int
numeric endpoint) has side effects: is_dag() flips to False although no edge
was inserted, and predecessor lists / in-degrees gain a phantom entry.

Run as:  cd WORKDIR && /venv/bin/python _hunt/3/demo.py
Exit status 1 on the defective tree, 0 once a refused call leaves the graph
untouched (or the call is accepted and all views agree).
"""
import sys


def views(D):
    n = D.number_of_vertices()
    N = D.to_networkx()
    return {
        'is_dag': D.is_dag(),
        'number_of_edges': D.number_of_edges(),
        'edges()': list(D.edges()),
        'edges by succ.': list(D.edges_ordered_by_successors()),
        'predecessors': [list(D.predecessors(u)) for u in range(1, n + 1)],
        'successors': [list(D.successors(u)) for u in range(1, n + 1)],
        'in_degree': [D.in_degree(u) for u in range(1, n + 1)],
        'out_degree': [D.out_degree(u) for u in range(1, n + 1)],
        'has_edge matrix': [[D.has_edge(u, v) for v in range(1, n + 1)]
                            for u in range(1, n + 1)],
        'networkx edges': sorted(N.edges()),
    }


def disagreement(w):
    m = w['number_of_edges']
    E = w['edges()']
    if len(E) != m:
        return "number_of_edges()={} but edges() lists {!r}".format(m, E)
    if sorted(w['edges by succ.']) != sorted(E):
        return "edges()={!r} but edges_ordered_by_successors()={!r}".format(E, w['edges by succ.'])
    if sum(w['in_degree']) != m or sum(w['out_degree']) != m:
        return "number_of_edges()={} but in-degrees {} / out-degrees {}".format(
            m, w['in_degree'], w['out_degree'])
    for u in range(1, len(w['successors']) + 1):
        has = [v for v, b in enumerate(w['has_edge matrix'][u - 1], start=1) if b]
        if w['successors'][u - 1] != has:
            return "successors({})={!r} but has_edge says {!r}".format(u, w['successors'][u - 1], has)
    if w['is_dag'] != all(a < b for (a, b) in E):
        return "is_dag()={} but the edges are {!r}".format(w['is_dag'], E)
    return None


def main():
    sys.path.insert(0, '.')
    from decimal import Decimal
    from cnfgen.graphs import DirectedGraph

    print("Property C16 promises: for arbitrary (valid or invalid) arguments a")
    print("refused insertion has no side effect, all views agree, and a directed")
    print("graph reports itself acyclic exactly when every inserted edge goes")
    print("from a lower to a higher vertex.\n")

    cases = [
        ((2, 1.0), []),            # only the acyclicity flag is touched
        ((3, Decimal(3)), [(1, 2)]),
        ((1.0, 2), []),            # phantom predecessor
        ((2.5, 3), [(1, 3)]),      # 2.5 is not even a vertex
    ]
    failures = 0
    for args, pre in cases:
        D = DirectedGraph(3)
        D.add_edges_from(pre)
        before = views(D)
        try:
            D.add_edge(*args)
            outcome = 'accepted'
        except (TypeError, ValueError) as e:
            outcome = 'refused with {}: {}'.format(type(e).__name__, e)
        after = views(D)
        print("DirectedGraph(3) with edges {}; add_edge{!r}: {}".format(pre, args, outcome))
        bad = None
        if outcome != 'accepted' and after != before:
            bad = "the call was refused but the graph changed"
        elif disagreement(after):
            bad = "the views disagree"
        if bad:
            failures += 1
            print("  VIOLATION: " + bad)
            for k in before:
                if before[k] != after[k]:
                    print("    {:16s} {!r}  ->  {!r}".format(k, before[k], after[k]))
            if disagreement(after):
                print("    " + disagreement(after))
        else:
            print("  ok")

    if failures:
        print("\nFAIL: {} of {} refused insertions changed the graph".format(failures, len(cases)))
        return 1
    print("\nPASS")
    return 0


if __name__ == '__main__':
    sys.exit(main())
