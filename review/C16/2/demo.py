"""C16 - Graph.add_edge / Graph.remove_edge refuse a non-int numeric endpoint
(whole float 2.0, 2.5, Fraction(2), Decimal(2)) with TypeError only AFTER
having modified half of the data structure.

Run as:  cd WORKDIR && /venv/bin/python _hunt/2/demo.py
Exit status 1 on the defective tree, 0 once a refused call leaves the graph
untouched (or the call is accepted and all views agree).
"""
import sys


def views(G):
    n = G.number_of_vertices()
    N = G.to_networkx()
    return {
        'number_of_edges': G.number_of_edges(),
        'edges()': list(G.edges()),
        'neighbors': [list(G.neighbors(u)) for u in range(1, n + 1)],
        'degree': [G.degree(u) for u in range(1, n + 1)],
        'has_edge matrix': [[G.has_edge(u, v) for v in range(1, n + 1)]
                            for u in range(1, n + 1)],
        'networkx edges': sorted(tuple(sorted(e)) for e in N.edges()),
    }


def disagreement(w):
    """None if the views of one snapshot agree with each other."""
    m = w['number_of_edges']
    if len(w['edges()']) != m:
        return "number_of_edges()={} but edges() lists {}".format(m, w['edges()'])
    if sum(w['degree']) != 2 * m:
        return "number_of_edges()={} but the degrees {} sum to {}".format(
            m, w['degree'], sum(w['degree']))
    for u, nb in enumerate(w['neighbors'], start=1):
        has = [v for v, b in enumerate(w['has_edge matrix'][u - 1], start=1) if b]
        if list(nb) != has:
            return "neighbors({})={!r} but has_edge({},.) is true for {!r}".format(u, nb, u, has)
    return None


def main():
    sys.path.insert(0, '.')
    from fractions import Fraction
    from cnfgen.graphs import Graph

    print("Property C16 promises: for arbitrary (valid or invalid) arguments an")
    print("insertion/removal that is refused has no side effect, and all views")
    print("(edge count, listing, membership, neighbours, degrees) agree.\n")

    cases = [
        ('add_edge', (1, 2.0), []),
        ('add_edge', (1, 2.5), []),
        ('add_edge', (1, Fraction(2)), [(2, 3)]),
        ('remove_edge', (1, 2.0), [(1, 2), (2, 3)]),
    ]
    failures = 0
    for method, args, pre in cases:
        G = Graph(3)
        G.add_edges_from(pre)
        before = views(G)
        try:
            getattr(G, method)(*args)
            outcome = 'accepted'
        except (TypeError, ValueError) as e:
            outcome = 'refused with {}: {}'.format(type(e).__name__, e)
        try:
            after = views(G)
        except Exception as e:      # a view that crashes is a disagreement too
            after = {'crash': repr(e)}
        print("Graph(3) with edges {}; {}{!r}: {}".format(pre, method, args, outcome))
        bad = None
        if 'crash' in after:
            bad = "a view crashes afterwards: " + after['crash']
        elif outcome != 'accepted' and after != before:
            bad = "the call was refused but the graph changed"
        elif disagreement(after):
            bad = "the views disagree"
        if bad:
            failures += 1
            print("  VIOLATION: " + bad)
            for k in before:
                if 'crash' not in after and before[k] != after[k]:
                    print("    {:16s} {!r}  ->  {!r}".format(k, before[k], after[k]))
            if 'crash' not in after and disagreement(after):
                print("    " + disagreement(after))
        else:
            print("  ok")

    if failures:
        print("\nFAIL: {} of {} refused/invalid updates left the graph inconsistent".format(
            failures, len(cases)))
        return 1
    print("\nPASS")
    return 0


if __name__ == '__main__':
    sys.exit(main())
