"""C06 - the DIMACS reader does not check the problem line: any line whose
first character is 'p' and that has four fields is taken as 'p cnf <n> <m>'.

Run as:  cd WORKDIR && /venv/bin/python _hunt/1/demo.py
"""
import io
import os
import sys
import tempfile
import warnings

sys.path.insert(0, os.getcwd())


def read(text):
    from cnfgen.formula.cnf import CNF
    try:
        F = CNF.from_file(io.StringIO(text))
    except ValueError as e:
        return 'ValueError: {}'.format(e)
    return (F.number_of_variables(), [list(c) for c in F])


def read_cli(text):
    """cnfgen -q dimacs <file>"""
    from cnfgen.clitools.cnfgen import cli
    from cnfgen.clitools.cmdline import CLIError
    with tempfile.TemporaryDirectory() as d:
        name = os.path.join(d, 'in.cnf')
        with open(name, 'w', encoding='utf-8') as f:
            f.write(text)
        old = sys.stderr
        sys.stderr = io.StringIO()
        try:
            return cli(['cnfgen', '-q', 'dimacs', name], mode='string')
        except (CLIError, SystemExit) as e:
            return 'refused ({})'.format(type(e).__name__)
        finally:
            sys.stderr = old


if __name__ == '__main__':
    warnings.simplefilter('ignore')
    print("Property C06: given arbitrary text the reader either returns a formula that")
    print("denotes exactly the clauses written in the text, or raises ValueError.")
    print("A text whose problem line is not 'p cnf <n> <m>' is not a DIMACS CNF file:")
    print("ValueError is expected for each of the following texts.\n")

    texts = [
        # old style weighted MaxSAT file: 'p wcnf <vars> <clauses>', every
        # clause starts with its weight.  The clauses written in the text
        # are (x1 v x2) with weight 3 and (-x1) with weight 2.
        "p wcnf 3 2\n3 1 2 0\n2 -1 0\n",
        # a DNF in the classic DIMACS 'sat'-like spelling
        "p dnf 2 1\n1 2 0\n",
        # format tag misspelt / missing blank / arbitrary word starting with p
        "p cfn 2 1\n1 2 0\n",
        "pcnf x 2 1\n1 2 0\n",
        "problem with 2 1\n1 2 0\n",
        "p p 2 1\n1 2 0\n",
    ]
    failures = 0
    for t in texts:
        r = read(t)
        bad = not (isinstance(r, str) and r.startswith('ValueError'))
        failures += bad
        print("{:4s} CNF.from_file({!r})\n       -> {}".format('BAD' if bad else 'ok', t, r))

    t = texts[0]
    out = read_cli(t)
    bad = not out.startswith('refused')
    failures += bad
    print("\n{:4s} cnfgen -q dimacs <file with {!r}>\n       -> {!r}".format(
        'BAD' if bad else 'ok', t, out))
    if bad:
        print("       the weights 3 and 2 of the weighted clauses were read as the literals x3 and x2")

    # sanity: the genuine problem line is of course still accepted
    r = read("p cnf 2 1\n1 2 0\n")
    if r != (2, [[1, 2]]):
        print("BAD  genuine file not read correctly:", r)
        failures += 1

    print()
    if failures:
        print("FAIL: {} text(s) with a wrong problem line were accepted as DIMACS CNF".format(failures))
        sys.exit(1)
    print("PASS")
    sys.exit(0)
