"""C06 - the DIMACS reader converts every field with int() and splits on any
Unicode white space: fields that are not decimal integers of the DIMACS
format ('1_0', Arabic-Indic or full-width digits) are silently read as
numbers, and characters such as U+001C or U+2028 silently separate literals.

Run as:  cd WORKDIR && /venv/bin/python _hunt/2/demo.py
"""
import io
import os
import sys
import warnings

sys.path.insert(0, os.getcwd())


def read(text):
    from cnfgen.formula.cnf import CNF
    try:
        F = CNF.from_file(io.StringIO(text))
    except ValueError as e:
        return 'ValueError: {}'.format(e)
    return (F.number_of_variables(), [list(c) for c in F])


if __name__ == '__main__':
    warnings.simplefilter('ignore')
    print("Property C06: given arbitrary text (valid, truncated, corrupted) the reader either")
    print("returns a formula that denotes exactly the clauses written in the text, or raises")
    print("ValueError.  None of the texts below is DIMACS: ValueError is expected.\n")

    texts = [
        # '1_2' is not a DIMACS literal (e.g. a corrupted '1 2'); it is read as x12
        ("underscore inside a literal", "p cnf 12 1\n1_2 0\n"),
        # the problem line declares '1_0' variables: read as 10
        ("underscore in the problem line", "p cnf 1_0 1\n10 0\n"),
        # the clause terminator spelt 0_0
        ("underscore in the terminator", "p cnf 2 1\n1 2 0_0\n"),
        # ARABIC-INDIC DIGIT ONE / TWO
        ("non ASCII digits as literals", "p cnf 3 1\n\u0661 -\u0662 0\n"),
        # FULLWIDTH DIGIT TWO in the problem line
        ("non ASCII digits in the problem line", "p cnf \uff12 1\n1 2 0\n"),
        # INFORMATION SEPARATOR FOUR between two digits: '1<FS>2' read as '1 2'
        ("control character U+001C glued between literals", "p cnf 12 1\n1\x1c2 0\n"),
        # LINE SEPARATOR and NEXT LINE used as field separators: '1<LS>2<NEL>0'
        ("U+2028 / U+0085 between literals", "p cnf 12 1\n1\u20282\x850\n"),
    ]
    failures = 0
    for what, t in texts:
        r = read(t)
        bad = not (isinstance(r, str) and r.startswith('ValueError'))
        failures += bad
        print("{:4s} {}\n       CNF.from_file({})\n       -> {}".format(
            'BAD' if bad else 'ok', what, ascii(t), r))

    # sanity: ordinary files, with the usual white space and signs, are still read
    for t, expected in [("p cnf 3 2\n1 -2 0\n+3\t0\r\n", (3, [[1, -2], [3]])),
                        ("  p  cnf 2 1 \n 1 \n 2 0", (2, [[1, 2]]))]:
        r = read(t)
        if r != expected:
            print("BAD  genuine file not read correctly:", ascii(t), r)
            failures += 1

    print()
    if failures:
        print("FAIL: {} non-DIMACS text(s) were accepted and turned into a formula".format(failures))
        sys.exit(1)
    print("PASS")
    sys.exit(0)
