"""C06 - literals that pass the check of add_clause but are not plain ints
(bool, float) are written verbatim by the DIMACS writer: the output contains
'True', '1.0', 'p cnf True 1', 'p cnf 1.5 1' ... and cannot be read back.

Run as:  cd WORKDIR && /venv/bin/python _hunt/3/demo.py
"""
import io
import os
import re
import sys
import warnings

sys.path.insert(0, os.getcwd())

CLAUSE_LINE = re.compile(r'^(-?[1-9][0-9]* )*0$')
P_LINE = re.compile(r'^p cnf (0|[1-9][0-9]*) (0|[1-9][0-9]*)$')


def examine(build):
    """Returns a list of complaints (empty: property respected)"""
    from cnfgen.formula.cnf import CNF
    try:
        F = build(CNF)
    except (ValueError, TypeError) as e:
        # a clean refusal of the literals is a perfectly good behaviour
        print("       refused: {}: {}".format(type(e).__name__, e))
        return []
    complaints = []
    n = F.number_of_variables()
    clauses = [list(c) for c in F]
    for header in [False, True]:
        out = io.StringIO()
        F.to_file(out, fileformat='dimacs', export_header=header, export_varnames=False)
        text = out.getvalue()
        if not header:
            print("       to_dimacs text: {!r}".format(text))
        for line in text.splitlines():
            if line.startswith('c'):
                continue
            if line.startswith('p'):
                if not P_LINE.match(line):
                    complaints.append("problem line {!r} does not state the counts".format(line))
            elif not CLAUSE_LINE.match(line):
                complaints.append("line {!r} is neither a clause, nor a comment".format(line))
        try:
            G = CNF.from_file(io.StringIO(text))
        except ValueError as e:
            complaints.append("reading back fails: ValueError: {}".format(e))
            continue
        if G.number_of_variables() != n or [list(c) for c in G] != clauses:
            complaints.append("read back {} variables, clauses {}".format(
                G.number_of_variables(), [list(c) for c in G]))
    return sorted(set(complaints))


def uvn(CNF):
    F = CNF()
    F.update_variable_number(True)
    return F


if __name__ == '__main__':
    warnings.simplefilter('ignore')
    print("Property C06: writing ANY formula (also built by hand) to DIMACS and reading it back")
    print("yields the same number of variables and the same clauses; the problem line states")
    print("the true counts and every other non-clause line is a comment.")
    print("add_clause(..., check=True) promises 'literals must be non-zero integers'.\n")

    cases = [
        ("CNF([[True, -2]])        (bool is an int: isinstance(True, int))",
         lambda CNF: CNF([[True, -2]])),
        ("CNF([[True]])            (the variable count becomes True)",
         lambda CNF: CNF([[True]])),
        ("F.update_variable_number(True)",
         uvn),
        ("CNF([[1.0, -2.0]])       (whole floats)",
         lambda CNF: CNF([[1.0, -2.0]])),
        ("CNF([[1.5]])             (not even a whole number: passes the check)",
         lambda CNF: CNF([[1.5]])),
        ("CNF([[float('nan')]])",
         lambda CNF: CNF([[float('nan')]])),
    ]
    failures = 0
    for what, build in cases:
        print("case " + what)
        complaints = examine(build)
        for c in complaints:
            print("  BAD  " + c)
        if not complaints:
            print("  ok")
        failures += bool(complaints)

    print()
    if failures:
        print("FAIL: {} hand built formula(s) do not survive the DIMACS round trip".format(failures))
        sys.exit(1)
    print("PASS")
    sys.exit(0)
