"""C06 - 'cnfgen dimacs <file>' crashes with AttributeError when stdin is closed

Run as:  cd WORKDIR && /venv/bin/python _hunt/2/demo.py
"""
import os
import subprocess
import sys
import tempfile

LAUNCH = ("import sys, warnings; warnings.simplefilter('ignore'); "
          "sys.path.insert(0, {cwd!r}); "
          "from cnfgen.clitools.{tool} import main; "
          "sys.argv[0] = {tool!r}; main()")


def run(tool, args, close_stdin):
    code = LAUNCH.format(cwd=os.getcwd(), tool=tool)
    kwargs = {}
    if close_stdin:
        kwargs['preexec_fn'] = lambda: os.close(0)      # like  `cmd <&-`
    else:
        kwargs['stdin'] = subprocess.DEVNULL            # like  `cmd </dev/null`
    p = subprocess.run([sys.executable, '-c', code] + args,
                       stdout=subprocess.PIPE, stderr=subprocess.PIPE,
                       text=True, **kwargs)
    return p.returncode, p.stdout, p.stderr


if __name__ == '__main__':
    sys.path.insert(0, os.getcwd())
    d = tempfile.mkdtemp()
    good = os.path.join(d, 'good.cnf')
    bad = os.path.join(d, 'bad.cnf')
    with open(good, 'w') as f:
        f.write('c a valid file\np cnf 3 2\n1 -2 0\n2 3 0\n')
    with open(bad, 'w') as f:
        f.write('p cnf 3 2\n1 -2 0\n2 7 0\n')    # literal out of range

    print("Property C06, entry point 'cnfgen dimacs <file>': the reader either returns")
    print("the formula written in the text or fails with a ValueError (a clean 'ERROR'")
    print("message on the command line) - it never fails in another way.\n")

    expected = 'p cnf 3 2\n1 -2 0\n2 3 0\n'
    failures = []

    for tool, args in [('cnfgen', ['-q', 'dimacs', good]),
                       ('cnfshuffle', ['-q', '-p', '-v', '-c', '-i', good])]:
        for close in (False, True):
            rc, out, err = run(tool, args, close)
            body = ''.join(l + '\n' for l in out.splitlines() if not l.startswith('c'))
            ok = (rc == 0 and body == expected and 'Traceback' not in err)
            where = 'stdin closed   ' if close else 'stdin=/dev/null'
            print("  {:10s} valid file,   {}: exit {}  {}".format(
                tool, where, rc, 'ok' if ok else 'FAILED'))
            if not ok:
                last = err.strip().splitlines()[-1] if err.strip() else ''
                failures.append("{} {} ({}): exit {}, stdout {!r}, stderr ends with {!r}".format(
                    tool, ' '.join(args[:-1]) + ' good.cnf', where.strip(), rc, out, last))

    # a malformed file must give the clean error, not a traceback
    for close in (False, True):
        rc, out, err = run('cnfgen', ['-q', 'dimacs', bad], close)
        ok = (rc != 0 and 'Traceback' not in err and 'Invalid literal' in err)
        where = 'stdin closed   ' if close else 'stdin=/dev/null'
        print("  {:10s} invalid file, {}: exit {}  {}".format(
            'cnfgen', where, rc, 'ok' if ok else 'FAILED'))
        if not ok:
            last = err.strip().splitlines()[-1] if err.strip() else ''
            failures.append("cnfgen -q dimacs bad.cnf ({}): exit {}, stderr ends with {!r}".format(
                where.strip(), rc, last))

    print()
    if failures:
        print("VIOLATION: reading a DIMACS *file* depends on the state of standard input;")
        print("with stdin closed the reader fails with AttributeError and a traceback:")
        for f in failures:
            print("   -", f)
        sys.exit(1)
    print("The DIMACS file is read (or rejected with a clean error) whatever stdin is.")
    sys.exit(0)
