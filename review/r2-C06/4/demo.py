"""C06 - variable-name comments are written raw: a name the output stream
cannot encode aborts the DIMACS writer half way (header values are sanitised,
names are not)

Run as:  cd WORKDIR && /venv/bin/python _hunt/4/demo.py
"""
import os
import subprocess
import sys
import tempfile
import warnings

CHILD = r'''
import sys, warnings
warnings.simplefilter('ignore')
sys.path.insert(0, {cwd!r})
from cnfgen import CNF
F = CNF(description='caf\xe9')          # non-ASCII description: sanitised, fine
x = F.new_variable('caf\xe9')           # non-ASCII variable name
y = F.new_variable('y')
F.add_clause([x, -y])
F.to_file(export_varnames=True)         # standard output
'''

if __name__ == '__main__':
    sys.path.insert(0, os.getcwd())
    warnings.simplefilter('ignore')
    from cnfgen import CNF

    print("Property C06: writing any formula to DIMACS and reading it back yields the same")
    print("variables and clauses, with or without header and VARIABLE-NAME COMMENTS,")
    print("including 'descriptions and names with unusual characters'.\n")

    failures = []

    # ---- (a) a name with a lone surrogate, written to a file by name (UTF-8)
    d = tempfile.mkdtemp()
    path = os.path.join(d, 'f.cnf')
    weird = 'file_\udcff'      # e.g. what os.listdir()/sys.argv give for a non UTF-8 file name
    F = CNF(description=weird)             # the same string as description is harmless
    v = F.new_variable(weird)
    w = F.new_variable('w')
    F.add_clause([v, -w])
    F.add_clause([w])
    for varnames in (False, True):
        label = "(a) to_file(<name>, export_varnames={})".format(varnames)
        try:
            F.to_file(path, export_header=True, export_varnames=varnames)
            G = CNF.from_file(path)
            same = (G.number_of_variables() == 2 and list(G) == [[1, -2], [2]])
            print("  {:50s} {}".format(label, 'ok' if same else 'DIFFERENT FORMULA'))
            if not same:
                failures.append(label + ': read back a different formula')
        except Exception as e:
            left = open(path, 'rb').read().decode('utf-8', 'replace')
            print("  {:50s} FAILED".format(label))
            failures.append("{}: {}: {}\n       file left on disk has {} lines and {} problem line".format(
                label, type(e).__name__, e, len(left.splitlines()),
                'a' if '\np cnf' in '\n' + left else 'NO'))

    # ---- (b) an accented name, written to standard output under an ASCII locale
    env = dict(os.environ, LC_ALL='C', PYTHONCOERCECLOCALE='0')
    env.pop('PYTHONUTF8', None)
    env.pop('PYTHONIOENCODING', None)
    p = subprocess.run([sys.executable, '-X', 'utf8=0', '-c', CHILD.format(cwd=os.getcwd())],
                       env=env, stdout=subprocess.PIPE, stderr=subprocess.PIPE)
    out = p.stdout.decode('ascii', 'replace')
    label = "(b) LC_ALL=C python -X utf8=0: to_file(export_varnames=True)"
    body = [l for l in out.splitlines() if not l.startswith('c')]
    if p.returncode == 0 and body == ['p cnf 2 1', '1 -2 0']:
        print("  {:50s} ok".format(label))
    else:
        print("  {:50s} FAILED".format(label))
        err = p.stderr.decode('ascii', 'replace').strip().splitlines()
        failures.append("{}: exit status {}, {}\n       non-comment lines printed: {}".format(
            label, p.returncode, err[-1] if err else '', body))

    print()
    if failures:
        print("VIOLATION: with variable-name comments the formula is not written:")
        for f in failures:
            print("   -", f)
        sys.exit(1)
    print("Formulas with unusual variable names are written and read back unchanged.")
    sys.exit(0)
