"""C06 - CNF.to_file cannot write DIMACS to an open file whose `.name` is not a string

Run as:  cd WORKDIR && /venv/bin/python _hunt/1/demo.py
"""
import io
import os
import subprocess
import sys
import tempfile
import warnings


def roundtrip_through(make_file, label):
    """Write F to the file object, read it back, compare.

    Returns None when everything is fine, otherwise a description of
    the failure."""
    from cnfgen import CNF
    F = CNF([[1, -2], [2, 3], []], description='demo')
    F.update_variable_number(5)
    fobj = make_file()
    try:
        try:
            F.to_file(fobj)   # default format: DIMACS
        except Exception as e:
            return "{}: to_file raised {}: {}".format(label, type(e).__name__, e)
        if not fobj.seekable():
            return None
        fobj.seek(0)
        G = CNF.from_file(fobj)
        if G.number_of_variables() != F.number_of_variables() \
           or list(G) != list(F):
            return "{}: read back a different formula".format(label)
        return None
    finally:
        try:
            fobj.close()
        except Exception:
            pass


if __name__ == '__main__':
    sys.path.insert(0, os.getcwd())
    warnings.simplefilter('ignore')

    print("Property C06: writing ANY formula to DIMACS (CNF.to_file) and reading it")
    print("back yields the same variables and clauses. `fileorname` is documented")
    print("as 'file name or file object'.\n")

    cases = [
        ('io.StringIO()  (control)', lambda: io.StringIO()),
        ("tempfile.TemporaryFile('w+')  [name is an int]",
         lambda: tempfile.TemporaryFile('w+', encoding='utf-8')),
        ("tempfile.SpooledTemporaryFile(mode='w+')  [name is None]",
         lambda: tempfile.SpooledTemporaryFile(mode='w+', encoding='utf-8')),
        ("os.fdopen(fd, 'w+')  [name is an int]",
         lambda: os.fdopen(os.open(os.path.join(tempfile.mkdtemp(), 'x'),
                                   os.O_RDWR | os.O_CREAT), 'w+')),
    ]

    failures = []
    for label, mk in cases:
        res = roundtrip_through(mk, label)
        print("  {:60s} {}".format(label, 'ok' if res is None else 'FAILED'))
        if res is not None:
            failures.append(res)

    # the very common "pipe the formula into a solver" idiom
    from cnfgen import CNF
    p = subprocess.Popen([sys.executable, '-c',
                          'import sys; sys.stdout.write(sys.stdin.read())'],
                         stdin=subprocess.PIPE, stdout=subprocess.PIPE,
                         text=True)
    label = 'subprocess.Popen(..., stdin=PIPE, text=True).stdin  [name is an int]'
    try:
        CNF([[1, -2], [2]]).to_file(p.stdin, export_header=False)
        p.stdin.close()
        out = p.stdout.read()
        ok = (out == 'p cnf 2 2\n1 -2 0\n2 0\n')
        if not ok:
            failures.append(label + ': wrong text received: ' + repr(out))
    except Exception as e:
        ok = False
        failures.append("{}: to_file raised {}: {}".format(label, type(e).__name__, e))
        try:
            p.stdin.close()
        except Exception:
            pass
    p.wait()
    print("  {:60s} {}".format(label[:60], 'ok' if ok else 'FAILED'))

    print()
    if failures:
        print("VIOLATION: the formula could not be written to DIMACS at all:")
        for f in failures:
            print("   -", f)
        sys.exit(1)
    print("All file objects accepted, DIMACS round trip is the identity.")
    sys.exit(0)
