"""C06 - the same DIMACS text is read as different formulas depending on how
it reaches the reader (file name vs. stdin / StringIO): a lone CR ends a line
in one case and is a blank inside the line in the other

Run as:  cd WORKDIR && /venv/bin/python _hunt/3/demo.py
"""
import io
import os
import subprocess
import sys
import tempfile
import warnings

LAUNCH = ("import sys, warnings; warnings.simplefilter('ignore'); "
          "sys.path.insert(0, {cwd!r}); "
          "from cnfgen.clitools.cnfgen import main; "
          "sys.argv[0] = 'cnfgen'; main()")


def lib_read(source):
    from cnfgen import CNF
    try:
        F = CNF.from_file(source)
        return (F.number_of_variables(), [list(c) for c in F])
    except ValueError as e:
        return 'ValueError: ' + str(e)


def cli_read(path, through_stdin):
    code = LAUNCH.format(cwd=os.getcwd())
    if through_stdin:
        with open(path, 'rb') as f:
            p = subprocess.run([sys.executable, '-c', code, '-q', 'dimacs'],
                               stdin=f, stdout=subprocess.PIPE,
                               stderr=subprocess.PIPE, text=True)
    else:
        p = subprocess.run([sys.executable, '-c', code, '-q', 'dimacs', path],
                           stdin=subprocess.DEVNULL, stdout=subprocess.PIPE,
                           stderr=subprocess.PIPE, text=True)
    if p.returncode != 0:
        msg = [l for l in p.stderr.splitlines() if 'ERROR' in l]
        return 'ValueError: ' + (msg[0].split('ERROR: ')[-1] if msg else p.stderr[-80:])
    lines = p.stdout.splitlines()
    n = int(lines[0].split()[2])
    return (n, [[int(x) for x in l.split()[:-1]] for l in lines[1:]])


if __name__ == '__main__':
    sys.path.insert(0, os.getcwd())
    warnings.simplefilter('ignore')

    print("Property C06: given arbitrary text the reader either returns a formula that")
    print("denotes EXACTLY THE CLAUSES WRITTEN IN THE TEXT or raises ValueError; it never")
    print("accepts a wrong clause count. One text cannot denote two different things.\n")

    texts = [
        ('old-Mac line ends',
         'c made on an old Mac\rp cnf 2 2\r1 2 0\r-1 0\r'),
        ('unix file, one comment line ended by CR; header says 1 clause',
         'p cnf 2 1\n1 2 0\nc note\r-1 0\n'),
        ('unix file, one comment line ended by CR; header says 2 clauses',
         'p cnf 2 2\n1 2 0\nc note\r-1 0\n'),
    ]

    d = tempfile.mkdtemp()
    disagreements = 0
    for i, (what, text) in enumerate(texts):
        path = os.path.join(d, 't{}.cnf'.format(i))
        with open(path, 'wb') as f:
            f.write(text.encode('ascii'))
        results = [
            ('CNF.from_file(<file name>)    ', lib_read(path)),
            ('CNF.from_file(StringIO(text)) ', lib_read(io.StringIO(text))),
            ('cnfgen dimacs <file>          ', cli_read(path, False)),
            ('cnfgen dimacs  < <file>       ', cli_read(path, True)),
        ]
        print("text {}: {}\n      {!r}".format(i + 1, what, text))
        for label, res in results:
            print("      {} -> {}".format(label, res))
        kinds = set(repr(r) if isinstance(r, tuple) else 'ValueError' for _, r in results)
        if len(kinds) > 1:
            disagreements += 1
            print("      ==> the same text is read in {} different ways".format(len(kinds)))
        print()

    if disagreements:
        print("VIOLATION: for {} of {} texts the result depends on the way the text is handed"
              .format(disagreements, len(texts)))
        print("to the reader; in particular text 2 is ACCEPTED as the 1-clause formula [[1, 2]]")
        print("through stdin/StringIO although, read by file name, it holds 2 clauses against")
        print("a declared count of 1 (and text 3 the other way round).")
        sys.exit(1)
    print("Every text is read in the same way whatever the channel.")
    sys.exit(0)
