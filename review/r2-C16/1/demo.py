"""CompleteBipartiteGraph does not validate vertices at all.

Run as:  cd WORKDIR && /venv/bin/python _hunt/1/demo.py
"""
import sys


def refused(call, *args):
    """True when the call raises ValueError/TypeError (= is refused)"""
    try:
        call(*args)
    except (ValueError, TypeError):
        return True
    return False


if __name__ == '__main__':
    sys.path.insert(0, '.')
    from cnfgen.graphs import BipartiteGraph, CompleteBipartiteGraph

    print("Property C16 promises: insertions the graph type does not allow")
    print("(vertices out of range, non integer vertices) are refused, and all")
    print("views (edge listing, membership test, neighbour lists, degrees)")
    print("agree with each other.\n")

    problems = []
    B = CompleteBipartiteGraph(2, 3)   # what 'cnfgen ... --bcomplete 2 3' builds
    P = BipartiteGraph(2, 3)           # reference behaviour of the base class

    # 1. insertions that a (2,3)-bipartite graph cannot contain
    for u, v in [(9, 9), (0, 1), (1, 2.5), (1.5, 1)]:
        assert refused(P.add_edge, u, v)          # BipartiteGraph refuses
        if not refused(B.add_edge, u, v):
            problems.append(
                "add_edge({!r},{!r}) was silently accepted".format(u, v))

    # 2. membership test vs. edge listing
    listing = list(B.edges())
    for u, v in [(1.5, 1), (1, 2.5), (2.0000001, 3)]:
        assert P.has_edge(u, v) is False
        he = B.has_edge(u, v)
        inview = (u, v) in B.edges()
        inlist = (u, v) in listing
        if he != inlist or inview != inlist:
            problems.append(
                "has_edge({0!r},{1!r})={2}, ({0!r},{1!r}) in edges()={3}, "
                "but the edge listing {4} it".format(
                    u, v, he, inview,
                    "contains" if inlist else "does not contain"))

    # 3. neighbour lists and degrees of vertices that do not exist
    for name, w in [('right_neighbors', 99), ('left_neighbors', 99),
                    ('right_degree', 0), ('left_degree', -4)]:
        assert refused(getattr(P, name), w)       # BipartiteGraph refuses
        if not refused(getattr(B, name), w):
            problems.append("{}({}) = {!r} for a vertex not in the graph, "
                            "while has_edge says it has no edge".format(
                                name, w, getattr(B, name)(w)))

    if problems:
        print("VIOLATED on CompleteBipartiteGraph(2,3):")
        for p in problems:
            print("  -", p)
        sys.exit(1)
    print("OK: CompleteBipartiteGraph validates its vertices")
    sys.exit(0)
