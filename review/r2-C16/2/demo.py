"""BipartiteGraph.from_networkx numbers the vertices by insertion order of the
networkx nodes, so that the conversion from networkx does not preserve the
edges (and two equal networkx graphs are converted to different graphs).

Run as:  cd WORKDIR && /venv/bin/python _hunt/2/demo.py
"""
import sys
import io


if __name__ == '__main__':
    sys.path.insert(0, '.')
    import networkx
    from cnfgen.graphs import BipartiteGraph, Graph, readGraph

    print("Property C16 promises: conversion to and from networkx preserves")
    print("vertices and edges. (BipartiteGraph.normalize: 'If the vertices in")
    print("the original graph have some kind of order, the order is preserved')\n")

    problems = []

    # A bipartite networkx graph built from its edges, as users do.
    # Left side {1,2,3}, right side {4,5}: exactly the labels that
    # BipartiteGraph.to_networkx() itself produces for a (3,2) graph.
    edges = [(1, 4), (3, 4), (2, 5)]
    G1 = networkx.Graph()
    G1.add_edges_from(edges)                 # node order 1,4,3,2,5
    networkx.set_node_attributes(
        G1, {1: 0, 2: 0, 3: 0, 4: 1, 5: 1}, 'bipartite')

    # The same graph, nodes declared first
    G2 = networkx.Graph()
    G2.add_nodes_from([1, 2, 3], bipartite=0)
    G2.add_nodes_from([4, 5], bipartite=1)
    G2.add_edges_from(edges)
    assert networkx.utils.graphs_equal(G1, G2)   # equal for networkx

    B1 = BipartiteGraph.from_networkx(G1)
    B2 = BipartiteGraph.from_networkx(G2)
    expected = sorted((u, v - 3) for (u, v) in edges)
    print("networkx edges              :", sorted(edges))
    print("expected bipartite edges    :", expected)
    print("from_networkx(G1).edges()   :", list(B1.edges()))
    print("from_networkx(G2).edges()   :", list(B2.edges()))
    if list(B1.edges()) != expected:
        problems.append("from_networkx(G1) has edges {} instead of {}".format(
            list(B1.edges()), expected))
    if list(B1.edges()) != list(B2.edges()):
        problems.append("two equal networkx graphs give different BipartiteGraph")

    # round trip networkx -> cnfgen -> networkx
    back = sorted(tuple(sorted(e)) for e in B1.to_networkx().edges())
    print("G1 -> BipartiteGraph -> nx  :", back)
    if back != sorted(edges):
        problems.append(
            "round trip nx->BipartiteGraph->nx turns edges {} into {}".format(
                sorted(edges), back))

    # the simple graph conversion of the very same object is order independent
    assert list(Graph.from_networkx(G1).edges()) == sorted(edges)

    # same thing through a GML file with nodes listed in another order
    gml = """graph [
      node [ id 2 label "2" bipartite 0 ]
      node [ id 1 label "1" bipartite 0 ]
      node [ id 3 label "3" bipartite 1 ]
      edge [ source 2 target 3 ]
    ]
    """
    S = readGraph(io.StringIO(gml), 'simple', 'gml')
    B = readGraph(io.StringIO(gml), 'bipartite', 'gml')
    print("GML file read as simple     :", list(S.edges()))
    print("GML file read as bipartite  :", list(B.edges()),
          "(left vertex 2 -- first right vertex expected, i.e. [(2, 1)])")
    if list(B.edges()) != [(2, 1)]:
        problems.append("GML: edge 2--3 became {}".format(list(B.edges())))

    if problems:
        print("\nVIOLATED:")
        for p in problems:
            print("  -", p)
        sys.exit(1)
    print("\nOK: conversion from networkx preserves vertices and edges")
    sys.exit(0)
