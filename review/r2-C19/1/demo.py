#!/usr/bin/env python
"""C19 - the constraint builders of CNF rewrite the caller's sequence of
literals in place (and therefore refuse every sequence they cannot write to).

Run as:  cd WORKDIR && /venv/bin/python _hunt/1/demo.py
Exit status 1 on the defective tree, 0 once repaired.
"""
import os
import sys
import warnings

sys.path.insert(0, os.getcwd())

if __name__ == '__main__':
    warnings.simplefilter('ignore')
    from enum import IntEnum
    from cnfgen.formula.cnf import CNF
    from cnfgen.graphs import BipartiteGraph, CompleteBipartiteGraph
    from cnfgen.transformations.substitutions import VariableCompression

    class V(IntEnum):
        """Named literals: an integral type, accepted by the formula"""
        X = 1
        Y = 2
        Z = 3

    problems = []

    print("PROMISED: passing lists of literals to the constraint builders")
    print("          leaves those arguments unchanged.")
    print()

    # ---- (A) the caller's list is rewritten in place --------------------
    builders = [
        ('add_parity(lits, 1)',        lambda F, l: F.add_parity(l, 1)),
        ('add_linear(lits, ">=", 2)',  lambda F, l: F.add_linear(l, '>=', 2)),
        ('add_linear(lits, "!=", 1)',  lambda F, l: F.add_linear(l, '!=', 1)),
        ('cardinality_eq(lits, 1)',    lambda F, l: F.cardinality_eq(l, 1)),
        ('cardinality_leq(lits, 1)',   lambda F, l: F.cardinality_leq(l, 1)),
        ('add_loose_majority(lits)',   lambda F, l: F.add_loose_majority(l)),
        ('add_strict_minority(lits)',  lambda F, l: F.add_strict_minority(l)),
    ]
    for text, call in builders:
        for lits in ([V.X, V.Y, V.Z], [True, 2, 3]):
            before_repr = repr(lits)
            before_objs = list(lits)
            call(CNF(), lits)
            same = all(a is b for a, b in zip(before_objs, lits))
            if not same or repr(lits) != before_repr:
                problems.append(text)
                print("CHANGED  {:28s} list was {}  now is {}".format(
                    text, before_repr, repr(lits)))

    # ---- (B) sequences that cannot be written to are refused ------------
    print()
    print("Same cause, other face: a sequence that cannot be overwritten is")
    print("refused with a misleading message (the docstrings say 'array-like').")
    for seq in ((1, 2, 3), range(1, 4)):
        for text, call in builders[:2]:
            try:
                call(CNF(), seq)
            except Exception as e:
                problems.append(text)
                print("REFUSED  {:28s} lits={!r}: {}: {}".format(
                    text, seq, type(e).__name__, e))

    # ---- (C) consequence for a transformation ---------------------------
    print()
    print("PROMISED: applying any transformation returns a new formula.")
    F = CNF([[1, -2], [2, 3]])
    B = BipartiteGraph(3, 2)
    for u in (1, 2, 3):
        B.add_edge(u, 1)
        B.add_edge(u, 2)
    K = CompleteBipartiteGraph(3, 2)      # same graph, other class
    for func in ('xor', 'maj'):
        expected = list(VariableCompression(F, B, func))
        try:
            got = list(VariableCompression(F, K, func))
            if got != expected:
                problems.append('VariableCompression differs')
                print("DIFFERENT result with CompleteBipartiteGraph")
        except Exception as e:
            problems.append('VariableCompression')
            print("FAILED   VariableCompression(F, CompleteBipartiteGraph(3,2), "
                  "{!r}): {}: {}".format(func, type(e).__name__, e))
            print("         (works with the equal BipartiteGraph(3,2) + all edges: "
                  "{} clauses)".format(len(expected)))

    # ---- (D) the same from the command line -----------------------------
    from cnfgen.clitools.cnfgen import cli
    from cnfgen.clitools.cmdline import CLIError
    import io
    import contextlib
    argv = ['cnfgen', '-q', 'php', '3', '2', '-T', 'xorcomp', 'complete', '6', '3']
    err = io.StringIO()
    try:
        with contextlib.redirect_stderr(err):
            text = cli(argv, mode='string')
        print("OK       {} -> {}".format(" ".join(argv), text.splitlines()[0]))
    except (CLIError, SystemExit, Exception) as e:
        problems.append('cli')
        msg = (str(e) or err.getvalue()).strip().splitlines()
        print("FAILED   {}".format(" ".join(argv)))
        print("         {}: {}".format(type(e).__name__, msg[0] if msg else ''))

    print()
    if problems:
        print("DEFECT: {} observations contradict the property".format(len(problems)))
        sys.exit(1)
    print("all fine: arguments untouched, immutable sequences accepted")
    sys.exit(0)
