#!/usr/bin/env python
"""C19 - AndSubstitution never returns the new formula when the input has a
negative literal: it dies with TypeError, so there is neither a result nor a
'transformation N' header entry.

Run as:  cd WORKDIR && /venv/bin/python _hunt/2/demo.py
Exit status 1 on the defective tree, 0 once repaired.
"""
import os
import sys
import warnings
from itertools import product

sys.path.insert(0, os.getcwd())


def models(F, n):
    """Set of assignments (tuples of bool, index 0 unused) satisfying F"""
    res = set()
    for bits in product([False, True], repeat=n):
        a = (None,) + bits
        if all(any(a[abs(l)] == (l > 0) for l in cls) for cls in F):
            res.add(bits)
    return res


if __name__ == '__main__':
    warnings.simplefilter('ignore')
    from cnfgen.formula.cnf import CNF
    from cnfgen.transformations.substitutions import AndSubstitution
    from cnfgen.transformations.substitutions import OrSubstitution

    print("PROMISED: applying any transformation returns a new formula, leaves")
    print("          the input untouched, and the result's header gains one")
    print("          numbered 'transformation' entry.")
    print()

    k = 2
    F = CNF([[1, -2], [2]], description='my formula')
    before = ([list(c) for c in F], F.number_of_variables(),
              list(F.header.items()))

    # the sibling works, for comparison
    G = OrSubstitution(F, k)
    print("OrSubstitution(F,2)  ->", G.header.get('transformation 1'))

    try:
        H = AndSubstitution(F, k)
    except Exception as e:
        print("AndSubstitution(F,2) -> {}: {}".format(type(e).__name__, e))
        print()
        print("DEFECT: no new formula, no header entry (every formula with a")
        print("        negated variable hits this; AndSubstitution(CNF([[1,2]]),2)")
        print("        with positive literals only works:",
              list(AndSubstitution(CNF([[1, 2]]), 2)), ")")
        sys.exit(1)

    ok = True
    after = ([list(c) for c in F], F.number_of_variables(),
             list(F.header.items()))
    if after != before:
        print("input formula changed"); ok = False
    if H.header.get('transformation 1') != "Substitution with AND of arity 2":
        print("header entry missing/wrong:", dict(H.header)); ok = False
    if H.header.get('description') != 'my formula':
        print("description lost"); ok = False
    # semantics: x_i := x_{i,1} AND x_{i,2}
    n = F.number_of_variables()
    good = set()
    for bits in product([False, True], repeat=n * k):
        orig = tuple(all(bits[i * k:(i + 1) * k]) for i in range(n))
        if orig in models(F, n):
            good.add(bits)
    if models(H, n * k) != good or H.number_of_variables() != n * k:
        print("result is not the AND-substituted formula:", list(H)); ok = False
    print("AndSubstitution(F,2) ->", list(H), H.header.get('transformation 1'))
    sys.exit(0 if ok else 1)
