#!/usr/bin/env python
"""C19 - TseitinFormula: the header says 'even charge' for a formula whose
total charge is odd (and the other way round) when the `charges` argument is
used the way the docstring allows (longer than the vertex list, or made of
non-boolean truth values).

Run as:  cd WORKDIR && /venv/bin/python _hunt/3/demo.py
Exit status 1 on the defective tree, 0 once repaired.
"""
import os
import sys
import warnings

sys.path.insert(0, os.getcwd())

if __name__ == '__main__':
    warnings.simplefilter('ignore')
    from cnfgen.families.tseitin import TseitinFormula
    from cnfgen.graphs import Graph

    print("PROMISED: ... so a formula's comment header always tells how it")
    print("          was produced.   (docstring of TseitinFormula: charges")
    print("          longer than the vertices -> 'excessive values will be")
    print("          ignored'; 'any non-boolean value in charges is interpreted")
    print("          as boolean via bool cast')")
    print()

    G = Graph.complete_graph(3)            # triangle
    reference = TseitinFormula(G, [True, False, False])
    print("reference  charges=[True, False, False]")
    print("    header:", reference.header['description'])

    bad = 0
    cases = [
        # (charges, effective charges per the docstring)
        ([True, False, False, True], [True, False, False]),   # 4th value ignored
        ([2, 0, 0],                  [True, False, False]),   # bool(2) is True
        ([1, 1, 1, 1],               [True, True, True]),     # 4th value ignored
        ([1, 0, 2],                  [True, False, True]),    # even, told 'odd'
        ([3, 3, 0],                  [True, True, False]),    # even, told 'even'
    ]
    for charges, effective in cases:
        given = list(charges)
        F = TseitinFormula(G, charges)
        same_as = TseitinFormula(G, effective)
        assert list(F) == list(same_as)          # the clauses follow the docstring
        assert charges == given                  # (the argument is left alone)
        real = 'odd' if sum(effective) % 2 == 1 else 'even'
        told = F.header['description']
        verdict = 'ok' if told.endswith('with {} charge'.format(real)) else 'WRONG'
        if verdict == 'WRONG':
            bad += 1
        print("charges={!r:28} total charge is {:4s} header: '{}'  {}".format(
            charges, real, told, verdict))

    print()
    if bad:
        print("DEFECT: {} formulas carry a header that states the opposite "
              "parity of the charge they were built with".format(bad))
        print("        (e.g. the unsatisfiable odd-charged triangle is labelled "
              "'even charge')")
        sys.exit(1)
    print("all headers tell the parity of the charge actually used")
    sys.exit(0)
