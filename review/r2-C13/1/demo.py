"""C13 - dense fallback of RandomKCNF / RandomKXOR materialises range(1, n+1)
even for k = 0: with n >= 2**63 the answer is an OverflowError, both where
a ValueError is promised (m beyond the maximum) and where the request is
legal and must be served.

run as:  cd WORKDIR && /venv/bin/python _hunt/1/demo.py
"""
import sys
import random
import warnings


def twenty_equal_flips(seed):
    random.seed(seed)
    return len(set(random.randint(0, 1) for _ in range(20))) == 1


def unlucky_seed():
    """A seed for which the 20 sparse attempts of RandomKXOR(0, n, 2) all
    draw the same constant b, so that the dense fallback is entered"""
    if twenty_equal_flips(381347):
        return 381347
    for s in range(10**8):
        if twenty_equal_flips(s):
            return s
    raise RuntimeError("no unlucky seed found")


if __name__ == '__main__':
    sys.path.insert(0, '.')
    warnings.simplefilter('ignore')
    from cnfgen import RandomKCNF, RandomKXOR
    from cnfgen.clitools import cnfgen, CLIError

    N = 2**63
    failures = 0

    def outcome(fn, *args, **kwargs):
        try:
            F = fn(*args, **kwargs)
            return 'formula', F
        except BaseException as e:   # report whatever comes
            return type(e).__name__, e

    # (a) m beyond the maximum: a ValueError is promised
    #     0-clauses over n variables: just one (the empty clause)
    #     0-parities over n variables: just two ( 0=0 and 0=1 )
    for fn, args, avail in [(RandomKCNF, (0, N, 2), 1),
                            (RandomKXOR, (0, N, 3), 2)]:
        kind, val = outcome(fn, *args, seed=1)
        print("{}{}: only {} available, ValueError promised -> got {} {}".format(
            fn.__name__, args, avail, kind, val if kind != 'formula' else ''))
        if kind != 'ValueError':
            failures += 1
        # the very same requests with small n behave as promised
        kind, val = outcome(fn, args[0], 5, args[2], seed=1)
        assert kind == 'ValueError', kind

    # (b) a legal request (m = 2 = number of 0-parities) must be served,
    #     for all seeds
    s = unlucky_seed()
    kind, val = outcome(RandomKXOR, 0, 5, 2, seed=s)
    assert kind == 'formula' and list(val.clauses()) == [[]]
    for seed in (s - 1, s):
        kind, val = outcome(RandomKXOR, 0, N, 2, seed=seed)
        print("RandomKXOR(0, 2**63, 2, seed={}): legal request, formula promised -> got {} {}".format(
            seed, kind,
            list(val.clauses()) if kind == 'formula' else val))
        if kind != 'formula' or val.number_of_variables() != N \
           or list(val.clauses()) != [[]]:
            failures += 1

    # (c) the same on the command line
    for seed in (s - 1, s):
        argv = ['cnfgen', '-q', '-S', seed, 'randkxor', 0, N, 2]
        kind, val = outcome(cnfgen, argv, mode='string')
        print("cnfgen -q -S {} randkxor 0 {} 2 -> {} {!r}".format(
            seed, N, kind, val if kind != 'formula' else val))
        if kind != 'formula' or 'p cnf {} 1'.format(N) not in val:
            failures += 1

    if failures:
        print("FAIL: {} checks contradict property C13".format(failures))
        sys.exit(1)
    print("OK")
    sys.exit(0)
