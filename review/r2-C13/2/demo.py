"""C13 (borderline, interpreter boundary) - RandomKCNF / RandomKXOR fail with
a ValueError on legal requests (k <= n, m within the maximum) as soon as
n has more decimal digits than python converts to text (4300 by default):
the description of the formula is formatted eagerly.

run as:  cd WORKDIR && /venv/bin/python _hunt/2/demo.py
"""
import sys
import warnings

if __name__ == '__main__':
    sys.path.insert(0, '.')
    warnings.simplefilter('ignore')
    from cnfgen import RandomKCNF, RandomKXOR

    if not hasattr(sys, 'get_int_max_str_digits'):
        print("this interpreter has no limit on int -> str conversion")
        sys.exit(0)
    sys.set_int_max_str_digits(4300)   # the default of python >= 3.11

    failures = 0
    small = 10**4299      # 4300 digits: fine
    large = 10**4300      # 4301 digits
    for fn, per_constraint in ((RandomKCNF, 1), (RandomKXOR, 4)):
        for n, label in ((small, '10**4299'), (large, '10**4300')):
            for m in (0, 2):
                try:
                    F = fn(3, n, m, seed=1)
                    ok = (F.number_of_variables() == n
                          and len(F) == m * per_constraint)
                    res = 'formula, shape {}'.format('right' if ok else 'WRONG')
                except Exception as e:
                    ok = False
                    res = '{}: {}'.format(type(e).__name__, str(e)[:60])
                print('{}(3, {}, {}): k<=n and m within the maximum, '
                      'a formula is promised -> {}'.format(
                          fn.__name__, label, m, res))
                if not ok:
                    failures += 1
    if failures:
        print("FAIL: {} legal requests were refused with an exception".format(failures))
        sys.exit(1)
    print("OK")
    sys.exit(0)
