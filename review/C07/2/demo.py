"""C07 - an abbreviated option of the formula ('op --s' = 'op --smart')
is mistaken for '--seed' by the early scan of the command line; the
scan fails on its "value", gives up silently, and the random graph
argument is built from an unseeded generator although '--seed N' was
given and is reported in the header.

Run as:  cd WORKDIR && /venv/bin/python _hunt/2/demo.py
Exit status 0 = property holds, 1 = property violated.
"""
if __name__ == '__main__':
    import os
    import sys
    import io
    import hashlib
    import subprocess
    import contextlib
    import warnings

    sys.dont_write_bytecode = True
    warnings.simplefilter('ignore')
    ROOT = os.getcwd()
    sys.path.insert(0, ROOT)

    def fresh_process(tool, args, hashseed):
        env = dict(os.environ)
        env['PYTHONPATH'] = ROOT
        env['PYTHONHASHSEED'] = str(hashseed)
        env['PYTHONDONTWRITEBYTECODE'] = '1'
        p = subprocess.run([sys.executable, '-W', 'ignore',
                            '-m', 'cnfgen.clitools.' + tool] + args,
                           cwd=ROOT, env=env,
                           stdout=subprocess.PIPE, stderr=subprocess.PIPE)
        return p.returncode, p.stdout

    def digest(data):
        return hashlib.md5(data).hexdigest()[:12]

    print("PROPERTY C07: running cnfgen/pbgen twice with the same arguments")
    print("and the same --seed value produces byte-identical output, whatever")
    print("randomness the graph arguments (gnp, gnm, gnd, ...) use;")
    print("quantifier: for all command lines.")
    print()

    failures = 0
    RUNS = 4
    cases = [
        # '--s' is the (unique, hence legal) abbreviation of '--smart'
        # in the parser of the 'op' formula
        ('cnfgen', ['--seed', '7', 'op', '--s', 'gnp', '10', '.5']),
        ('cnfgen', ['-S', '7', '-q', 'op', '--s', 'gnm', '8', '12', 'addedges', '3']),
        ('pbgen', ['--seed', '7', 'op', '--s', 'gnd', '10', '3']),
        # controls: option spelled in full / in its short form
        ('cnfgen', ['--seed', '7', 'op', '--smart', 'gnp', '10', '.5']),
        ('cnfgen', ['--seed', '7', 'op', '-s', 'gnp', '10', '.5']),
    ]
    for tool, args in cases:
        outs = [fresh_process(tool, args, hashseed=0) for _ in range(RUNS)]
        codes = set(rc for rc, _ in outs)
        digests = [digest(out) for _, out in outs]
        same = len(set(digests)) == 1
        print("{} {}".format(tool, " ".join(args)))
        print("   exit codes {}, stdout digests of {} fresh runs: {}".format(
            sorted(codes), RUNS, " ".join(digests)))
        if codes != {0}:
            print("   (command refused: nothing to compare)")
            continue
        if same:
            print("   OK: identical")
        else:
            print("   VIOLATION: same arguments, same seed, different outputs")
            failures += 1

    rc, out = fresh_process('cnfgen', ['--seed', '7', 'op', '--s', 'gnp', '10', '.5'], 0)
    lines = [l for l in out.decode().splitlines()
             if 'random seed' in l or 'description' in l]
    print()
    print("the command is accepted and the header claims the seed:")
    for l in lines:
        print("   " + l)

    # what the early scan makes of this command line (informative only:
    # a repair may well remove this helper)
    try:
        from cnfgen.clitools.cmdline import seed_from_command_line
        argv = ['--seed', '7', 'op', '--s', 'gnp', '10', '.5']
        early = seed_from_command_line(argv)
        print()
        print("seed_from_command_line({!r}) = {!r}   (7 expected)".format(argv, early))
    except ImportError:
        pass

    # in process, through the library entry point
    from cnfgen.clitools.cnfgen import cli
    import random
    argv = ['cnfgen', '--seed', '7', 'op', '--s', 'gnp', '10', '.5']
    res = []
    for _ in range(2):
        random.seed()   # whatever state the caller's program left
        with contextlib.redirect_stderr(io.StringIO()):
            res.append(cli(list(argv), mode='string'))
    print("in process: cli({!r}, mode='string') twice".format(argv))
    if res[0] == res[1]:
        print("   OK: identical")
    else:
        print("   VIOLATION: the two strings differ")
        failures += 1

    print()
    if failures:
        print("FAIL: {} violations of C07".format(failures))
        sys.exit(1)
    print("PASS")
    sys.exit(0)
