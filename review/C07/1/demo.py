"""C07 - '--seed' given inside a cluster of short options ('-qS 5') is
not seen by the early seeding, so random graph arguments are drawn from
an unseeded generator and the output changes at every run.

Run as:  cd WORKDIR && /venv/bin/python _hunt/1/demo.py
Exit status 0 = property holds, 1 = property violated.
"""
if __name__ == '__main__':
    import os
    import sys
    import io
    import hashlib
    import subprocess
    import contextlib
    import warnings

    sys.dont_write_bytecode = True
    warnings.simplefilter('ignore')
    ROOT = os.getcwd()
    sys.path.insert(0, ROOT)

    def fresh_process(tool, args, hashseed):
        env = dict(os.environ)
        env['PYTHONPATH'] = ROOT
        env['PYTHONHASHSEED'] = str(hashseed)
        env['PYTHONDONTWRITEBYTECODE'] = '1'
        p = subprocess.run([sys.executable, '-W', 'ignore',
                            '-m', 'cnfgen.clitools.' + tool] + args,
                           cwd=ROOT, env=env,
                           stdout=subprocess.PIPE, stderr=subprocess.PIPE)
        return p.returncode, p.stdout

    def digest(data):
        return hashlib.md5(data).hexdigest()[:12]

    print("PROPERTY C07: running cnfgen/pbgen twice with the same arguments")
    print("and the same --seed value produces byte-identical output, whatever")
    print("randomness the graph arguments (gnp, gnm, gnd, ...) use.")
    print()

    failures = 0
    RUNS = 4

    # the seed is the last member of a cluster of short options: plain
    # argparse/Unix usage, accepted by the parsers of cnfgen and pbgen
    cases = [
        ('cnfgen', ['-qS', '5', 'kcolor', '3', 'gnp', '10', '.5']),
        ('cnfgen', ['-qS5', 'kcolor', '3', 'gnp', '10', '.5']),
        ('cnfgen', ['-vS', '5', 'tseitin', 'first', 'gnd', '10', '3']),
        ('cnfgen', ['-lS', '5', 'php', 'glrd', '4', '5', '2']),
        ('pbgen', ['-qS', '5', 'kcolor', '3', 'gnm', '10', '20']),
        # control: same thing with the options spelled separately
        ('cnfgen', ['-q', '-S', '5', 'kcolor', '3', 'gnp', '10', '.5']),
    ]
    for tool, args in cases:
        outs = [fresh_process(tool, args, hashseed=0) for _ in range(RUNS)]
        codes = set(rc for rc, _ in outs)
        digests = [digest(out) for _, out in outs]
        same = len(set(digests)) == 1
        print("{} {}".format(tool, " ".join(args)))
        print("   exit codes {}, stdout digests of {} fresh runs: {}".format(
            sorted(codes), RUNS, " ".join(digests)))
        if codes != {0}:
            print("   (command refused: nothing to compare)")
            continue
        if same:
            print("   OK: identical")
        else:
            print("   VIOLATION: same arguments, same seed, different outputs")
            failures += 1

    # the seed was understood by the tool: the header says so
    rc, out = fresh_process('cnfgen', ['-vS', '5', 'kcolor', '3', 'gnp', '10', '.5'], 0)
    seedline = [l for l in out.decode().splitlines() if 'random seed' in l]
    print()
    print("header of 'cnfgen -vS 5 kcolor 3 gnp 10 .5' contains:", seedline)

    # same thing inside one process, through the library entry point
    from cnfgen.clitools.cnfgen import cli
    argv = ['cnfgen', '-qS', '5', 'kcolor', '3', 'gnp', '10', '.5']
    with contextlib.redirect_stderr(io.StringIO()):
        a = cli(list(argv), mode='string')
        b = cli(list(argv), mode='string')
    print()
    print("in process: cli({!r}, mode='string') twice".format(argv))
    if a == b:
        print("   OK: identical")
    else:
        print("   VIOLATION: the two strings differ ({} vs {})".format(
            digest(a.encode()), digest(b.encode())))
        failures += 1

    print()
    if failures:
        print("FAIL: {} violations of C07".format(failures))
        sys.exit(1)
    print("PASS")
    sys.exit(0)
