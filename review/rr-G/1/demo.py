"""'cnfgen --tutorial >&-' typed at a terminal shows nothing.

Run as:  cd /tmp/rr-G && /venv/bin/python _review/1/demo.py
"""
import os
import pty
import select
import subprocess
import sys
import time

CODE = ("import sys, os, warnings; warnings.simplefilter('ignore');"
        "sys.path.insert(0, os.getcwd());"
        "sys.argv = [{tool!r}, {opt!r}];"
        "from cnfgen.clitools.{tool} import main; main()")


def close_stdout():
    os.close(1)


def run(tool, opt, stderr_is_terminal):
    """Run `<tool> <opt> >&-`; give (exit status, what arrived on stderr)"""
    env = dict(os.environ, PAGER='cat', TERM='dumb')
    cmd = [sys.executable, '-W', 'ignore', '-c', CODE.format(tool=tool, opt=opt)]
    if not stderr_is_terminal:
        p = subprocess.run(cmd, stdin=subprocess.DEVNULL, stderr=subprocess.PIPE,
                           preexec_fn=close_stdout, env=env)
        return p.returncode, p.stderr.decode('utf-8', 'replace')
    master, slave = pty.openpty()
    p = subprocess.Popen(cmd, stdin=subprocess.DEVNULL, stderr=slave,
                         preexec_fn=close_stdout, env=env)
    os.close(slave)
    out = b''
    start = time.time()
    while time.time() - start < 60:
        ready, _, _ = select.select([master], [], [], 0.5)
        if ready:
            try:
                data = os.read(master, 65536)
            except OSError:
                break
            if not data:
                break
            out += data
        elif p.poll() is not None:
            break
    if p.poll() is None:
        p.kill()
    os.close(master)
    return p.wait(), out.decode('utf-8', 'replace').replace('\r\n', '\n')


if __name__ == '__main__':
    sys.path.insert(0, os.getcwd())
    bad = 0
    for tool, opt in [('cnfgen', '--help'),
                      ('cnfgen', '--tutorial'),
                      ('cnfgen', '--help-graph'),
                      ('pbgen', '--tutorial')]:
        st_pipe, text_pipe = run(tool, opt, stderr_is_terminal=False)
        st_tty, text_tty = run(tool, opt, stderr_is_terminal=True)
        same = (st_tty == st_pipe == 0 and text_tty.strip() == text_pipe.strip()
                and len(text_tty.strip()) > 200)
        print("{} {} >&-".format(tool, opt))
        print("   stderr is a pipe    : status {}, {} characters".format(
            st_pipe, len(text_pipe)))
        print("   stderr is a terminal: status {}, {} characters{}".format(
            st_tty, len(text_tty),
            '' if same else '   <-- ' + repr(text_tty[:60])))
        if not same:
            bad += 1
    print()
    if bad:
        print("EXPECTED: with the standard output closed the text is printed on")
        print("          the standard error, terminal or not, as '--help' does.")
        print("OBSERVED: when the standard error is a terminal the text goes to a")
        print("          pager whose standard output is the closed descriptor:")
        print("          nothing is shown ({} of the 4 command lines above).".format(bad))
        sys.exit(1)
    print("OK: the help texts reach the standard error in all cases")
    sys.exit(0)
