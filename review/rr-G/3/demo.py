"""The version lookup ignores the git configuration given in the environment.

A development copy owned by another user (a bind mount in a container, a
shared checkout) is described by git only if `safe.directory` allows it;
where there is no usable ~/.gitconfig that setting is given with
GIT_CONFIG_GLOBAL (or GIT_CONFIG_COUNT/GIT_CONFIG_KEY_0/GIT_CONFIG_VALUE_0).

Run as root (a directory must be given to another owner):
    cd /tmp/rr-G && /venv/bin/python _review/3/demo.py
"""
import os
import shutil
import subprocess
import sys
import tempfile

CODE = ("import sys, os, warnings; warnings.simplefilter('ignore');"
        "sys.path.insert(0, os.getcwd());"
        "import cnfgen.info; print(cnfgen.info.info['version'])")


def version_seen_by_cnfgen(where, env):
    p = subprocess.run([sys.executable, '-W', 'ignore', '-c', CODE], cwd=where,
                       env=env, stdout=subprocess.PIPE, stderr=subprocess.PIPE)
    return p.stdout.decode().strip() or p.stderr.decode().strip()[-300:]


if __name__ == '__main__':
    here = os.getcwd()
    if os.geteuid() != 0:
        print("this demonstration must run as root (it uses chown)")
        sys.exit(3)
    scratch = os.path.join(here, '_review', 'scratch')
    os.makedirs(scratch, exist_ok=True)
    top = tempfile.mkdtemp(prefix='demo3-', dir=scratch)
    try:
        # a development copy of the package as it is in this worktree,
        # in a repository of its own, owned by somebody else
        repo = os.path.join(top, 'checkout')
        shutil.copytree(os.path.join(here, 'cnfgen'),
                        os.path.join(repo, 'cnfgen'),
                        ignore=shutil.ignore_patterns('__pycache__'))
        git = ['git', '-c', 'user.name=demo', '-c', 'user.email=demo@example.invalid']
        quiet = dict(stdout=subprocess.DEVNULL, stderr=subprocess.DEVNULL)
        subprocess.check_call(git + ['init', '-q', '.'], cwd=repo, **quiet)
        subprocess.check_call(git + ['add', '-A'], cwd=repo, **quiet)
        subprocess.check_call(git + ['commit', '-q', '-m', 'snapshot'], cwd=repo, **quiet)
        for root, dirs, files in os.walk(repo):
            for name in dirs + files:
                os.lchown(os.path.join(root, name), 65534, 65534)
        os.lchown(repo, 65534, 65534)

        home = os.path.join(top, 'home')          # no .gitconfig in there
        os.mkdir(home)
        config = os.path.join(top, 'gitconfig')
        with open(config, 'w') as f:
            f.write('[safe]\n\tdirectory = *\n')

        base_env = {'PATH': os.environ.get('PATH', ''), 'HOME': home,
                    'PYTHONDONTWRITEBYTECODE': '1'}
        with_config = dict(base_env, GIT_CONFIG_GLOBAL=config)
        with_count = dict(base_env, GIT_CONFIG_COUNT='1',
                          GIT_CONFIG_KEY_0='safe.directory',
                          GIT_CONFIG_VALUE_0='*')

        wanted = subprocess.run(
            ['git', 'describe', '--tags', '--always', '--abbrev=7'],
            cwd=os.path.join(repo, 'cnfgen'), env=with_config,
            stdout=subprocess.PIPE, stderr=subprocess.PIPE).stdout.decode().strip()
        control = subprocess.run(
            ['git', 'describe', '--tags', '--always', '--abbrev=7'],
            cwd=os.path.join(repo, 'cnfgen'), env=base_env,
            stdout=subprocess.PIPE, stderr=subprocess.PIPE)
        if not wanted or control.returncode == 0:
            print("inconclusive: git does not object to the foreign owner here")
            sys.exit(3)

        got_config = version_seen_by_cnfgen(repo, with_config)
        got_count = version_seen_by_cnfgen(repo, with_count)
        got_plain = version_seen_by_cnfgen(repo, base_env)
    finally:
        shutil.rmtree(top, ignore_errors=True)

    print("checkout owned by another user, no ~/.gitconfig")
    print("  'git describe' with GIT_CONFIG_GLOBAL=<safe.directory=*> :", wanted)
    print("  'git describe' without it                                : fails (dubious ownership)")
    print("cnfgen.info.info['version'], i.e. the 'c generator: CNFgen (...)' line")
    print("  with GIT_CONFIG_GLOBAL                      :", got_config)
    print("  with GIT_CONFIG_COUNT/_KEY_0/_VALUE_0       :", got_count)
    print("  with neither (control: None is right here)  :", got_plain)
    print()
    if got_config != wanted:
        print("EXPECTED:", wanted, "(what git answers in this environment, and what")
        print("          /tmp/rr-G-base reports): the variables that tell git where")
        print("          its *configuration* is say nothing about which repository")
        print("          to describe.")
        print("OBSERVED:", got_config, "- every GIT_* variable is withheld from git, the")
        print("          header reads 'c generator: CNFgen (None)'.")
        sys.exit(1)
    print("OK")
    sys.exit(0)
