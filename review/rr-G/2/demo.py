"""Dot reader: a quoted vertex with a port inside '{ ... }' becomes a new vertex.

Run as:  cd /tmp/rr-G && /venv/bin/python _review/2/demo.py
"""
import io
import os
import sys
import warnings


def read(text, kind):
    from cnfgen.graphs import readGraph
    try:
        G = readGraph(io.StringIO(text), kind, 'dot')
    except ValueError as e:
        return 'refused (ValueError: {})'.format(e)
    return (G.number_of_vertices(), sorted(G.edges()))


if __name__ == '__main__':
    warnings.simplefilter('ignore')
    sys.path.insert(0, os.getcwd())

    cases = [
        # (kind, with braces, the same edges written one by one)
        ('simple',
         'graph { 1 -- {"a":n}; "a" -- 2 }',
         'graph { 1 -- "a":n; "a" -- 2 }'),
        ('digraph',
         'digraph { "in 1" -> {"rec 1":f0 "rec 2":f1:sw}; "rec 1" -> "rec 2" }',
         'digraph { "in 1" -> "rec 1":f0; "in 1" -> "rec 2":f1:sw; "rec 1" -> "rec 2" }'),
        ('dag',
         'digraph { "a" -> "b"; "b" -> {"c":n} ; "c" -> "d" }',
         'digraph { "a" -> "b"; "b" -> "c":n ; "c" -> "d" }'),
    ]
    bad = 0
    for kind, braces, plain in cases:
        got = read(braces, kind)
        want = read(plain, kind)
        ok = got == want or (isinstance(got, str) and got.startswith('refused'))
        print(braces)
        print('   read as      :', got)
        print('   edge by edge :', want, '  <-', plain)
        if not ok:
            bad += 1
            print('   MISMATCH')
    print()
    if bad:
        print('EXPECTED: the endpoint {"a":n} is vertex "a" (as the endpoint "a":n is),')
        print('          or the file is refused as /tmp/rr-G-base does.')
        print('OBSERVED: a graph with one vertex too many (named  a":n ) and the')
        print('          edges attached to it, without any error.')
        sys.exit(1)
    print('OK')
    sys.exit(0)
