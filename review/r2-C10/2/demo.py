"""C10 / transformation AndSubstitution never returns a formula

cnfgen.transformations.substitutions.AndSubstitution(F, k) promises the
formula where each variable x is replaced by x1 AND ... AND xk, over
k * F.number_of_variables() fresh variables.  For a negative literal
the substitution table holds a flat list of literals instead of a list
of clauses, so every formula with at least one negative literal ends
in "TypeError: 'int' object is not iterable" instead of a formula.

run as:   cd WORKDIR && /venv/bin/python _hunt/2/demo.py
"""
import sys
import itertools
import warnings

sys.path.insert(0, '.')
warnings.simplefilter('ignore')


def models(F, n):
    """set of satisfying assignments of F (as tuples of booleans)"""
    res = set()
    for a in itertools.product([False, True], repeat=n):
        if all(any((a[abs(l) - 1] == (l > 0)) for l in c) for c in F):
            res.add(a)
    return res


if __name__ == '__main__':
    from cnfgen.formula.cnf import CNF
    from cnfgen.transformations.substitutions import AndSubstitution
    from cnfgen.transformations.substitutions import OrSubstitution
    from cnfgen.families.pigeonhole import PigeonholePrinciple

    print("PROMISED: AndSubstitution(F, k) returns a CNF over k*n variables,")
    print("          all literals within 1..k*n, equivalent to F with")
    print("          x := x1 AND ... AND xk")
    problems = []
    k = 2
    cases = [('CNF([[1, -2], [2, 3]])', CNF([[1, -2], [2, 3]])),
             ('CNF([[-1]])', CNF([[-1]])),
             ('PigeonholePrinciple(3, 2)', PigeonholePrinciple(3, 2))]
    for name, F in cases:
        n = F.number_of_variables()
        try:
            G = AndSubstitution(F, k)
        except Exception as e:
            problems.append("AndSubstitution({}, {}) -> {}: {}".format(
                name, k, type(e).__name__, e))
            continue
        if G.number_of_variables() != k * n or not G.debug(True, True):
            problems.append("{}: {} variables, expected {}".format(
                name, G.number_of_variables(), k * n))
            continue
        if n <= 6:
            # semantic check: G(y) == F(x) where x_i = AND of its block
            good = models(F, n)
            for a in itertools.product([False, True], repeat=k * n):
                x = tuple(all(a[i * k:(i + 1) * k]) for i in range(n))
                sat = all(any((a[abs(l) - 1] == (l > 0)) for l in c)
                          for c in G)
                if sat != (x in good):
                    problems.append("{}: wrong semantics".format(name))
                    break

    # the sibling works on the very same input
    H = OrSubstitution(CNF([[1, -2], [2, 3]]), k)
    assert H.number_of_variables() == 6 and H.debug(True, True)

    if problems:
        print("OBSERVED:")
        for p in problems:
            print("  -", p)
        sys.exit(1)
    print("OBSERVED: as promised")
    sys.exit(0)
