"""C10 / checked insertion of linear constraints refuses valid literals

The checked builders of CNF (add_parity, add_linear, cardinality_*,
add_loose_*/add_strict_*) validate the literals with
BaseCNF._check_and_update, which since the "store plain ints" repair
writes `data[i] = int(lit)` INTO THE CALLER'S SEQUENCE.  Consequences:

 (a) literals given as a tuple or a range (the docstrings say
     "array-like"; OPB takes them) are refused with
     ValueError("literals must be non-zero integers") although they
     are perfectly valid non-zero integers;
 (b) the transformation chain `-T xorcomp complete L R` (and majcomp),
     whose bipartite graph hands its neighbourhoods out as ranges,
     never returns the promised formula over R variables;
 (c) a list argument is modified, even by a call that is refused.

run as:   cd WORKDIR && /venv/bin/python _hunt/1/demo.py
"""
import sys
import io
import contextlib
import warnings

sys.path.insert(0, '.')
warnings.simplefilter('ignore')


def library_tuple_and_range():
    from cnfgen.formula.cnf import CNF
    from cnfgen.formula.opb import OPB
    failures = []
    calls = [('add_parity', (1,)), ('cardinality_geq', (2,)),
             ('cardinality_leq', (1,)), ('cardinality_eq', (1,)),
             ('cardinality_neq', (1,)), ('add_loose_majority', ()),
             ('add_strict_minority', ())]
    for lits in [(1, -2, 3), range(1, 4)]:
        for name, extra in calls:
            # reference: the same literals as a list
            ref = CNF()
            getattr(ref, name)(list(lits), *extra)
            F = CNF()
            try:
                getattr(F, name)(lits, *extra)
            except Exception as e:
                failures.append("CNF().{}({!r}, ...) -> {}: {}".format(
                    name, lits, type(e).__name__, e))
                continue
            if list(F) != list(ref) or \
               F.number_of_variables() != ref.number_of_variables():
                failures.append("CNF().{}({!r}) differs from the list".format(
                    name, lits))
    # the other formula class has no problem with the same arguments
    G = OPB()
    G.add_parity((1, -2, 3), 1)
    G.cardinality_geq(range(1, 4), 2)
    assert G.number_of_variables() == 3 and G.debug()
    return failures


def transformation_chain():
    from cnfgen.clitools.cnfgen import cli
    from cnfgen.clitools.cmdline import CLIError
    failures = []
    for t in ['xorcomp', 'majcomp']:
        argv = ['cnfgen', '-q', 'php', '4', '3', '-T', t, 'complete', '12', '4']
        try:
            with contextlib.redirect_stderr(io.StringIO()):
                F = cli(argv, mode='formula')
        except (CLIError, SystemExit, ValueError) as e:
            failures.append("'{}' -> {}: {}".format(
                ' '.join(argv), type(e).__name__, str(e).splitlines()[0]))
            continue
        if F.number_of_variables() != 4 or not F.debug(True, True):
            failures.append("'{}' -> {} variables, expected 4".format(
                ' '.join(argv), F.number_of_variables()))
    return failures


def argument_untouched():
    from cnfgen.formula.cnf import CNF
    failures = []
    lits = [True, 0]
    F = CNF()
    try:
        F.add_parity(lits, 1)
        failures.append("literal 0 was accepted")
    except ValueError:
        pass
    if [type(x) for x in lits] != [bool, int] or len(F) != 0:
        failures.append(
            "refused add_parity([True, 0], 1) changed its argument "
            "into {!r}".format(lits))
    return failures


if __name__ == '__main__':
    print("PROMISED: checked insertions accept every sequence of non-zero")
    print("          integers, refuse only invalid literals and leave their")
    print("          arguments alone; 'xorcomp <bipartite>' returns a formula")
    print("          over the right side of the bipartite graph.")
    bad = []
    for test in (library_tuple_and_range, transformation_chain,
                 argument_untouched):
        bad.extend(test())
    if bad:
        print("OBSERVED:")
        for line in bad:
            print("  -", line)
        sys.exit(1)
    print("OBSERVED: all as promised")
    sys.exit(0)
