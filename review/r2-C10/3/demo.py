"""C10 / OPB keeps a literal that is not a plain integer (`True`)

Every literal of a formula is promised to be a non-zero integer naming
one of the variables 1..n.  BaseCNF was repaired to store plain ints
(`True` is the literal 1); BaseOPB still stores the object it was
given.  A checked insertion with the literal `True` succeeds, and the
formula then mentions the "variable" xTrue, which is none of x1..xn:
the OPB file is unreadable and OPB and CNF differ on the same input.

run as:   cd WORKDIR && /venv/bin/python _hunt/3/demo.py
"""
import sys
import warnings

sys.path.insert(0, '.')
warnings.simplefilter('ignore')


def literals(F):
    for constraint in F:
        for _, lit in constraint[:-2]:
            yield lit


if __name__ == '__main__':
    from cnfgen.formula.cnf import CNF
    from cnfgen.formula.opb import OPB

    print("PROMISED: after a checked insertion every literal is a plain")
    print("          non-zero int within 1..n, and the OPB output names")
    print("          only the variables x1..xn (as CNF does: 'p cnf 2 1',")
    print("          '1 -2 0' for the clause [True, -2])")
    problems = []

    C = CNF()
    C.add_clause([True, -2])
    assert list(C) == [[1, -2]] and type(C[0][0]) is int

    builders = [
        ('add_clause([True, -2])', lambda F: F.add_clause([True, -2])),
        ('add_clauses_from([[True, -2]])',
         lambda F: F.add_clauses_from([[True, -2]])),
        ("add_constraint([(2, True), (1, -2), '>=', 1])",
         lambda F: F.add_constraint([(2, True), (1, -2), '>=', 1])),
        ('cardinality_geq([True, -2], 1)',
         lambda F: F.cardinality_geq([True, -2], 1)),
        ('cardinality_eq([True, -2], 1)',
         lambda F: F.cardinality_eq([True, -2], 1)),
        ('add_loose_majority([True, -2])',
         lambda F: F.add_loose_majority([True, -2])),
        ('add_strict_majority([True, -2])',
         lambda F: F.add_strict_majority([True, -2])),
    ]
    for name, build in builders:
        F = OPB()
        build(F)
        bad = [l for l in literals(F) if type(l) is not int]
        text = F.to_opb()
        if bad or 'xTrue' in text:
            problems.append("OPB().{} stores literal {!r}; to_opb(): {!r}".format(
                name, bad[0] if bad else None, text.splitlines()[1]))

    if problems:
        print("OBSERVED:")
        for p in problems:
            print("  -", p)
        sys.exit(1)
    print("OBSERVED: as promised")
    sys.exit(0)
