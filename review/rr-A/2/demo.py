"""Checked insertions of OPB formulas still let non-integers (and True)
through as coefficients and as the constant of a constraint, and print
them as they are: '+1.5 x1', '>= 1.5', '>= True'.

Incomplete repairs 5beeb81 / f8d1024 (the same defect one field to the
left and to the right of the literal).

Run as:  cd /tmp/rr-A && /venv/bin/python _review/2/demo.py
"""
import os
import re
import sys
import warnings

# a constraint line of the OPB format: integer coefficients, integer degree
TERM = r'[+-]?\d+ ~?x\d+ '
LINE = re.compile(r'^(' + TERM + r')*(>=|=) [+-]?\d+$')


def check(text, insert):
    """Either the insertion is refused with ValueError/TypeError and the
    formula is left alone, or what is written is well formed OPB."""
    from cnfgen.formula.opb import OPB
    F = OPB()
    try:
        insert(F)
    except (ValueError, TypeError) as exc:
        good = len(F) == 0 and F.number_of_variables() == 0
        print('{}  {}\n      refused: {}: {}'.format(
            'ok  ' if good else 'FAIL', text, type(exc).__name__, exc))
        return good
    lines = F.to_opb().splitlines()[1:]
    good = all(LINE.match(line) for line in lines)
    print('{}  {}\n      accepted and written as: {!r}'.format(
        'ok  ' if good else 'FAIL', text, lines))
    return good


if __name__ == '__main__':
    sys.path.insert(0, os.getcwd())
    warnings.simplefilter('ignore')
    lits = [1, 2, 3]
    cases = [
        # controls: what the repairs already handle
        ("add_clause([1.5, 2])            (control: literal, 5beeb81)",
         lambda F: F.add_clause([1.5, 2])),
        ("add_clause([True, 2])           (control: literal, f8d1024)",
         lambda F: F.add_clause([True, 2])),
        # the neighbours
        ("cardinality_geq(lits, len(lits)/2)   constant 1.5",
         lambda F: F.cardinality_geq(lits, len(lits) / 2)),
        ("cardinality_geq(lits, True)          constant True",
         lambda F: F.cardinality_geq(lits, True)),
        ("add_constraint([(1,1),(1,2),'>=',1.5])",
         lambda F: F.add_constraint([(1, 1), (1, 2), '>=', 1.5])),
        ("add_constraint([(1,1),(1,2),'==',True])",
         lambda F: F.add_constraint([(1, 1), (1, 2), '==', True])),
        ("add_constraint([(1.5,1),(1,2),'>=',1])   coefficient 1.5",
         lambda F: F.add_constraint([(1.5, 1), (1, 2), '>=', 1])),
        ("add_constraint([(2.0,1),(1,2),'>=',1])   coefficient 2.0",
         lambda F: F.add_constraint([(2.0, 1), (1, 2), '>=', 1])),
    ]
    print("Expected: a checked insertion either raises ValueError or "
          "stores plain integers,\nso that to_opb() writes lines of the "
          "form '+1 x1 +1 ~x2 >= 2'.\n")
    bad = [text for text, insert in cases if not check(text, insert)]
    if bad:
        print('\n{} checked insertion(s) produced a file that is not OPB '
              '(the docstring of add_constraint\nsays "Coefficients must '
              'be integers" and "an integer value").'.format(len(bad)))
        sys.exit(1)
    print('\nall good')
    sys.exit(0)
