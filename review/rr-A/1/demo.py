"""OPB.cardinality_neq(check=True) silently builds a wrong formula from a
one-shot iterator (iter(...), map, itertools.chain, ...).

Introduced by f8d1024 ("checked insertions store plain integers").

Run as:  cd /tmp/rr-A && /venv/bin/python _review/1/demo.py
"""
import os
import sys
import warnings
from itertools import chain


def outcome(make_formula, lits, value):
    """Result of cardinality_neq(lits, value) on a fresh formula"""
    F = make_formula()
    try:
        F.cardinality_neq(lits, value)
    except (TypeError, ValueError) as exc:
        return 'refused ({})'.format(type(exc).__name__), None
    return 'accepted', (F.number_of_variables(), [list(c) for c in F])


if __name__ == '__main__':
    sys.path.insert(0, os.getcwd())
    warnings.simplefilter('ignore')
    from cnfgen.formula.opb import OPB

    makers = [
        ('iter([1, 2, 3])', lambda: iter([1, 2, 3])),
        ('map(abs, [-1, 2, -3])', lambda: map(abs, [-1, 2, -3])),
        ('chain([1], [2, 3])', lambda: chain([1], [2, 3])),
    ]
    failures = 0
    for value in (0, 1, 2):
        _, reference = outcome(OPB, [1, 2, 3], value)
        for text, make in makers:
            status, got = outcome(OPB, make(), value)
            # Two acceptable behaviours: the call is refused (what
            # 2ec26de did, and what CNF.cardinality_neq still does), or
            # the iterator is read once and the result is the one of
            # the corresponding list.
            good = status.startswith('refused') or got == reference
            if not good:
                failures += 1
            print('{}  OPB().cardinality_neq({}, {})'.format(
                'ok  ' if good else 'FAIL', text, value))
            print('      expected: TypeError, or the same formula as for '
                  '[1, 2, 3]: {}'.format(reference))
            print('      observed: {} {}'.format(status, got if got else ''))
    if failures:
        print('\n{} call(s) built a wrong formula without any error: the '
              'variables are counted, the literals are lost.\nFor value 0 '
              'the result is the empty constraint ">= 1", i.e. an '
              'unsatisfiable formula.'.format(failures))
        sys.exit(1)
    print('all good')
    sys.exit(0)
