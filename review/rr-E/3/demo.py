"""Two paths that commit e2ff96b (closed standard output / standard error)
left as they were:

A. cnfgen/pbgen '--tutorial', '--help-graph', '--help-bipartite', '--help-dag'
   still die with AttributeError when the standard output is closed, the
   very symptom that the commit removed from the other paths ('-h', '-V' and
   the formula output cope with a closed standard output).

B. with the standard error closed, the message of the SIGINT handler is
   still printed on the standard output, where the formula goes, and without
   comment marker (the commit guards error_msg() against exactly this:
   "with the standard error closed `print` would use the standard output,
   where the formula goes").

Run as:  cd /tmp/rr-E && /venv/bin/python _review/3/demo.py
"""
import os
import signal
import subprocess
import sys
import time

CODE = """
import sys
sys.path.insert(0, {tree!r})
import importlib
tool = importlib.import_module('cnfgen.clitools.' + {tool!r})
sys.argv = [{tool!r}, {option!r}]
tool.main()
"""


def close_stdout():
    os.close(1)


def close_stderr():
    os.close(2)


def interrupt(tree, tool, argument, delay):
    """Run the tool with stderr closed, waiting for input; send SIGINT"""
    code = CODE.format(tree=tree, tool=tool, option=argument)
    p = subprocess.Popen([sys.executable, '-W', 'ignore', '-c', code],
                         stdin=subprocess.PIPE, stdout=subprocess.PIPE,
                         preexec_fn=close_stderr, cwd=tree)
    time.sleep(delay)          # the tool now waits for its standard input
    p.send_signal(signal.SIGINT)
    out = p.stdout.read()
    p.stdin.close()
    p.wait()
    return p.returncode, out.decode('utf-8', 'replace')


if __name__ == '__main__':
    tree = os.getcwd()
    sys.path.insert(0, tree)
    bad = 0
    for tool in ('cnfgen', 'pbgen'):
        for option in ('-h', '-V', '--tutorial', '--help-graph',
                       '--help-bipartite', '--help-dag'):
            code = CODE.format(tree=tree, tool=tool, option=option)
            p = subprocess.run([sys.executable, '-W', 'ignore', '-c', code],
                               stdin=subprocess.DEVNULL,
                               stderr=subprocess.PIPE,
                               preexec_fn=close_stdout, cwd=tree)
            err = p.stderr.decode('utf-8', 'replace')
            traceback = 'Traceback (most recent call last)' in err
            last = err.strip().splitlines()[-1] if err.strip() else ''
            print("{} {} >&-  : exit status {}{}".format(
                tool, option, p.returncode,
                ", TRACEBACK ... " + last if traceback else ""))
            if traceback:
                bad += 1
    print("expected: no traceback (either the text goes nowhere, as for "
          "'-h', or a clean I/O error is reported)")
    if bad:
        print("FAIL (A): {} command lines end in a traceback".format(bad))

    polluted = 0
    for tool, argument in (('cnfshuffle', '-q'), ('cnfgen', 'dimacs')):
        for delay in (3, 8, 20):
            status, out = interrupt(tree, tool, argument, delay)
            if status == 255:    # the handler of the tool has run
                break
        print("{} {} 2>&- and SIGINT: exit status {}, standard output {!r}"
              .format(tool, argument, status, out))
        if out.strip():
            polluted += 1
    print("expected: nothing on the standard output (a message for the "
          "user does not belong to the formula's stream)")
    if polluted:
        print("FAIL (B): {} tools print the SIGINT message on the standard "
              "output".format(polluted))
    if bad or polluted:
        sys.exit(1)
    print("OK")
    sys.exit(0)
