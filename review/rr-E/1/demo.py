"""kthlist2pebbling: errors in the input graph are shielded with the DIMACS
comment marker TWICE ('c c GRAPH ERROR: ...') after commit cce4a78.

Run as:  cd /tmp/rr-E && /venv/bin/python _review/1/demo.py
"""
import os
import subprocess
import sys

CODE = """
import sys
sys.path.insert(0, {tree!r})
from cnfgen.clitools.kthlist2pebbling import main
sys.argv = ['kthlist2pebbling']
main()
"""

CASES = [
    ("vertex out of range", b"3\n1 : 0\n2 : 5 0\n3 : 1 2 0\n"),
    ("not a kthlist file", b"garbage\n"),
    ("empty input", b""),
]

if __name__ == '__main__':
    tree = os.getcwd()
    sys.path.insert(0, tree)
    bad = 0
    for title, text in CASES:
        p = subprocess.run([sys.executable, '-W', 'ignore', '-c',
                            CODE.format(tree=tree)],
                           input=text, stdout=subprocess.PIPE,
                           stderr=subprocess.PIPE, cwd=tree)
        err = p.stderr.decode('utf-8', 'replace').splitlines()
        print("== {} (exit status {})".format(title, p.returncode))
        for line in err:
            print("   stderr| " + line)
        if not err or p.returncode == 0:
            print("   UNEXPECTED: an error report and a non-zero status "
                  "were expected")
            bad += 1
            continue
        for line in err:
            if not line.startswith('c '):
                print("   WRONG: line without the comment marker 'c '")
                bad += 1
            elif line.startswith('c c '):
                print("   WRONG: expected 'c GRAPH ERROR: ...' (one marker, "
                      "as before the repair), got the marker twice")
                bad += 1
    if bad:
        print("FAIL: {} problem(s)".format(bad))
        sys.exit(1)
    print("OK: every error line carries the marker 'c ' exactly once")
    sys.exit(0)
