"""With '--seed', the random graph argument and the random part of the formula
are drawn from the SAME random stream (the generator is seeded twice).

Run as:  cd /tmp/rr-E && /venv/bin/python _review/2/demo.py

'cnfgen --seed S tseitin random gnp 6 .25' draws a random graph and then a
random charge for each vertex.  The two must be independent.  In /tmp/rr-E
the charges are the first numbers of the stream that has just produced
the graph, and e.g. vertex 1 has NEVER charge 1 when the edge {1,2} exists.
"""
import importlib
import os
import random
import sys
import warnings

SEEDS = range(400)

if __name__ == '__main__':
    warnings.simplefilter('ignore')
    sys.path.insert(0, os.getcwd())
    import networkx
    cnfgen_tool = importlib.import_module('cnfgen.clitools.cnfgen')
    helpers = importlib.import_module('cnfgen.clihelpers.counting_helpers')

    # observe (not change) what the command line helper gives to the family
    seen = {}
    TseitinFormula = helpers.TseitinFormula

    def spy(G, charge=None, *args, **kwargs):
        seen['G'] = G
        seen['charge'] = list(charge)
        return TseitinFormula(G, charge, *args, **kwargs)

    helpers.TseitinFormula = spy

    with_edge = with_edge_charged = 0
    without_edge = without_edge_charged = 0
    graph_from_fresh_seed = charge_from_fresh_seed = 0
    for s in SEEDS:
        cnfgen_tool.cli(['cnfgen', '--seed', s,
                         'tseitin', 'random', 'gnp', 6, '.25'],
                        mode='formula')
        G, charge = seen['G'], seen['charge']
        if G.has_edge(1, 2):
            with_edge += 1
            with_edge_charged += charge[0]
        else:
            without_edge += 1
            without_edge_charged += charge[0]
        # what a generator freshly seeded with s produces
        random.seed(s)
        H = networkx.gnp_random_graph(6, .25)
        edges = sorted((u + 1, v + 1) for (u, v) in H.edges())
        if edges == sorted(tuple(sorted(e)) for e in G.edges()):
            graph_from_fresh_seed += 1
        random.seed(s)
        if charge == [random.randint(0, 1) for _ in range(6)]:
            charge_from_fresh_seed += 1

    n = len(SEEDS)
    print("cnfgen --seed S tseitin random gnp 6 .25, for S in 0..{}".format(
        n - 1))
    print("  graph  == first draws of random.seed(S): {:3d} / {}".format(
        graph_from_fresh_seed, n))
    print("  charge == first draws of random.seed(S): {:3d} / {}".format(
        charge_from_fresh_seed, n))
    print("  edge {{1,2}} present: {:3d} runs, vertex 1 charged in {:3d}"
          .format(with_edge, with_edge_charged))
    print("  edge {{1,2}} absent : {:3d} runs, vertex 1 charged in {:3d}"
          .format(without_edge, without_edge_charged))
    print("expected: charge of vertex 1 independent of the edge (1,2), i.e."
          " charged in about half of the {} runs with that edge;"
          " graph and charges taken from different parts of the stream"
          .format(with_edge))

    fail = False
    if with_edge >= 30 and with_edge_charged == 0:
        print("FAIL: vertex 1 is never charged when adjacent to vertex 2 "
              "(probability 2**-{} for independent draws)".format(with_edge))
        fail = True
    if graph_from_fresh_seed == n and charge_from_fresh_seed == n:
        print("FAIL: the graph and the charges both start from the state "
              "random.seed(S): the same random numbers are used twice")
        fail = True
    if fail:
        sys.exit(1)
    print("OK")
    sys.exit(0)
