"""C20 - solve()/is_satisfiable() with a MiniSat-family solver on a formula
whose last variables are unused.

Run as:  cd WORKDIR && /venv/bin/python _hunt/1/demo.py

No SAT solver is installed here, so two small stand-ins are written into
a temporary directory (inside _hunt/1) that is prepended to PATH.  They
reproduce the input/output behaviour of the real programs:

 minisat   MiniSat 2.2 (core/Dimacs.h): the number of variables in the
           'p cnf' line is NOT used to create variables; variables are
           created on demand while the clauses are read
           (`while (var >= S.nVars()) S.newVar();`), a mismatch only
           gives "WARNING! DIMACS header mismatch: wrong number of
           variables." on stderr.  The result file is "SAT\n<model> 0\n"
           or "UNSAT\n", the model lists S.nVars() literals, the exit
           status is 10 / 20.
 glucose   same parser (Glucose is a MiniSat derivative), answer in the
           DIMACS convention on stdout, model ('v' lines) only with
           '-model'.
"""
import os
import shutil
import stat
import sys
import tempfile

FAKE_SOLVER = r'''#!%(python)s
import sys
NAME = %(name)r

def parse(text):
    """MiniSat's parse_DIMACS_main: variables are created on demand"""
    header_vars = 0
    nvars = 0
    clauses = []
    cur = []
    for line in text.splitlines():
        s = line.strip()
        if s == '' or s[0] == 'c':
            continue
        if s[0] == 'p':
            header_vars = int(s.split()[2])
            continue
        for tok in s.split():
            lit = int(tok)
            if lit == 0:
                clauses.append(cur)
                cur = []
            else:
                nvars = max(nvars, abs(lit))
                cur.append(lit)
    if header_vars != nvars:
        sys.stderr.write("WARNING! DIMACS header mismatch: "
                         "wrong number of variables.\n")
    return nvars, clauses

def dpll(clauses, assignment):
    clauses = [c for c in clauses
               if not any(assignment.get(abs(l)) == (l > 0) for l in c)]
    clauses = [[l for l in c if abs(l) not in assignment] for c in clauses]
    if any(len(c) == 0 for c in clauses):
        return None
    if not clauses:
        return assignment
    lit = min(clauses, key=len)[0]
    for value in (lit > 0, lit < 0):
        extended = dict(assignment)
        extended[abs(lit)] = value
        res = dpll(clauses, extended)
        if res is not None:
            return res
    return None

def main():
    args = sys.argv[1:]
    if '--help' in args or '-h' in args:
        print("USAGE: %%s [options] <input-file> <result-output-file>" %% NAME)
        return 0
    options = [a for a in args if a.startswith('-')]
    files = [a for a in args if not a.startswith('-')]
    if files:
        with open(files[0]) as f:
            text = f.read()
    else:
        print("c Reading from standard input... Use '--help' for help.")
        text = sys.stdin.read()
    nvars, clauses = parse(text)
    comment = 'c ' if NAME == 'glucose' else ''
    print(comment + "|  Number of variables:  %%12d" %% nvars)
    print(comment + "|  Number of clauses:    %%12d" %% len(clauses))
    model = dpll(clauses, {})
    if model is not None:
        lits = [v if model.get(v, False) else -v for v in range(1, nvars + 1)]
    resfile = open(files[1], 'w') if len(files) > 1 else None
    if NAME == 'glucose' and resfile is None:
        # DIMACS output convention
        if model is None:
            print("s UNSATISFIABLE")
        else:
            print("s SATISFIABLE")
            if '-model' in options:
                print("v " + " ".join(str(l) for l in lits) + " 0")
    else:
        print("SATISFIABLE" if model is not None else "UNSATISFIABLE")
        if resfile is not None:
            if model is None:
                resfile.write("UNSAT\n")
            else:
                resfile.write("SAT\n")
                resfile.write(" ".join(str(l) for l in lits) + " 0\n")
            resfile.close()
    return 20 if model is None else 10

sys.exit(main())
'''


def install(bindir, name):
    path = os.path.join(bindir, name)
    with open(path, 'w') as f:
        f.write(FAKE_SOLVER % {'python': sys.executable, 'name': name})
    os.chmod(path, os.stat(path).st_mode | stat.S_IXUSR | stat.S_IXGRP | stat.S_IXOTH)


def satisfies(formula, assignment):
    true_lits = set(assignment)
    return all(any(l in true_lits for l in clause) for clause in formula)


def check(formula, label, cmd, problems):
    n = formula.number_of_variables()
    print("--- {}: {} variables, clauses {}, cmd={!r}".format(
        label, n, list(formula), cmd))
    # solve()
    try:
        res = formula.solve(cmd=cmd)
    except Exception as e:    # pylint: disable=broad-except
        print("    solve()          raised {}: {}".format(
            type(e).__name__, str(e).replace('\n', ' ')))
        problems.append("{} / {}: solve() raised {} although the solver "
                        "answered SAT".format(label, cmd, type(e).__name__))
    else:
        print("    solve()          = {}".format(res))
        ok = (isinstance(res, tuple) and len(res) == 2 and res[0] is True
              and [abs(l) for l in res[1]] == list(range(1, n + 1))
              and satisfies(formula, res[1]))
        if not ok:
            problems.append("{} / {}: solve() returned {}, not (True, "
                            "<satisfying assignment of all {} variables>)"
                            .format(label, cmd, res, n))
    # is_satisfiable()
    try:
        res = formula.is_satisfiable(cmd=cmd)
    except Exception as e:    # pylint: disable=broad-except
        print("    is_satisfiable() raised {}: {}".format(
            type(e).__name__, str(e).replace('\n', ' ')))
        problems.append("{} / {}: is_satisfiable() raised {} although the "
                        "solver answered SAT".format(label, cmd,
                                                     type(e).__name__))
    else:
        print("    is_satisfiable() = {}".format(res))
        if res is not True:
            problems.append("{} / {}: is_satisfiable() returned {}".format(
                label, cmd, res))


if __name__ == '__main__':
    sys.path.insert(0, os.getcwd())
    here = os.path.dirname(os.path.abspath(__file__))
    workdir = tempfile.mkdtemp(prefix='demo-', dir=here)
    bindir = os.path.join(workdir, 'bin')
    tmpdir = os.path.join(workdir, 'tmp')
    os.mkdir(bindir)
    os.mkdir(tmpdir)
    problems = []
    try:
        install(bindir, 'minisat')
        install(bindir, 'glucose')
        os.environ['PATH'] = bindir + os.pathsep + os.environ.get('PATH', '')
        os.environ['TMPDIR'] = tmpdir
        tempfile.tempdir = None

        import warnings
        warnings.simplefilter('ignore')
        from cnfgen import CNF, RandomKCNF

        print("Property C20: for all formulas (including ... unused variables)")
        print("and all solver conventions, solve() returns (True, assignment)")
        print("with an assignment, ordered by variable, that satisfies the")
        print("formula when the solver answers satisfiable; is_satisfiable()")
        print("returns the same verdict.")
        print()

        # control: every variable is used -> fine
        control = CNF([[1, -2], [-1]])
        check(control, "control (all variables used)", 'minisat', problems)
        assert not problems, "the stand-in solver does not work here"

        # the documentation's formula, with two more (unused) variables
        F = CNF([[1, -2], [-1]])
        F.update_variable_number(4)
        for cmd in ['minisat', 'minisat -no-pre', 'glucose -model']:
            check(F, "x1..x4, x3 x4 unused", cmd, problems)

        # variables without clauses at all
        G = CNF()
        G.update_variable_number(3)
        check(G, "3 variables, no clauses", 'minisat', problems)

        # a family: sparse random 3-CNF, 2 clauses over 12 variables
        H = RandomKCNF(3, 12, 2, seed=2)
        used = max(abs(l) for c in H for l in c)
        if used < 12:
            check(H, "RandomKCNF(3,12,2,seed=2)", 'minisat', problems)

        left = os.listdir(tmpdir)
        print()
        print("temporary directory after the calls:", left)
        if left:
            problems.append("temporary files left: {}".format(left))
    finally:
        shutil.rmtree(workdir, ignore_errors=True)

    print()
    if problems:
        print("VIOLATIONS of C20:")
        for p in problems:
            print(" *", p)
        sys.exit(1)
    print("OK: verdicts and assignments reported as the property promises")
    sys.exit(0)
