"""C20 - is_satisfiable() when the solver answers 's SATISFIABLE' and
prints no model (models are printed only on request, or switched off).

Run as:  cd WORKDIR && /venv/bin/python _hunt/2/demo.py

No SAT solver is installed here, so a stand-in speaking the DIMACS
stdin/stdout convention is installed under the names of supported
solvers in a temporary directory (inside _hunt/2) prepended to PATH.
It reproduces two behaviours of the real programs:

 glucose                      prints the 'v' lines only with '-model'
                              (without it: just 's SATISFIABLE')
 lingeling -n, picosat -n,    '-n' = do not print the satisfying
 cadical -n, kissat -n        assignment (witness)

In both cases the solver's answer is complete and legal DIMACS output:
the verdict is on the 's' line, exit status 10 / 20.
"""
import os
import shutil
import stat
import sys
import tempfile

FAKE_SOLVER = r'''#!%(python)s
import sys
NAME = %(name)r

def parse(text):
    nvars = 0
    clauses = []
    cur = []
    for line in text.splitlines():
        s = line.strip()
        if s == '' or s[0] == 'c':
            continue
        if s[0] == 'p':
            nvars = int(s.split()[2])
            continue
        for tok in s.split():
            lit = int(tok)
            if lit == 0:
                clauses.append(cur)
                cur = []
            else:
                cur.append(lit)
    return nvars, clauses

def dpll(clauses, assignment):
    clauses = [c for c in clauses
               if not any(assignment.get(abs(l)) == (l > 0) for l in c)]
    clauses = [[l for l in c if abs(l) not in assignment] for c in clauses]
    if any(len(c) == 0 for c in clauses):
        return None
    if not clauses:
        return assignment
    lit = min(clauses, key=len)[0]
    for value in (lit > 0, lit < 0):
        extended = dict(assignment)
        extended[abs(lit)] = value
        res = dpll(clauses, extended)
        if res is not None:
            return res
    return None

def main():
    args = sys.argv[1:]
    if '--help' in args or '-h' in args:
        print("usage: %%s [ <option> ... ] [ <dimacs> ]" %% NAME)
        return 0
    if NAME == 'glucose':
        witness = '-model' in args
    else:
        witness = '-n' not in args and '--no-witness' not in args
    print("c %%s: reading DIMACS file from <stdin>" %% NAME)
    nvars, clauses = parse(sys.stdin.read())
    print("c parsed %%d variables, %%d clauses" %% (nvars, len(clauses)))
    model = dpll(clauses, {})
    if model is None:
        print("s UNSATISFIABLE")
        print("c exit 20")
        return 20
    print("s SATISFIABLE")
    if witness:
        lits = [str(v if model.get(v, False) else -v)
                for v in range(1, nvars + 1)] + ['0']
        for i in range(0, len(lits), 10):
            print("v " + " ".join(lits[i:i + 10]))
    print("c exit 10")
    return 10

sys.exit(main())
'''


def install(bindir, name):
    path = os.path.join(bindir, name)
    with open(path, 'w') as f:
        f.write(FAKE_SOLVER % {'python': sys.executable, 'name': name})
    os.chmod(path, os.stat(path).st_mode | stat.S_IXUSR | stat.S_IXGRP | stat.S_IXOTH)


if __name__ == '__main__':
    sys.path.insert(0, os.getcwd())
    here = os.path.dirname(os.path.abspath(__file__))
    workdir = tempfile.mkdtemp(prefix='demo-', dir=here)
    bindir = os.path.join(workdir, 'bin')
    os.mkdir(bindir)
    problems = []
    try:
        for solver in ['glucose', 'lingeling', 'picosat', 'cadical', 'kissat']:
            install(bindir, solver)
        # only the stand-ins are reachable
        os.environ['PATH'] = bindir

        import warnings
        warnings.simplefilter('ignore')
        from cnfgen import CNF

        print("Property C20: solve() returns (True, assignment) when the")
        print("solver answers satisfiable and (False, None) when it answers")
        print("unsatisfiable; is_satisfiable() returns the same verdict")
        print("(its documentation: 'returns True if the solvers claims the")
        print("formula to be satisfiable, and false otherwise').")
        print()

        sat = CNF([[1, -2], [-1]])               # docs/satsolve.rst
        unsat = CNF([[1, -2], [-1], [2]])

        # control: with the model printed everything works
        for cmd in ['glucose -model', 'kissat']:
            got = sat.is_satisfiable(cmd=cmd)
            print("control  SAT formula,   cmd={!r:18}: is_satisfiable() = {}"
                  .format(cmd, got))
            assert got is True, "the stand-in solver does not work here"

        cmds = ['glucose',          # real glucose: no model without -model
                'glucose -pre',     # the example of the documentation
                'lingeling -n', 'picosat -n', 'cadical -n', 'kissat -n',
                None]               # automatic choice among what is installed
        for cmd in cmds:
            if cmd is None:
                # a machine where glucose is the only solver installed
                for name in ['lingeling', 'picosat', 'cadical', 'kissat']:
                    os.unlink(os.path.join(bindir, name))
            try:
                got = unsat.is_satisfiable(cmd=cmd)
            except Exception as e:    # pylint: disable=broad-except
                got = "raised {}".format(type(e).__name__)
            print("         UNSAT formula, cmd={!r:18}: is_satisfiable() = {}"
                  .format(cmd, got))
            if got is not False:
                problems.append("UNSAT formula, cmd={!r}: is_satisfiable() {}"
                                .format(cmd, got))
            try:
                got = sat.is_satisfiable(cmd=cmd)
            except Exception as e:    # pylint: disable=broad-except
                got = "raised {}: {}".format(type(e).__name__,
                                             str(e).replace('\n', ' '))
            print("         SAT formula,   cmd={!r:18}: is_satisfiable() = {}"
                  .format(cmd, got))
            if got is not True:
                problems.append("SAT formula, cmd={!r}: the solver answered "
                                "'s SATISFIABLE' but is_satisfiable() {}"
                                .format(cmd, got))
    finally:
        shutil.rmtree(workdir, ignore_errors=True)

    print()
    if problems:
        print("VIOLATIONS of C20 (expected: True for the satisfiable formula):")
        for p in problems:
            print(" *", p)
        sys.exit(1)
    print("OK: is_satisfiable() returns the verdict of the solver")
    sys.exit(0)
