#!/bin/sh
# tools/corpus.sh [<seeded dir names>...] : regression over the corpus of seeded changes.
# Each patch (patch.rebased.diff if present, else patch.diff) is applied to a scratch clone
# of /repo (3-way, so that later repairs nearby do not matter) and the quick check of its
# property - plus the checks named in meta.json "also_caught_by" - is run against it.
# Prints one line per change: CAUGHT / MISSED / STALE (patch no longer applies).
here=$(cd "$(dirname "$0")/.." && pwd)
names=${*:-$(ls "$here/seeded" | grep -v '\.txt$')}
work=$(mktemp -d /dev/shm/cnfgen-corpus.XXXXXX); trap 'rm -rf "$work"' EXIT
git clone -q /repo "$work/r" || exit 2
rc=0
for s in $names; do
  d="$here/seeded/$s"
  p="$d/patch.diff"; [ -f "$d/patch.rebased.diff" ] && p="$d/patch.rebased.diff"
  (cd "$work/r" && git reset -q --hard && git clean -qfd && git apply --3way "$p" >/dev/null 2>&1 && [ -z "$(git diff --name-only --diff-filter=U)" ]) || { echo "$s STALE"; continue; }
  id=${s%%-*}
  neighbours=$(/venv/bin/python -c "import json,sys; print(' '.join(json.load(open('$d/meta.json')).get('also_caught_by') or []))" 2>/dev/null)
  verdict=MISSED; by=""
  for c in $id $neighbours; do
    VERIF_REPO="$work/r" VERIF_OUT="$work/out" VERIF_SHRINK_S=0 "$here/check" "$c" quick >"$work/log" 2>&1; st=$?
    if [ $st -eq 1 ]; then verdict=CAUGHT; by="$by $c"; [ "$c" = "$id" ] && break; fi
    if [ $st -ge 2 ]; then by="$by $c(exit$st)"; fi
  done
  echo "$s $verdict$by"
  [ "$verdict" = CAUGHT ] || rc=1
done
exit $rc
