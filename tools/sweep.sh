#!/bin/sh
# tools/sweep.sh [budget_s] [seed] : thorough tier of every claimed check, one after the other
here=$(cd "$(dirname "$0")/.." && pwd)
B=${1:-300}; S=${2:-0}
rc=0
for id in C20 C16 C11 C10 C06 C14 C13 C15 C09 C07 C18 C19; do
  echo "=== $id"
  VERIF_SEED=$S VERIF_BUDGET_S=$B "$here/check" $id thorough 2>&1 | grep -E "^(C[0-9]+ thorough|VIOLATION|violation|KNOWN|HARNESS)" || rc=1
done
exit $rc
