#!/venv/bin/python
"""Run the pinned test suite of a cnfgen tree (default /repo) with the verification
guard OFF and compare with /root/.vp/BASELINE.json: every test in stable_pass
must still pass.  Exit 0 iff so.  Usage: baseline.py [repo_dir]"""
import json, os, subprocess, sys, tempfile
import xml.etree.ElementTree as ET

repo = sys.argv[1] if len(sys.argv) > 1 else "/repo"
base = json.load(open("/root/.vp/BASELINE.json"))
want = set(base["stable_pass"])
fd, xml = tempfile.mkstemp(suffix=".xml", dir="/dev/shm")
os.close(fd)
env = dict(os.environ)
env.pop("CNFGEN_VERIF", None)
env.pop("PYTHONPATH", None)
p = subprocess.run(["/venv/bin/python", "-m", "pytest", "-ra", "-q", "-p",
                    "no:cacheprovider", "--timeout=900",
                    "--continue-on-collection-errors", "--junitxml=" + xml],
                   cwd=repo, env=env, capture_output=True, text=True)
passed = set()
for tc in ET.parse(xml).getroot().iter("testcase"):
    if not any(ch.tag in ("failure", "error", "skipped") for ch in tc):
        passed.add("%s::%s" % (tc.get("classname"), tc.get("name")))
os.unlink(xml)
missing = sorted(want - passed)
print("baseline: %d stable tests expected, %d of them pass now, %d tests pass "
      "in total" % (len(want), len(want & passed), len(passed)))
for m in missing[:40]:
    print("NOT PASSING:", m)
sys.exit(1 if missing else 0)
