#!/bin/sh
# tools/revert_eval.sh [<commit>...] : does every repaired defect show up again if it returns?
# For each "fixed:" entry of known_findings.txt the repair commit is reverted on a scratch
# clone of /repo (3-way, later repairs nearby stay) and the quick check of the property is
# run against the clone: it must report a violation.  Prints one line per repair:
# CAUGHT / MISSED / CONFLICT (the reverse patch no longer applies: later repairs build on it).
here=$(cd "$(dirname "$0")/.." && pwd)
work=$(mktemp -d /dev/shm/cnfgen-revert.XXXXXX); trap 'rm -rf "$work"' EXIT
git clone -q /repo "$work/r" || exit 2
want="$*"
rc=0
grep '^fixed: ' "$here/known_findings.txt" | while read -r _ prop commit _; do
  id=${prop#property=}
  [ -n "$want" ] && { echo " $want " | grep -q " $commit " || continue; }
  (cd "$work/r" && git reset -q --hard && git clean -qfd && \
     git show "$commit" -- cnfgen > "$work/p.diff" && \
     git apply -R --3way "$work/p.diff" >/dev/null 2>&1 && \
     [ -z "$(git diff --name-only --diff-filter=U)" ]) || { echo "$commit $id CONFLICT"; continue; }
  (cd "$work/r" && /venv/bin/python -W ignore -c "import cnfgen, cnfgen.clitools.cnfgen, cnfgen.clitools.pbgen" >/dev/null 2>&1) || { echo "$commit $id CONFLICT (the tree no longer imports)"; continue; }
  VERIF_REPO="$work/r" VERIF_OUT="$work/out" VERIF_SHRINK_S=0 "$here/check" "$id" quick >"$work/log" 2>&1; st=$?
  case $st in
    1) echo "$commit $id CAUGHT";;
    0) echo "$commit $id MISSED";;
    *) echo "$commit $id HARNESS(exit$st)";;
  esac
done
