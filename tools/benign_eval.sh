#!/bin/sh
# tools/benign_eval.sh <ID> <n> [<check ids>...]
# A behaviour-preserving refactoring written by a sub-agent in /tmp/${BEN_PREFIX:-ben}-<ID>/_seed/<n>
# (kept as benign/<ID>-${BEN_TAG}<n>):
# the pinned suite and its own selfcheck must pass with the patch, and NO check may
# raise an alarm on it (exit 0 expected everywhere).  Kept under /verif/benign/<ID>-<n>/.
here=$(cd "$(dirname "$0")/.." && pwd)
id=$1; n=$2; shift 2
checks=${*:-$id}
src=/tmp/${BEN_PREFIX:-ben}-$id/_seed/$n
dst=$here/benign/$id-${BEN_TAG:-}$n
[ -f "$src/patch.diff" ] || { echo "no patch in $src"; exit 2; }
work=$(mktemp -d /dev/shm/cnfgen-benign.XXXXXX); trap 'rm -rf "$work"' EXIT
cp -r /repo "$work/repo" && rm -rf "$work/repo/.git"
(cd "$work/repo" && patch -p1 -s < "$src/patch.diff") || { echo "BENIGN $id-$n: patch does not apply"; exit 3; }
"$here/tools/baseline.py" "$work/repo" > "$work/baseline.log" 2>&1 || { echo "BENIGN $id-$n: pinned suite FAILS"; tail -3 "$work/baseline.log"; exit 4; }
if [ -f "$src/selfcheck.py" ]; then
  mkdir -p "$work/repo/_seed/$n" && cp "$src/selfcheck.py" "$work/repo/_seed/$n/"
  (cd "$work/repo" && timeout 300 /venv/bin/python "_seed/$n/selfcheck.py" > "$work/selfcheck.log" 2>&1); sc=$?
  rm -rf "$work/repo/_seed"
else sc=-1; fi
mkdir -p "$dst"; cp "$src/patch.diff" "$dst/"; cp "$src/README.md" "$dst/" 2>/dev/null; cp "$src/selfcheck.py" "$dst/" 2>/dev/null
echo "BENIGN $id-$n: pinned suite passes, selfcheck exit=$sc" | tee "$dst/check_output.txt"
rc=0
for c in $checks; do
  out=$(VERIF_REPO="$work/repo" VERIF_OUT="$work/out" VERIF_SHRINK_S=5 "$here/check" "$c" quick 2>&1); st=$?
  echo "$out" | grep -E "^(VIOLATION|violation signature|HARNESS|$c quick)" | head -6 | tee -a "$dst/check_output.txt"
  if [ $st -eq 0 ]; then echo "BENIGN $id-$n: $c quiet (ok)" | tee -a "$dst/check_output.txt"; else echo "BENIGN $id-$n: $c ALARM (exit $st)" | tee -a "$dst/check_output.txt"; rc=1
    mkdir -p "$dst/replays"; cp -r "$work/out/replays/$c" "$dst/replays/" 2>/dev/null; fi
done
exit $rc
