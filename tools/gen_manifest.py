#!/venv/bin/python
"""Regenerate /verif/MANIFEST.json from the metadata of the check modules."""
import importlib, json, os, sys
VERIF = os.path.dirname(os.path.dirname(os.path.abspath(__file__)))
sys.path.insert(0, VERIF)
sys.path.insert(0, os.environ.get("VERIF_REPO", "/repo"))
os.chdir(VERIF)

NA = [
 ("C01", "pure function (parameters, graph) -> clause set quantified over all assignments; no PRNG, stream, process or history for a simulator to own"),
 ("C02", "satisfiability <=> graph property is a pure function of the input graph and parameters; nothing to schedule or fault"),
 ("C03", "unsatisfiability of deterministic families is a pure function of the parameters; Pitfall's single random graph enters only as an input; needs a SAT/model-count oracle, not a fault model"),
 ("C04", "constraint builders are pure functions of (literals, operator, constant); the only stateful aspect (caller's list restored) is covered under C19"),
 ("C05", "formula -> formula composition with a gadget is pure; variable counts are covered under C10 and input integrity under C19"),
 ("C08", "equality of the model sets of two deterministic encodings; no nondeterminism, fault or history in the statement"),
 ("C12", "pure serialisers with no reader inside the system and no state; only 'header counts match body' is seen incidentally by the strict readers of C18"),
 ("C17", "differential equality of two deterministic call paths (CLI vs library); no fault, schedule or history in the statement"),
]
ORDER = ["C06", "C07", "C09", "C10", "C11", "C13", "C14", "C15", "C16", "C18", "C19", "C20"]
checks = []
served = []
for cid in ORDER:
    if not os.path.exists(os.path.join(VERIF, "checks", cid.lower() + ".py")):
        continue
    m = importlib.import_module("checks." + cid.lower())
    meta = m.MANIFEST
    served.append(cid)
    checks.append({
        "property_id": cid,
        "quick_cmd": "./check %s quick" % cid,
        "thorough_cmd": "./check %s thorough" % cid,
        "evidence_file": "/verif/evidence/%s.json" % cid,
        "replay_cmd_template": "./check %s --replay {path}" % cid,
        "engine": "detsim",
        "level_claimed": {"category": m.LEVEL, "text": meta["text"],
                          "design_ref": meta["design_ref"]},
        "level_note": meta["note"],
        "technique": meta["technique"],
    })
claimed = set(served)
na = [{"property_id": p, "reason": r} for p, r in NA]
for cid in ORDER:
    if cid not in claimed:
        na.append({"property_id": cid, "reason": "check under construction in this session (planned: DESIGN.md section 4); not claimed until its check is registered"})
man = {
 "version": 1,
 "setup_cmd": "true",
 "hooks": {
  "guard": "CNFGEN_VERIF",
  "enable": "no hook exists in /repo: every seam is a run-time rebinding done from /verif (random module and random._inst, builtins.open router, cnfgen.utils.solver.subprocess, sys streams, wrapped insertion/allocation methods); ./check exports CNFGEN_VERIF=1 only for uniformity",
  "baseline_off_cmd": "/verif/tools/baseline.py /repo",
  "source_commits": [],
  "add_only": True
 },
 "engines": [{"name": "detsim", "path": "/verif/detsim", "serves_properties": served,
   "kind_free_text": "hand-written deterministic simulator for a single-threaded Python library: seeded workload/fault generator (one integer decides everything), PRNG seam (SimRandom with transcript and bounded adversary), simulated raw devices / file system / std streams (SimIO), fake solver peers (SimSubprocess), history digests with determinism self-test, ddmin-style minimisation, replay files, known-findings file"}],
 "checks": checks,
 "not_applicable": na,
 "notes": "Technique family: deterministic simulation with fault injection. ./check <ID> quick|thorough, ./check <ID> --replay <file>; exit 0 held, 1 violation (VIOLATION line), 2 harness error. Genuine defects found and repaired are listed in known_findings.txt ('fixed:' lines) and DESIGN.md.",
}
json.dump(man, open("MANIFEST.json", "w"), indent=1)
print("MANIFEST.json: %d checks, %d not applicable" % (len(checks), len(na)))
