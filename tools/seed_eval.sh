#!/bin/sh
# tools/seed_eval.sh <ID> <n> [<check ids>...]
# Confirm a seeded change written by a sub-agent in /tmp/seed-<ID>/_seed/<n>
# (demo passes clean, fails patched; pinned suite passes patched), run the
# quick checks against it and store everything under /verif/seeded/<ID>-<n>/.
here=$(cd "$(dirname "$0")/.." && pwd)
id=$1; n=$2; shift 2
checks=${*:-$id}
wt=/tmp/${SEED_PREFIX:-seed}-$id
src=$wt/_seed/$n
dst=$here/seeded/$id-${SEED_TAG:-}$n
[ -f "$src/patch.diff" ] || { echo "no patch in $src"; exit 2; }
cd "$wt" || exit 2
git checkout -q -- . 
/venv/bin/python "$src/demo.py" > /dev/shm/seed-demo-clean.log 2>&1; c=$?
git apply "$src/patch.diff" || { echo "SEED: patch does not apply"; exit 3; }
/venv/bin/python "$src/demo.py" > /dev/shm/seed-demo-patched.log 2>&1; p=$?
git checkout -q -- .
echo "SEED $id-$n: demo clean exit=$c, patched exit=$p"
[ $c -eq 0 ] && [ $p -ne 0 ] || { echo "SEED: demonstration does not discriminate"; tail -5 /dev/shm/seed-demo-clean.log; exit 4; }
mkdir -p "$dst"
cp "$src/patch.diff" "$dst/patch.diff"; cp "$src/demo.py" "$dst/demo.py"; cp "$src/README.md" "$dst/README.md" 2>/dev/null
out=$("$here/tools/mutant.sh" "$dst/patch.diff" $checks 2>&1); rc=$?
echo "$out"
echo "$out" > "$dst/check_output.txt"
tail -3 /dev/shm/seed-demo-patched.log > "$dst/demo_output_patched.txt"
exit $rc
