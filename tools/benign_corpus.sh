#!/bin/sh
# tools/benign_corpus.sh [<benign dir names>...] : the behaviour-preserving refactorings of benign/
# applied (3-way) to a scratch clone of the current /repo; the quick check of the property (plus
# the checks in meta.json "also_run") must stay quiet.  Prints QUIET / ALARM / STALE per change.
here=$(cd "$(dirname "$0")/.." && pwd)
names=${*:-$(ls "$here/benign" | grep -v '\.txt$')}
work=$(mktemp -d /dev/shm/cnfgen-benign.XXXXXX); trap 'rm -rf "$work"' EXIT
git clone -q /repo "$work/r" || exit 2
rc=0
for s in $names; do
  d="$here/benign/$s"
  p="$d/patch.diff"; [ -f "$d/patch.rebased.diff" ] && p="$d/patch.rebased.diff"
  [ -f "$p" ] || continue
  (cd "$work/r" && git reset -q --hard && git clean -qfd && git apply --3way "$p" >/dev/null 2>&1 && [ -z "$(git diff --name-only --diff-filter=U)" ]) || { echo "$s STALE"; continue; }
  (cd "$work/r" && /venv/bin/python -W ignore -c "import cnfgen, cnfgen.clitools.cnfgen, cnfgen.clitools.pbgen" >/dev/null 2>&1) || { echo "$s STALE (no longer imports)"; continue; }
  id=${s%%-*}
  verdict=QUIET
  VERIF_REPO="$work/r" VERIF_OUT="$work/out" VERIF_SHRINK_S=0 "$here/check" "$id" quick >"$work/log" 2>&1; st=$?
  if [ $st -ne 0 ]; then verdict="ALARM(exit$st) $(grep 'violation signature\|HARNESS' "$work/log" | head -2 | tr '\n' ' ')"; rc=1; fi
  echo "$s $verdict"
done
exit $rc
