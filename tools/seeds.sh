#!/bin/sh
# tools/seeds.sh <tier> <seed>... : run every check once per VERIF_SEED (evidence to a
# scratch dir) and report anything that is not a clean exit 0.
here=$(cd "$(dirname "$0")/.." && pwd)
tier=$1; shift
work=$(mktemp -d /dev/shm/cnfgen-seeds.XXXXXX); trap 'rm -rf "$work"' EXIT
rc=0
for seed in "$@"; do
  for id in C06 C07 C09 C10 C11 C13 C14 C15 C16 C18 C19 C20; do
    out=$(VERIF_SEED=$seed VERIF_OUT=$work VERIF_BUDGET_S=${VERIF_BUDGET_S:-120} "$here/check" $id $tier 2>&1); st=$?
    echo "seed=$seed $(echo "$out" | grep -E "^$id $tier" | tail -1) exit=$st"
    if [ $st -ne 0 ]; then echo "$out" | grep -E "VIOLATION|violation signature|HARNESS" | head -5; rc=1; fi
  done
done
exit $rc
