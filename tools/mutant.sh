#!/bin/sh
# tools/mutant.sh <patch.diff> <ID> [<ID>...]
# Sensitivity self-test: copy /repo to a scratch dir on /dev/shm, apply the
# patch, check that the pinned suite still passes, run the quick checks of the
# given properties against the copy (evidence/replays go to the scratch dir),
# report, and remove the copy.   exit 0 = every listed check raised a VIOLATION
here=$(cd "$(dirname "$0")/.." && pwd)
patch=$(realpath "$1"); shift
work=$(mktemp -d /dev/shm/cnfgen-mutant.XXXXXX)
trap 'rm -rf "$work"' EXIT
cp -r /repo "$work/repo" && rm -rf "$work/repo/.git"
(cd "$work/repo" && patch -p1 -s < "$patch") || { echo "MUTANT: patch does not apply"; exit 3; }
if [ -z "$MUTANT_SKIP_BASELINE" ]; then
  "$here/tools/baseline.py" "$work/repo" > "$work/baseline.log" 2>&1 || { echo "MUTANT: pinned suite FAILS with this patch (not a valid mutant)"; tail -5 "$work/baseline.log"; exit 4; }
  echo "MUTANT: pinned suite still passes"
fi
rc=0
for id in "$@"; do
  out=$(VERIF_REPO="$work/repo" VERIF_OUT="$work/out" VERIF_SHRINK_S=5 "$here/check" "$id" quick 2>&1)
  st=$?
  echo "$out" | grep -E "^(VIOLATION|violation signature|HARNESS|$id quick)" | head -8
  if [ $st -eq 1 ]; then echo "MUTANT: $id CAUGHT"; else echo "MUTANT: $id MISSED (exit $st)"; rc=1; fi
done
exit $rc
