#!/bin/sh
# tools/determinism.sh [ids...] : run the quick tier of each check three times -
# 16 workers / hash seed 0, 5 workers / hash seed 0, 16 workers / hash seed 31337 -
# and compare the digest of the recorded histories (evidence goes to a scratch dir).
here=$(cd "$(dirname "$0")/.." && pwd)
ids=${*:-C06 C07 C09 C10 C11 C13 C14 C15 C16 C18 C19 C20}
work=$(mktemp -d /dev/shm/cnfgen-determinism.XXXXXX); trap 'rm -rf "$work"' EXIT
rc=0
for id in $ids; do
  d=""
  for cfg in "16 0" "5 0" "16 31337"; do
    set -- $cfg
    VERIF_OUT=$work VERIF_JOBS=$1 PYTHONHASHSEED=$2 "$here/check" $id quick >/dev/null 2>&1 || { echo "$id: check failed (jobs=$1 hashseed=$2)"; rc=1; }
    h=$(/venv/bin/python -c "import json;print(json.load(open('$work/evidence/$id.json'))['coverage']['history_digest_of_sample'])")
    d="$d $h"
  done
  set -- $d
  if [ "$1" = "$2" ] && [ "$2" = "$3" ]; then echo "$id: deterministic ($1)"; else echo "$id: DIGESTS DIFFER: $d"; rc=1; fi
done
exit $rc
