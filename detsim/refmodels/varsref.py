"""Reference model for variable groups: index lists in identifier order and
the table of variable names.  Nothing here imports cnfgen."""
import itertools


def _prod(ranges):
    return list(itertools.product(*[range(1, r + 1) for r in ranges]))


def ceil_log2(m):
    """Smallest k with m <= 2**k (integer arithmetic)."""
    k = 0
    while (1 << k) < m:
        k += 1
    return k


def expected_indices(op):
    """Index tuples of the group created by *op*, in identifier order."""
    kind = op["op"]
    if kind == "new_variable":
        return [()]
    if kind == "new_block":
        return _prod(op["ranges"])
    if kind in ("new_combinations", "new_permutations", "new_words",
                "new_combinations_with_replacement"):
        n, k = op["n"], op["k"]
        if kind == "new_permutations" and k is None:
            k = n
        allw = itertools.product(range(1, n + 1), repeat=k)
        if kind == "new_words":
            return list(allw)
        if kind == "new_combinations":
            return [w for w in allw
                    if all(w[i] < w[i + 1] for i in range(k - 1))]
        if kind == "new_combinations_with_replacement":
            return [w for w in allw
                    if all(w[i] <= w[i + 1] for i in range(k - 1))]
        return [w for w in allw if len(set(w)) == k]
    if kind in ("new_bipartite_edges", "new_sparse_mapping"):
        g = op["graph"]
        if g.get("complete"):
            return _prod([g["L"], g["R"]])
        return sorted(set(tuple(e) for e in g["edges"]))
    if kind == "new_graph_edges":
        g = op["graph"]
        return sorted(set((min(a, b), max(a, b)) for a, b in g["edges"]))
    if kind == "new_digraph_edges":
        g = op["graph"]
        es = set(tuple(e) for e in g["edges"])
        if op.get("sortby", "pred") == "pred":
            return sorted(es)
        return sorted(es, key=lambda e: (e[1], e[0]))
    if kind == "new_mapping":
        return _prod([op["n"], op["m"]])
    if kind == "new_binary_mapping":
        k = ceil_log2(op["m"])
        return [(i, b) for i in range(1, op["n"] + 1)
                for b in range(k - 1, -1, -1)]
    raise KeyError(kind)


DEFAULT_LABEL = {
    "new_combinations": "p_{{{}}}", "new_permutations": "p_{{{}}}",
    "new_words": "p_{{{}}}", "new_combinations_with_replacement": "p_{{{}}}",
    "new_bipartite_edges": "e({},{})", "new_graph_edges": "e({},{})",
    "new_digraph_edges": "e({},{})", "new_mapping": "f({})={}",
    "new_sparse_mapping": "f({})={}", "new_binary_mapping": "v({},{})",
}


def expected_label(op, index):
    kind = op["op"]
    label = op.get("label")
    if kind == "new_variable":
        return label                      # None: no documented name
    if kind == "new_block":
        if label is None:
            label = "X(" + ",".join(["{}"] * len(op["ranges"])) + ")"
        return label.format(*index)
    if label is None:
        label = DEFAULT_LABEL[kind]
    if kind in ("new_combinations", "new_permutations", "new_words",
                "new_combinations_with_replacement"):
        return label.format(",".join(str(x) for x in index))
    return label.format(*index)


def matches(kind, pattern, index):
    """Does *index* match the wildcard *pattern* for a group of this kind?"""
    if kind == "new_graph_edges":
        u, v = pattern
        if u is not None and v is not None:
            return tuple(sorted((u, v))) == tuple(index)
        w = u if u is not None else v
        return w is None or w in index
    return all(p is None or p == i for p, i in zip(pattern, index))
