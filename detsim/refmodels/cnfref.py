"""Reference models for CNF formulas: independent, deliberately naive.

Nothing here imports cnfgen.
"""
import itertools
import re

_INT = re.compile(r"^-?[0-9]+$")
_PLUS_INT = re.compile(r"^\+[0-9]+$")
_BLANKS = " \t\n\r\x0b\x0c"


def _tokens(line):
    return [t for t in re.split("[ \t\n\r\x0b\x0c]+", line) if t]


class Valid:
    def __init__(self, n, clauses):
        self.n = n
        self.clauses = clauses

    def __repr__(self):
        return "Valid(%d,%r)" % (self.n, self.clauses)


class Invalid:
    def __init__(self, why, detail=""):
        self.why = why
        self.detail = detail

    def __repr__(self):
        return "Invalid(%s)" % self.why


class Gray:
    def __init__(self, why):
        self.why = why

    def __repr__(self):
        return "Gray(%s)" % self.why


def _python_int_accepts(tok):
    try:
        int(tok)
        return True
    except ValueError:
        return False


def read_dimacs(text):
    """Three-valued reference DIMACS reader (DESIGN.md appendix B).

    *text* is a str (already decoded).  Returns Valid | Invalid | Gray.
    """
    # universal newlines as a text-mode file gives them
    lines = text.replace("\r\n", "\n").replace("\r", "\n").split("\n")
    n = m = None
    clauses = []
    cur = []
    gray = None
    for raw in lines:
        # blanks are the ASCII ones: U+001C..U+001F, U+0085, U+2028, ... are
        # white space for python, not for DIMACS
        line = raw.strip(_BLANKS)
        if line == "" or line[0] == "c":
            continue
        if line[0] == "p":
            if n is not None:
                return Invalid("second problem line")
            toks = _tokens(line)
            if len(toks) != 4:
                return Invalid("ill-formed problem line")
            if toks[0] != "p":
                # e.g. 'pcnf 3 2 1': first token is not exactly 'p'
                return Invalid("first token of problem line is not 'p'")
            if toks[1] != "cnf":
                # 'p wcnf', 'p dnf', ...: another format, not a CNF
                return Invalid("problem line format is not 'cnf'")
            for t in toks[2:]:
                if not _INT.match(t):
                    if _PLUS_INT.match(t):
                        gray = gray or "integer written with a plus sign"
                    else:
                        # '1_0', non-ASCII digits: integers for python,
                        # not for DIMACS
                        return Invalid("non-numeric count")
            try:
                n, m = int(toks[2]), int(toks[3])
            except ValueError:
                return Invalid("non-numeric count")
            if n < 0 or m < 0:
                return Invalid("negative count")
            continue
        if n is None:
            return Invalid("clause before problem line")
        for tok in _tokens(line):
            if not _INT.match(tok):
                if _PLUS_INT.match(tok):
                    gray = gray or "integer written with a plus sign"
                else:
                    return Invalid("non-integer token", repr(tok))
            v = int(tok)
            if v == 0:
                clauses.append(tuple(cur))
                cur = []
            elif abs(v) > n:
                return Invalid("literal out of range")
            else:
                cur.append(v)
    if n is None:
        return Invalid("no problem line")
    if cur:
        return Invalid("unterminated clause")
    if len(clauses) != m:
        return Invalid("clause count mismatch")
    if gray:
        return Gray(gray)
    return Valid(n, clauses)


def scan_dimacs_output(text):
    """Strict scanner for text *produced* by a writer.

    Returns (n, m, clauses, problems) where problems is a list of strings
    describing departures from: comment lines, exactly one 'p cnf n m', then
    only comment lines or clause lines of integers ending in 0.
    """
    problems = []
    n = m = None
    clauses = []
    if text and not text.endswith("\n"):
        problems.append("text does not end with a newline")
    lines = text.split("\n")
    if lines and lines[-1] == "":
        lines = lines[:-1]
    for k, line in enumerate(lines, start=1):
        if "\r" in line:
            problems.append("line %d contains a carriage return" % k)
        if line.startswith("c"):
            continue
        if line.startswith("p"):
            if n is not None:
                problems.append("line %d: second problem line" % k)
                continue
            mo = re.match(r"^p cnf ([0-9]+) ([0-9]+)$", line)
            if not mo:
                problems.append("line %d: ill-formed problem line %r" %
                                (k, line[:60]))
                continue
            n, m = int(mo.group(1)), int(mo.group(2))
            continue
        if n is None:
            problems.append("line %d: non-comment line before the problem "
                            "line: %r" % (k, line[:60]))
            continue
        toks = line.split()
        if not toks or any(not _INT.match(t) for t in toks):
            problems.append("line %d: not a clause line: %r" % (k, line[:60]))
            continue
        if toks[-1] != "0" or "0" in toks[:-1]:
            problems.append("line %d: clause line must contain exactly one "
                            "terminating 0: %r" % (k, line[:60]))
            continue
        clauses.append(tuple(int(t) for t in toks[:-1]))
    if n is None:
        problems.append("no problem line")
    return n, m, clauses, problems


def evaluate(clauses, assignment):
    """assignment: dict var -> bool (total on the variables that occur)."""
    for c in clauses:
        for l in c:
            if assignment[abs(l)] == (l > 0):
                break
        else:
            return False
    return True


def models(n, clauses, limit=None):
    """All models over variables 1..n as tuples of literals (ascending)."""
    out = []
    cl = [tuple(c) for c in clauses]
    for bits in itertools.product((False, True), repeat=n):
        ok = True
        for c in cl:
            for l in c:
                if bits[abs(l) - 1] == (l > 0):
                    break
            else:
                ok = False
                break
        if ok:
            out.append(tuple((i + 1) if b else -(i + 1)
                             for i, b in enumerate(bits)))
            if limit is not None and len(out) >= limit:
                break
    return out


def count_models(n, clauses):
    return len(models(n, clauses))


def satisfies(clauses, lits):
    s = set(lits)
    for c in clauses:
        if not any(l in s for l in c):
            return False
    return True


def random_cnf(rng, max_vars=8, max_clauses=12, allow_empty_clause=True,
               allow_taut=True):
    """Small random CNF as (n, clauses); n may exceed the largest used var."""
    n = rng.choice([0, 1, 2, 3, 3, 4, 5, 6, max_vars])
    n = min(n, max_vars)
    m = rng.choice([0, 1, 2, 3, 5, 8, max_clauses])
    m = min(m, max_clauses)
    clauses = []
    for _ in range(m):
        if n == 0:
            clauses.append([])
            continue
        w = rng.choice([0, 1, 2, 2, 3, 3, 4]) if allow_empty_clause else \
            rng.choice([1, 2, 2, 3, 3, 4])
        c = []
        for _ in range(w):
            v = rng.randint(1, n)
            c.append(v if rng.random() < 0.5 else -v)
        if not allow_taut:
            seen = set()
            c2 = []
            for l in c:
                if abs(l) not in seen:
                    seen.add(abs(l))
                    c2.append(l)
            c = c2
        clauses.append(c)
    if not allow_empty_clause:
        clauses = [c for c in clauses if c]
    return n, clauses


# ---------------------------------------------------------------------------
# strict scanners for the other two output formats (used by C18)

_OPB_HEAD = re.compile(r"^\* #variable= ([0-9]+) #constraint= ([0-9]+)$")
_OPB_TERM = re.compile(r"^[+-]?[0-9]+$")
_OPB_VAR = re.compile(r"^~?x([0-9]+)$")


def scan_opb_output(text):
    """(n, m, problems) for text produced by an OPB writer."""
    problems = []
    if text and not text.endswith("\n"):
        problems.append("text does not end with a newline")
    lines = text.split("\n")
    if lines and lines[-1] == "":
        lines = lines[:-1]
    if not lines:
        return None, None, ["empty output"]
    mo = _OPB_HEAD.match(lines[0])
    if not mo:
        return None, None, ["first line is not '* #variable= n #constraint= "
                            "m': %r" % lines[0][:80]]
    n, m = int(mo.group(1)), int(mo.group(2))
    cnt = 0
    for k, line in enumerate(lines[1:], start=2):
        if line.startswith("*"):
            continue
        toks = line.rstrip(";").split()
        if len(toks) < 2 or toks[-2] not in (">=", "=") or \
                not re.match(r"^-?[0-9]+$", toks[-1]) or \
                (len(toks) - 2) % 2 != 0:
            problems.append("line %d: not a constraint: %r" % (k, line[:80]))
            continue
        ok = True
        for i in range(0, len(toks) - 2, 2):
            mv = _OPB_VAR.match(toks[i + 1])
            if not _OPB_TERM.match(toks[i]) or not mv or \
                    not 1 <= int(mv.group(1)) <= n:
                ok = False
        if not ok:
            problems.append("line %d: bad term in %r (n=%d)" %
                            (k, line[:80], n))
            continue
        cnt += 1
    if cnt != m:
        problems.append("header says %d constraints, body has %d" % (m, cnt))
    return n, m, problems


def scan_latex_output(text):
    """problems for a full LaTeX document produced by the writer."""
    problems = []
    if "\\documentclass" not in text:
        problems.append("no \\documentclass")
    if text.count("\\begin{document}") != 1:
        problems.append("\\begin{document} occurs %d times" %
                        text.count("\\begin{document}"))
    if not text.rstrip().endswith("\\end{document}"):
        problems.append("does not end with \\end{document}")
    body = text.split("\\begin{document}")[-1]
    depth = 0
    pos = 0
    nalign = 0
    while True:
        a = body.find("\\begin{align}", pos)
        b = body.find("\\end{align}", pos)
        if a == -1 and b == -1:
            break
        if a != -1 and (b == -1 or a < b):
            depth += 1
            nalign += 1
            pos = a + 1
            if depth > 1:
                problems.append("nested align")
                break
        else:
            depth -= 1
            pos = b + 1
            if depth < 0:
                problems.append("\\end{align} without \\begin{align}")
                break
    if depth != 0 and not problems:
        problems.append("unbalanced align environments")
    if nalign == 0:
        problems.append("no align environment")
    if not problems:
        problems += tex_lexical_problems(body)
    return problems


def tex_lexical_problems(body):
    """What TeX itself would stumble on, by its lexical rules: '%' starts a
    comment (and so can swallow a closing brace), braces must balance,
    '#' '&' '^' '_' are special outside verbatim material (and outside math
    / alignments for the last three), '\\verb' ends on its line, a
    paragraph cannot end inside the argument of \\title."""
    problems = []
    i, n = 0, len(body)
    depth = 0
    math = False            # inside an align environment or $...$
    dollar = False
    title_depth = None
    while i < n and len(problems) < 5:
        if body.startswith("\\begin{lstlisting}", i):
            j = body.find("\\end{lstlisting}", i)
            if j == -1:
                problems.append("lstlisting not closed")
                break
            i = j + len("\\end{lstlisting}")
            continue
        if body.startswith("\\verb", i) and i + 5 < n and \
                not body[i + 5].isalpha():
            d = body[i + 5]
            j = body.find(d, i + 6)
            nl = body.find("\n", i + 6)
            if j == -1 or (nl != -1 and nl < j):
                problems.append("\\verb not closed on its line")
                break
            i = j + 1
            continue
        if body.startswith("\\begin{align}", i):
            math = True
            i += len("\\begin{align}")
            continue
        if body.startswith("\\end{align}", i):
            math = False
            i += len("\\end{align}")
            continue
        if body.startswith("\\title{", i):
            title_depth = depth
            depth += 1
            i += len("\\title{")
            continue
        c = body[i]
        if c == "\\":
            i += 2              # an escaped character / a control sequence
            continue
        if c == "%":
            j = body.find("\n", i)
            i = n if j == -1 else j + 1
            continue
        if c == "{":
            depth += 1
        elif c == "}":
            depth -= 1
            if depth < 0:
                problems.append("closing brace without an opening one")
                break
            if title_depth is not None and depth == title_depth:
                title_depth = None
        elif c == "$":
            dollar = not dollar
        elif c == "#":
            problems.append("unescaped '#'")
        elif c == "&" and not math:
            problems.append("unescaped '&' outside an alignment")
        elif c in "^_" and not (math or dollar):
            problems.append("unescaped %r outside math" % c)
        elif c == "\n" and title_depth is not None and \
                body[i + 1:i + 2] == "\n":
            problems.append("paragraph ends inside the title")
        i += 1
    if not problems:
        if depth != 0:
            problems.append("unbalanced braces (%+d at the end)" % depth)
        if dollar:
            problems.append("unbalanced $")
    return problems


_CLAUSE_LINE = re.compile(r"^(-?[0-9]+ )*0$")
_OPB_LINE = re.compile(r"^([+-]?[0-9]+ ~?x[0-9]+ )*(>=|=) -?[0-9]+ ?;?$")


def formula_fragments(text):
    """Lines of *text* that look like part of a formula in any format."""
    out = []
    for line in text.split("\n"):
        s = line.strip()
        if s.startswith("p cnf ") or s.startswith("* #variable=") or \
                "\\begin{document}" in s or "\\begin{align}" in s or \
                "\\documentclass" in s:
            out.append(line)
        elif s and (_CLAUSE_LINE.match(s) or _OPB_LINE.match(s)):
            out.append(line)
    return out
