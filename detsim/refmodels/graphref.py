"""Reference models for graphs: a vertex count and a set of edges.

Nothing here imports cnfgen.
"""


class RefSimple:
    kind = "simple"

    def __init__(self, n):
        self.n = n
        self.E = set()          # (min, max)

    def valid(self, u, v):
        return _isint(u) and _isint(v) and 1 <= u <= self.n and \
            1 <= v <= self.n and u != v

    def add(self, u, v):
        self.E.add((min(u, v), max(u, v)))

    def remove(self, u, v):
        self.E.discard((min(u, v), max(u, v)))

    def has(self, u, v):
        return (min(u, v), max(u, v)) in self.E if (_isint(u) and _isint(v)) \
            else False

    def edges(self):
        return sorted(self.E)

    def neighbors(self, u):
        return sorted([b for (a, b) in self.E if a == u] +
                      [a for (a, b) in self.E if b == u])

    def copy(self):
        c = RefSimple(self.n)
        c.E = set(self.E)
        return c

    def state(self):
        return (self.n, sorted(self.E))


class RefDirected:
    kind = "digraph"

    def __init__(self, n):
        self.n = n
        self.E = set()          # (src, dest)

    def valid(self, u, v):
        return _isint(u) and _isint(v) and 1 <= u <= self.n and \
            1 <= v <= self.n

    def add(self, u, v):
        self.E.add((u, v))

    def has(self, u, v):
        return (u, v) in self.E

    def edges(self):
        return sorted(self.E)

    def edges_by_dest(self):
        return sorted(self.E, key=lambda e: (e[1], e[0]))

    def succ(self, u):
        return sorted(b for (a, b) in self.E if a == u)

    def pred(self, v):
        return sorted(a for (a, b) in self.E if b == v)

    def is_dag(self):
        return all(a < b for (a, b) in self.E)

    def copy(self):
        c = RefDirected(self.n)
        c.E = set(self.E)
        return c

    def state(self):
        return (self.n, sorted(self.E))


class RefBipartite:
    kind = "bipartite"

    def __init__(self, L, R):
        self.L = L
        self.R = R
        self.E = set()          # (left, right)

    def valid(self, u, v):
        return _isint(u) and _isint(v) and 1 <= u <= self.L and \
            1 <= v <= self.R

    def add(self, u, v):
        self.E.add((u, v))

    def has(self, u, v):
        return (u, v) in self.E

    def edges(self):
        return sorted(self.E)

    def right_neighbors(self, u):
        return sorted(b for (a, b) in self.E if a == u)

    def left_neighbors(self, v):
        return sorted(a for (a, b) in self.E if b == v)

    def copy(self):
        c = RefBipartite(self.L, self.R)
        c.E = set(self.E)
        return c

    def state(self):
        return (self.L, self.R, sorted(self.E))


def _isint(x):
    return isinstance(x, int) and not isinstance(x, bool)


# ---------------------------------------------------------------------------
# three-valued reference readers for the in-house graph file formats

import re

_INT = re.compile(r"^-?[0-9]+$")


class Valid:
    def __init__(self, graph):
        self.graph = graph


class Invalid:
    def __init__(self, why):
        self.why = why


class Gray:
    def __init__(self, why):
        self.why = why


def _lines(text):
    return text.replace("\r\n", "\n").replace("\r", "\n").split("\n")


_PLUS_INT = re.compile(r"^\+[0-9]+$")
_BLANKS = " \t\n\r\x0b\x0c"


def _split(s):
    """Fields separated by ASCII blanks (U+001C, U+0085, U+2028 ... are
    white space for python, not for a graph file)."""
    return [f for f in re.split("[ \t\n\r\x0b\x0c]+", s) if f != ""]


def _tok_int(tok):
    """int | 'gray' (written with a plus sign) | None (not a number:
    '1_0' and non-ASCII digits are integers for python only)"""
    if _INT.match(tok):
        return int(tok)
    if _PLUS_INT.match(tok):
        return "gray"
    return None


def read_kthlist(text, gtype):
    """gtype in simple | digraph | dag | bipartite."""
    n = None
    rows = []
    gray = None
    for raw in _lines(text):
        if raw[:1] == "c":
            continue
        if raw.strip(_BLANKS) == "":
            continue
        if raw.lstrip(_BLANKS)[:1] == "c":
            gray = gray or "comment line with leading blanks"
            continue
        if ":" not in raw:
            if n is not None:
                return Invalid("second size line")
            toks = _split(raw)
            if len(toks) != 1:
                return Invalid("ill-formed size line")
            v = _tok_int(toks[0])
            if v is None:
                return Invalid("non-numeric size")
            if v == "gray":
                gray = gray or "integer written with a plus sign"
                v = int(toks[0])
            if v < 0:
                return Invalid("negative size")
            n = v
            continue
        if n is None:
            return Invalid("adjacency line before the size line")
        parts = raw.split(":")
        if len(parts) != 2:
            return Invalid("more than one colon")
        lt = _split(parts[0])
        if len(lt) != 1:
            return Invalid("ill-formed vertex")
        nums = []
        for tok in lt + _split(parts[1]):
            v = _tok_int(tok)
            if v is None:
                return Invalid("non-integer token")
            if v == "gray":
                gray = gray or "integer written with a plus sign"
                v = int(tok)
            nums.append(v)
        v, us = nums[0], nums[1:]
        if not us or us[-1] != 0:
            return Invalid("adjacency line does not end with 0")
        us = us[:-1]
        if not 1 <= v <= n or any(not 1 <= u <= n for u in us):
            return Invalid("vertex out of range")
        rows.append((v, us))
    if n is None:
        return Invalid("no size line")
    for (a, _), (b, _) in zip(rows, rows[1:]):
        if b <= a:
            return Invalid("vertex lines not in increasing order")
    if gtype == "bipartite":
        L = max([v for v, _ in rows] or [0])
        g = RefBipartite(L, n - L)
        for v, us in rows:
            for u in us:
                if u <= L:
                    return Invalid("edge inside the left side")
                g.add(v, u - L)
    elif gtype == "simple":
        g = RefSimple(n)
        for v, us in rows:
            for u in us:
                if u == v:
                    return Invalid("self loop in a simple graph")
                g.add(u, v)
    else:
        g = RefDirected(n)
        for v, us in rows:
            for u in us:
                g.add(u, v)
        if gtype == "dag" and not g.is_dag():
            return Invalid("not topologically sorted")
    if gray:
        return Gray(gray)
    return Valid(g)


def read_dimacs_edge(text, gtype):
    n = m = None
    g = None
    cnt = 0
    gray = None
    seen = set()
    for raw in _lines(text):
        line = raw.strip(_BLANKS)
        if line == "" or line[0] == "c":
            continue
        toks = _split(line)
        if line[0] == "p":
            if n is not None:
                return Invalid("second problem line")
            if len(toks) != 4:
                return Invalid("ill-formed problem line")
            if toks[0] != "p":
                return Invalid("first token of problem line is not 'p'")
            if toks[1] != "edge":
                if toks[1] in ("col", "edges"):
                    return Gray("problem line format is %r" % toks[1])
                return Invalid("problem line format is not 'edge'")
            vals = []
            for t in toks[2:]:
                v = _tok_int(t)
                if v is None:
                    return Invalid("non-numeric count")
                if v == "gray":
                    gray = gray or "integer written with a plus sign"
                    v = int(t)
                vals.append(v)
            n, m = vals
            if n < 0:
                return Invalid("negative vertex count")
            g = RefSimple(n) if gtype == "simple" else RefDirected(n)
            continue
        if line[0] == "e":
            if n is None:
                return Invalid("edge before the problem line")
            if len(toks) != 3:
                return Invalid("ill-formed edge line")
            if toks[0] != "e":
                return Invalid("first token of an edge line is not 'e'")
            vals = []
            for t in toks[1:]:
                v = _tok_int(t)
                if v is None:
                    return Invalid("non-integer vertex")
                if v == "gray":
                    gray = gray or "integer written with a plus sign"
                    v = int(t)
                vals.append(v)
            u, v = vals
            if not g.valid(u, v):
                return Invalid("edge not allowed (range / self loop)")
            key = (min(u, v), max(u, v)) if gtype == "simple" else (u, v)
            if key in seen:
                gray = gray or "duplicate edge line"
            seen.add(key)
            g.add(u, v)
            cnt += 1
            continue
        gray = gray or "line of unknown type"
    if n is None:
        return Invalid("no problem line")
    if cnt != m:
        return Invalid("edge count mismatch")
    if gtype == "dag" and not g.is_dag():
        return Invalid("not topologically sorted")
    if gray:
        return Gray(gray)
    return Valid(g)


def read_matrix(text):
    nums = []
    gray = None
    for raw in _lines(text):
        toks = _split(raw)
        if not toks or toks[0][0] == "#":
            continue
        for t in toks:
            v = _tok_int(t)
            if v is None:
                return Invalid("non numeric entry")
            if v == "gray":
                gray = gray or "integer written with a plus sign"
                v = int(t)
            nums.append(v)
    if len(nums) < 2:
        return Invalid("missing dimensions")
    L, R = nums[0], nums[1]
    if L < 0 or R < 0:
        return Invalid("negative dimension")
    body = nums[2:]
    if len(body) != L * R:
        return Invalid("wrong number of entries")
    g = RefBipartite(L, R)
    for i in range(L):
        for j in range(R):
            b = body[i * R + j]
            if b == 1:
                g.add(i + 1, j + 1)
            elif b != 0:
                return Invalid("entry is not 0 or 1")
    if gray:
        return Gray(gray)
    return Valid(g)
