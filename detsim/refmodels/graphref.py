"""Reference models for graphs: a vertex count and a set of edges.

Nothing here imports cnfgen.
"""


class RefSimple:
    kind = "simple"

    def __init__(self, n):
        self.n = n
        self.E = set()          # (min, max)

    def valid(self, u, v):
        return _isint(u) and _isint(v) and 1 <= u <= self.n and \
            1 <= v <= self.n and u != v

    def add(self, u, v):
        self.E.add((min(u, v), max(u, v)))

    def remove(self, u, v):
        self.E.discard((min(u, v), max(u, v)))

    def has(self, u, v):
        return (min(u, v), max(u, v)) in self.E if (_isint(u) and _isint(v)) \
            else False

    def edges(self):
        return sorted(self.E)

    def neighbors(self, u):
        return sorted([b for (a, b) in self.E if a == u] +
                      [a for (a, b) in self.E if b == u])

    def copy(self):
        c = RefSimple(self.n)
        c.E = set(self.E)
        return c

    def state(self):
        return (self.n, sorted(self.E))


class RefDirected:
    kind = "digraph"

    def __init__(self, n):
        self.n = n
        self.E = set()          # (src, dest)

    def valid(self, u, v):
        return _isint(u) and _isint(v) and 1 <= u <= self.n and \
            1 <= v <= self.n

    def add(self, u, v):
        self.E.add((u, v))

    def has(self, u, v):
        return (u, v) in self.E

    def edges(self):
        return sorted(self.E)

    def edges_by_dest(self):
        return sorted(self.E, key=lambda e: (e[1], e[0]))

    def succ(self, u):
        return sorted(b for (a, b) in self.E if a == u)

    def pred(self, v):
        return sorted(a for (a, b) in self.E if b == v)

    def is_dag(self):
        return all(a < b for (a, b) in self.E)

    def copy(self):
        c = RefDirected(self.n)
        c.E = set(self.E)
        return c

    def state(self):
        return (self.n, sorted(self.E))


class RefBipartite:
    kind = "bipartite"

    def __init__(self, L, R):
        self.L = L
        self.R = R
        self.E = set()          # (left, right)

    def valid(self, u, v):
        return _isint(u) and _isint(v) and 1 <= u <= self.L and \
            1 <= v <= self.R

    def add(self, u, v):
        self.E.add((u, v))

    def has(self, u, v):
        return (u, v) in self.E

    def edges(self):
        return sorted(self.E)

    def right_neighbors(self, u):
        return sorted(b for (a, b) in self.E if a == u)

    def left_neighbors(self, v):
        return sorted(a for (a, b) in self.E if b == v)

    def copy(self):
        c = RefBipartite(self.L, self.R)
        c.E = set(self.E)
        return c

    def state(self):
        return (self.L, self.R, sorted(self.E))


def _isint(x):
    return isinstance(x, int) and not isinstance(x, bool)
