"""Core objects of the deterministic simulator: seeds, histories, violations.

Nothing in this module draws from the global ``random`` module or reads a
clock; every choice made for run *i* of a batch comes from
``random.Random(subseed(...))`` objects private to the harness.
"""
import hashlib
import json
import random
import traceback
from collections import Counter


def subseed(*parts):
    """64-bit integer derived from the parts (strings / ints) with blake2b."""
    h = hashlib.blake2b("/".join(str(p) for p in parts).encode("utf-8"),
                        digest_size=8)
    return int.from_bytes(h.digest(), "big")


def rng_for(*parts):
    return random.Random(subseed(*parts))


def canon(obj):
    """Canonical JSON text (sorted keys, no whitespace, ASCII)."""
    return json.dumps(obj, sort_keys=True, separators=(",", ":"),
                      ensure_ascii=True, default=_default)


def _default(o):
    if isinstance(o, (set, frozenset)):
        return sorted(o, key=repr)
    if isinstance(o, bytes):
        return {"__bytes__": o.hex()}
    if isinstance(o, tuple):
        return list(o)
    if isinstance(o, range):
        return {"__range__": [o.start, o.stop, o.step]}
    raise TypeError("not canonicalisable: %r" % type(o))


def digest_of(obj):
    return hashlib.sha256(canon(obj).encode("ascii")).hexdigest()


class Violation(Exception):
    """The property under check is contradicted by what the real code did.

    signature : stable identifier of *what* failed (oracle clause, and for
                escaping exceptions the type and innermost cnfgen frame);
                used for de-duplication, known findings and for deciding
                that a shrunk candidate still shows the same failure.
    detail    : human readable description (not part of the identity).
    """

    def __init__(self, signature, detail=""):
        super().__init__(signature + ": " + str(detail)[:2000])
        self.signature = signature
        self.detail = str(detail)[:4000]


class HarnessError(Exception):
    """The machinery itself is wrong / could not run: never a pass."""


class RunTimeout(BaseException):
    """Raised by the per-run watchdog (SIGALRM)."""


class Ctx:
    """Per-run context: event log, fault/probe counters, shape key."""

    __slots__ = ("events", "fired", "probes", "notes", "shape", "nontrivial",
                 "steps", "hasher", "nevents")

    def __init__(self):
        self.events = None          # kept only when asked (replay / samples)
        self.fired = Counter()      # fault kind -> times it actually fired
        self.probes = Counter()     # rare-branch probes that were hit
        self.notes = Counter()      # gray-zone observations (never alarms)
        self.shape = None           # hashable: what makes this run distinct
        self.nontrivial = False
        self.steps = 0
        self.hasher = hashlib.sha256()
        self.nevents = 0

    def keep_events(self):
        self.events = []

    def log(self, *event):
        """Append an event to the run history (canonical JSON)."""
        text = canon(event)
        self.hasher.update(text.encode("ascii"))
        self.hasher.update(b"\n")
        self.nevents += 1
        self.steps += 1
        if self.events is not None:
            self.events.append(json.loads(text))

    def fault(self, kind, n=1):
        self.fired[kind] += n

    def probe(self, name, n=1):
        self.probes[name] += n

    def note(self, name, n=1):
        self.notes[name] += n

    def digest(self):
        return self.hasher.hexdigest()


def exc_signature(exc, repo_root):
    """'<Type>@<innermost frame inside the code under test>'."""
    tb = traceback.extract_tb(exc.__traceback__)
    where = "?"
    root = repo_root.rstrip("/") + "/"
    for fr in tb:
        if fr.filename.startswith(root):
            where = fr.filename[len(root):] + ":" + fr.name
    return "%s@%s" % (type(exc).__name__, where)


def call(fn, *args, **kwargs):
    """Call into the code under test; return ('ok', value) | ('exc', e).

    Only ``Exception`` is captured: the watchdog's RunTimeout, SystemExit
    and KeyboardInterrupt pass through.
    """
    try:
        return ("ok", fn(*args, **kwargs))
    except Exception as e:          # noqa: BLE001 - this is the point
        return ("exc", e)
