"""Minimisation of a failing case (plain JSON data).

Greedy structural shrinking: lists lose chunks (ddmin style: halves,
quarters, ..., single elements), integers move towards 0, sub-structures are
shrunk recursively.  A candidate is kept only if ``still_fails(candidate)``
(same violation signature).  A check can provide ``shrink_candidates(case)``
for domain specific steps that are tried first, and ``SHRINK_SKIP`` (keys
whose values are left alone).
"""
import copy
import time


def _list_removals(lst):
    n = len(lst)
    size = n // 2
    while size >= 1:
        for start in range(0, n, size):
            if start + size <= n or start < n:
                yield lst[:start] + lst[start + size:]
        size //= 2


def _int_candidates(v):
    if v == 0:
        return
    yield 0
    if abs(v) > 1:
        yield v // 2 if v > 0 else -((-v) // 2)
    if v < 0:
        yield -v
    yield v - 1 if v > 0 else v + 1


def _candidates(value, skip, key=None, depth=0):
    if key is not None and key in skip:
        return
    if isinstance(value, bool) or value is None:
        if value is True:
            yield False
        return
    if isinstance(value, int):
        yield from _int_candidates(value)
        return
    if isinstance(value, float):
        if value != 0.0:
            yield 0.0
        return
    if isinstance(value, str):
        return
    if isinstance(value, list):
        yield from _list_removals(value)
        if depth > 6:
            return
        for i, el in enumerate(value):
            for c in _candidates(el, skip, None, depth + 1):
                yield value[:i] + [c] + value[i + 1:]
        return
    if isinstance(value, dict):
        if depth > 6:
            return
        for k in sorted(value):
            for c in _candidates(value[k], skip, k, depth + 1):
                d = dict(value)
                d[k] = c
                yield d


def size_of(case):
    """Well-founded order on cases: shorter canonical text first, then
    lexicographic (so 3 -> 2 counts as progress)."""
    from .core import canon
    t = canon(case)
    return (len(t), t)


def minimise(check, case, still_fails, budget_s=20.0, max_tests=3000):
    t0 = time.time()
    tests = 0
    skip = set(getattr(check, "SHRINK_SKIP", ()))
    custom = getattr(check, "shrink_candidates", None)
    best = copy.deepcopy(case)
    improved = True
    while improved:
        improved = False
        gens = []
        if custom:
            gens.append(custom(best))
        gens.append(_candidates(best, skip))
        for gen in gens:
            for cand in gen:
                if time.time() - t0 > budget_s or tests >= max_tests:
                    return best
                if size_of(cand) >= size_of(best):
                    continue
                tests += 1
                if still_fails(cand):
                    best = cand
                    improved = True
                    break
            if improved:
                break
    return best
