"""Batch driver: seeded runs over 16 processes, watchdog, self-tests,
minimisation, replay files, known findings, evidence.

Exit status of ``main``: 0 = property held on everything explored (known
findings allowed), 1 = violation (``VIOLATION property=<id> replay=<path>``
on stdout), 2 = harness error (never reported as a pass).
"""
import concurrent.futures as cf
import faulthandler
import hashlib
import importlib
import json
import multiprocessing
import os
import signal
import subprocess
import sys
import time
import traceback
from collections import Counter

from .core import (Ctx, HarnessError, RunTimeout, Violation, canon, rng_for)
from .simrandom import DrawBudgetExceeded
from . import shrink as shrinker

VERIF = os.path.dirname(os.path.dirname(os.path.abspath(__file__)))
REPO = os.environ.get("VERIF_REPO", "/repo")
# where evidence/ and replays/ are written (the mutant self-test redirects it)
OUT = os.environ.get("VERIF_OUT", VERIF)
RUN_TIMEOUT_S = int(os.environ.get("VERIF_RUN_TIMEOUT_S", "60"))
CHECK_VERSION = 1


def load_check(cid):
    return importlib.import_module("checks." + cid.lower())


# ---------------------------------------------------------------------------
# one run

def _alarm(signum, frame):
    raise RunTimeout("".join(traceback.format_stack(frame, limit=12)))


def run_case(check, case, keep_events=False, patience=1):
    """Execute one case. Returns (ctx, violation-or-None)."""
    ctx = Ctx()
    if keep_events:
        ctx.keep_events()
    old = signal.signal(signal.SIGALRM, _alarm)
    limit = int(getattr(check, "RUN_TIMEOUT_S", RUN_TIMEOUT_S)) * patience
    signal.alarm(limit)
    viol = None
    try:
        try:
            check.execute(case, ctx)
        except Violation as v:
            viol = v
        except RunTimeout as t:
            if getattr(check, "TIMEOUT_IS_VIOLATION", True):
                viol = Violation("progress/wall-timeout",
                                 "run did not finish in %d s; stack:\n%s" %
                                 (limit, t))
            else:
                # the property says nothing about running time and the
                # workload can legitimately be large: recorded, not alarmed
                ctx.note("run abandoned after %d s (size, not a verdict)" %
                         limit)
        except DrawBudgetExceeded as d:
            if getattr(check, "DRAW_BUDGET_IS_VIOLATION", True):
                viol = Violation("progress/draw-budget", str(d))
            else:
                # (as for the wall clock: the property says nothing about
                # how long a legitimately huge request may take)
                ctx.note("run abandoned after its budget of random draws "
                         "(size, not a verdict)")
        except MemoryError:
            # (memory exhausted while the harness itself was at work - the
            # checks catch and judge what the code under test raises: the
            # workload was too large for the address-space limit)
            import gc
            gc.collect()
            ctx.note("run abandoned: out of memory in the harness (size, "
                     "not a verdict)")
        except RecursionError as r:
            # raised inside harness or code under test: checks convert the
            # ones from the code under test themselves; this is the harness.
            raise HarnessError("RecursionError in harness: %r" % (r,))
    finally:
        signal.alarm(0)
        signal.signal(signal.SIGALRM, old)
    ctx.log("end", viol.signature if viol else None)
    return ctx, viol


def make_case(check, seed, config, i):
    rng = rng_for(check.ID, seed, config, i)
    case = check.generate(rng, config)
    # a case must be plain JSON data: replay = f(case, code)
    return json.loads(canon(case))


# ---------------------------------------------------------------------------
# chunk worker

_CHECK = None


def _worker_init(cid):
    global _CHECK
    _CHECK = load_check(cid)
    faulthandler.enable()


def run_chunk(cid, seed, config, start, stop, digest_upto):
    """One chunk = one simulated process: the runs of a chunk are executed
    in a child forked from the worker for this chunk alone, so that whatever
    state the code under test keeps between requests is a function of the
    chunk (the earlier runs of the same chunk) and not of which worker
    happened to serve which chunks before."""
    for attempt in (1, 2):
        try:
            return _run_chunk_forked(cid, seed, config, start, stop,
                                     digest_upto)
        except _ChunkProcessDied as e:
            # (e.g. the kernel's OOM killer while other invocations share
            # the machine: once more, then it is the harness's problem)
            if attempt == 2:
                raise HarnessError(str(e))


class _ChunkProcessDied(Exception):
    pass


class _Unreproducible(Exception):
    pass


def _run_chunk_forked(cid, seed, config, start, stop, digest_upto):
    import pickle
    rfd, wfd = os.pipe()
    pid = os.fork()
    if pid == 0:
        status = 1
        try:
            os.close(rfd)
            out = _run_chunk_here(cid, seed, config, start, stop, digest_upto)
            data = pickle.dumps(("ok", out))
            status = 0
        except BaseException as e:      # noqa: BLE001 - reported by parent
            data = pickle.dumps(("exc", "%s\n%s" % (
                repr(e), traceback.format_exc())))
        try:
            with os.fdopen(wfd, "wb") as w:
                w.write(data)
        finally:
            os._exit(status)
    os.close(wfd)
    with os.fdopen(rfd, "rb") as r:
        data = r.read()
    _, status = os.waitpid(pid, 0)
    if not data:
        how = ("killed by signal %d" % os.WTERMSIG(status)
               if os.WIFSIGNALED(status) else
               "exit status %d" % os.WEXITSTATUS(status))
        raise _ChunkProcessDied("the process of chunk %s/%d-%d died without "
                                "a result (%s)" % (config, start, stop, how))
    kind, out = pickle.loads(data)
    if kind == "exc":
        raise HarnessError("chunk %s/%d-%d: %s" % (config, start, stop, out))
    return out


def _run_chunk_here(cid, seed, config, start, stop, digest_upto):
    check = _CHECK or load_check(cid)
    # (a check whose workload asks for absurd sizes on purpose may settle
    # for less: the refusal comes sooner)
    _limit_address_space(getattr(check, "MEM_GB", None))
    # if a run wedges in C code (no signal delivery) dump stacks and die:
    # re-armed for every run, well beyond the allowance of a run (which
    # ends, by SIGALRM, in a note or in a progress violation)
    wedged = int(getattr(check, "RUN_TIMEOUT_S", RUN_TIMEOUT_S)) * 3 + 60
    faulthandler.dump_traceback_later(wedged, exit=True)
    out = {"config": config, "start": start, "stop": stop, "n": 0,
           "fired": Counter(), "probes": Counter(), "notes": Counter(),
           "shapes": set(), "steps": 0, "digests": {}, "violations": [],
           "samples": [], "chain": hashlib.sha256(), "nviol": 0}
    seen_sig = Counter()
    try:
        for i in range(start, stop):
            case = make_case(check, seed, config, i)
            faulthandler.dump_traceback_later(wedged, exit=True)
            ctx, viol = run_case(check, case)
            out["n"] += 1
            out["fired"].update(ctx.fired)
            out["probes"].update(ctx.probes)
            out["notes"].update(ctx.notes)
            out["steps"] += ctx.steps
            d = ctx.digest()
            out["chain"].update(("%d:%s;" % (i, d)).encode())
            if i < digest_upto:
                out["digests"][i] = d
            if ctx.nontrivial:
                out["shapes"].add(hashlib.blake2b(
                    canon(ctx.shape).encode(), digest_size=8).digest())
            if len(out["samples"]) < 1 and i == start and start == 0:
                out["samples"].append(case)
            if viol is not None:
                out["nviol"] += 1
                seen_sig[viol.signature] += 1
                if seen_sig[viol.signature] <= 2:
                    out["violations"].append(
                        (i, case, viol.signature, viol.detail))
    finally:
        faulthandler.cancel_dump_traceback_later()
    out["chain"] = out["chain"].hexdigest()
    out["sig_counts"] = dict(seen_sig)
    return out


# ---------------------------------------------------------------------------
# known findings

def load_known(cid):
    """known_findings.txt: 'known: property=<id> signature=<sig> :: <what>'."""
    path = os.path.join(VERIF, "known_findings.txt")
    known = {}
    if os.path.exists(path):
        with open(path) as f:
            for line in f:
                line = line.strip()
                if not line.startswith("known:"):
                    continue
                head, _, what = line[len("known:"):].partition("::")
                fields = dict(t.split("=", 1) for t in head.split()
                              if "=" in t)
                if fields.get("property") == cid and "signature" in fields:
                    known[fields["signature"]] = {"what": what.strip()}
    return known


# ---------------------------------------------------------------------------
# replay files

def write_replay(cid, seed, config, index, case, signature, detail, events,
                 shrunk_from=None, earlier=None):
    d = os.path.join(OUT, "replays", cid)
    os.makedirs(d, exist_ok=True)
    body = {"property": cid, "check_version": CHECK_VERSION,
            "verif_seed": seed, "config": config, "run_index": index,
            "case": case,
            "expect": {"signature": signature, "detail": detail},
            "history": events, "shrunk_from": shrunk_from}
    if earlier:
        body["earlier_runs_of_the_process"] = earlier
    name = hashlib.sha256(canon([cid, signature, case]).encode()
                          ).hexdigest()[:16] + ".json"
    path = os.path.join(d, name)
    with open(path, "w") as f:
        json.dump(body, f, indent=1, sort_keys=True, default=str)
    return path


def replay(cid, path):
    check = load_check(cid)
    with open(path) as f:
        body = json.load(f)
    case = body["case"]
    want = body["expect"]["signature"]
    # (a violation that depends on what the same process did before - state
    # kept in the code under test between requests - comes with those runs)
    for earlier in body.get("earlier_runs_of_the_process") or []:
        run_case(check, earlier)
    for _ in range(int(getattr(check, "CONFIRM_TRIES", 1))):
        ctx, viol = run_case(check, case, keep_events=True)
        if viol is not None and viol.signature == want:
            break
    if viol is None:
        print("replay: no violation (expected %s)" % want)
        return 0
    same = (viol.signature == want)
    print("replay: %s signature=%s" %
          ("violation reproduced" if same else
           "DIFFERENT violation (expected %s)" % want, viol.signature))
    print(viol.detail)
    print("VIOLATION property=%s replay=%s" % (cid, path))
    return 1


# ---------------------------------------------------------------------------
# batch

def _plan(check, tier):
    return list(check.CONFIGS[tier])


def _limit_address_space(gb=None):
    """Failing allocations are part of the fault model, and a run that asks
    for 10^20 variables must meet one long before the machine does."""
    try:
        import resource
        gb = float(os.environ.get("VERIF_MEM_GB", gb or "6"))
        soft, hard = resource.getrlimit(resource.RLIMIT_AS)
        want = int(gb * 2 ** 30)
        if hard != resource.RLIM_INFINITY:
            want = min(want, hard)
        resource.setrlimit(resource.RLIMIT_AS, (want, hard))
    except (ImportError, ValueError, OSError):
        pass


def main(argv=None):
    argv = list(sys.argv[1:] if argv is None else argv)
    if len(argv) < 2:
        print("usage: check <ID> quick|thorough | check <ID> --replay <file>"
              " | check <ID> --digests <config> <n>")
        return 2
    cid = argv[0].upper()
    sys.path.insert(0, VERIF)
    # one scratch directory per invocation, owned and removed by this
    # process: worker processes (which end without running their exit
    # handlers) and fresh interpreters put their real files below it
    import shutil
    import tempfile
    own_scratch = None
    if not os.environ.get("VERIF_SCRATCH"):
        own_scratch = tempfile.mkdtemp(
            prefix="cnfgen-verif.",
            dir="/dev/shm" if os.path.isdir("/dev/shm") else None)
        os.environ["VERIF_SCRATCH"] = own_scratch
    try:
        return _main(cid, argv)
    finally:
        if own_scratch:
            shutil.rmtree(own_scratch, ignore_errors=True)
            os.environ.pop("VERIF_SCRATCH", None)


def scratch_dir(prefix):
    """A private real directory for the calling process, below the scratch
    directory of the invocation."""
    import tempfile
    root = os.environ.get("VERIF_SCRATCH")
    if not root or not os.path.isdir(root):
        root = "/dev/shm" if os.path.isdir("/dev/shm") else None
    return tempfile.mkdtemp(prefix=prefix, dir=root)


def _main(cid, argv):
    # the main process re-executes sample runs (self-test, confirmation,
    # minimisation): it lives under the same address-space limit as the
    # workers, or a run that allocates without end takes the machine down
    _limit_address_space()
    try:
        if argv[1] == "--replay":
            return replay(cid, argv[2])
        if argv[1] == "--digests":
            return print_digests(cid, argv[2], int(argv[3]))
        tier = argv[1]
        if tier not in ("quick", "thorough"):
            print("unknown tier %r" % tier)
            return 2
        return batch(cid, tier)
    except HarnessError as e:
        print("HARNESS-ERROR property=%s %s" % (cid, e))
        traceback.print_exc()
        return 2
    except Exception as e:              # noqa: BLE001
        print("HARNESS-ERROR property=%s %r" % (cid, e))
        traceback.print_exc()
        return 2


def print_digests(cid, config, n):
    check = load_check(cid)
    seed = int(os.environ.get("VERIF_SEED", "0"))
    for i in range(n):
        case = make_case(check, seed, config, i)
        ctx, viol = run_case(check, case)
        print("%d %s" % (i, ctx.digest()))
    return 0


def batch(cid, tier):
    t0 = time.time()
    seed = int(os.environ.get("VERIF_SEED", "0"))
    jobs = int(os.environ.get("VERIF_JOBS", "0") or 0) or min(
        16, os.cpu_count() or 1)
    os.environ["VERIF_TIER"] = tier      # generators may go deeper
    check = load_check(cid)
    plan = _plan(check, tier)
    budget = float(os.environ.get(
        "VERIF_BUDGET_S", getattr(check, "THOROUGH_BUDGET_S", 600)
        if tier == "thorough" else 0))
    selftest_n = getattr(check, "SELFTEST_N", {}).get(
        tier, 20 if tier == "quick" else 200)
    chunk = getattr(check, "CHUNK", 200)

    print("check %s tier=%s VERIF_SEED=%d jobs=%d repo=%s" %
          (cid, tier, seed, jobs, REPO))
    sys.stdout.flush()

    agg = {"n": 0, "fired": Counter(), "probes": Counter(),
           "notes": Counter(), "steps": 0, "shapes": set(),
           "per_config": Counter(), "digests": {}, "violations": [],
           "samples": [], "nviol": 0, "sig_counts": Counter(),
           "chains": {}}

    ctx_mp = multiprocessing.get_context("fork")
    # next index per config; quick: fixed counts, thorough: until budget.
    nexti = {c: 0 for c, _ in plan}
    target = {c: n for c, n in plan}

    def tasks_quick():
        for c, n in plan:
            csize = max(1, min(chunk, (n + jobs - 1) // jobs))
            s = 0
            while s < n:
                e = min(n, s + csize)
                yield (c, s, e)
                s = e

    def next_thorough():
        # weighted round robin: pick the config most behind its weight
        tot = sum(w for _, w in plan)
        c = min(plan, key=lambda cw: nexti[cw[0]] / (cw[1] / tot))[0]
        s = nexti[c]
        nexti[c] = s + chunk
        return (c, s, s + chunk)

    pending = set()
    with cf.ProcessPoolExecutor(max_workers=jobs, mp_context=ctx_mp,
                                initializer=_worker_init,
                                initargs=(cid,)) as pool:
        def submit(t):
            c, s, e = t
            pending.add(pool.submit(run_chunk, cid, seed, c, s, e,
                                    selftest_n))

        if tier == "quick":
            for t in tasks_quick():
                submit(t)
        else:
            # first: the quick plan (so thorough ⊇ quick), then budgeted.
            quick = list(check.CONFIGS["quick"])
            for c, n in quick:
                if c in nexti:
                    s = 0
                    while s < n:
                        e = min(n, s + chunk)
                        submit((c, s, e))
                        s = e
                    nexti[c] = max(nexti[c], n)
            while len(pending) < 2 * jobs:
                submit(next_thorough())
        try:
            while pending:
                # (a hang is the business of the watchdog of each run; this
                # one only gives up on the pool, and a chunk may hold
                # several runs that use up their whole allowance)
                patience_s = (int(getattr(check, "RUN_TIMEOUT_S",
                                          RUN_TIMEOUT_S)) * 3 + 60) * 10
                done, _ = cf.wait(pending, timeout=patience_s,
                                  return_when=cf.FIRST_COMPLETED)
                if not done:
                    raise HarnessError("no chunk finished in %d s" %
                                       patience_s)
                for fut in done:
                    pending.discard(fut)
                    r = fut.result()     # BrokenProcessPool -> harness error
                    _merge(agg, r)
                    if (tier == "thorough" and time.time() - t0 < budget
                            and agg["nviol"] < 2000):
                        submit(next_thorough())
        except cf.process.BrokenProcessPool as e:
            raise HarnessError("a worker process died: %r" % (e,))

    # --- determinism self-test -----------------------------------------
    selftest = determinism_selftest(check, cid, seed, plan, agg, tier,
                                    selftest_n)

    # --- violations -------------------------------------------------------
    known = load_known(cid)
    reported = []
    known_hit = {}
    by_sig = {}
    for (config, i, case, sig, detail) in sorted(
            agg["violations"], key=lambda v: (v[3], len(canon(v[2])))):
        by_sig.setdefault(sig, (config, i, case, sig, detail))
    nsig = 0
    for sig, (config, i, case, _, detail) in sorted(by_sig.items()):
        if sig in known:
            known_hit[sig] = (known[sig], agg["sig_counts"][sig],
                              (config, i, case, detail))
            continue
        nsig += 1
        if nsig > 12:
            continue
        try:
            path = confirm_shrink_write(check, cid, seed, config, i, case,
                                        sig, detail)
        except _Unreproducible as u:
            # seen once, in one worker, and never again - neither alone nor
            # after the earlier runs of its chunk, in fresh interpreters:
            # whatever it depends on (the state of the allocator under the
            # address-space limit, the load of the machine) is not in the
            # case, so there is nothing to replay and nothing to report as a
            # violation; it is kept in the evidence
            print("note: %s" % u)
            agg["notes"]["unreproducible observation: %s" % sig] += 1
            path = None
        if path is None:
            agg["nviol"] -= agg["sig_counts"].get(sig, 0)
            continue
        reported.append((sig, path))

    wall = time.time() - t0
    write_evidence(check, cid, tier, seed, agg, wall, selftest, reported,
                   known_hit, jobs)

    for sig, (entry, count, _) in sorted(known_hit.items()):
        print("KNOWN-FINDING: property=%s %s [signature=%s; seen %d times]" %
              (cid, entry.get("what", ""), sig, count))
    print("%s %s: %d runs, %d steps, %d distinct non-trivial, %.1f s, "
          "%d violating runs (%d known-finding runs)" %
          (cid, tier, agg["n"], agg["steps"], len(agg["shapes"]), wall,
           agg["nviol"],
           sum(agg["sig_counts"][s] for s in known_hit)))
    if reported:
        for sig, path in reported:
            print("violation signature: %s" % sig)
            print("VIOLATION property=%s replay=%s" % (cid, path))
        return 1
    return 0


def _merge(agg, r):
    agg["n"] += r["n"]
    agg["fired"].update(r["fired"])
    agg["probes"].update(r["probes"])
    agg["notes"].update(r["notes"])
    agg["steps"] += r["steps"]
    agg["shapes"] |= r["shapes"]
    agg["per_config"][r["config"]] += r["n"]
    for i, d in r["digests"].items():
        agg["digests"][(r["config"], i)] = d
    for (i, case, sig, detail) in r["violations"]:
        agg["violations"].append((r["config"], i, case, sig, detail))
    agg["nviol"] += r["nviol"]
    agg["sig_counts"].update(r["sig_counts"])
    if r["samples"] and len(agg["samples"]) < 6:
        agg["samples"].append({"config": r["config"], "index": r["start"],
                               "case": r["samples"][0]})
    agg["chains"][(r["config"], r["start"])] = r["chain"]


def determinism_selftest(check, cid, seed, plan, agg, tier, n):
    """Same sub-seed -> same history digest: (a) re-executed in this process
    in reverse order; thorough: (b) in a fresh interpreter with a different
    PYTHONHASHSEED and a single worker."""
    checked = 0
    for c, _ in plan:
        idx = sorted(i for (cc, i) in agg["digests"] if cc == c)[:n]
        for i in reversed(idx):
            case = make_case(check, seed, c, i)
            ctx, _ = run_case(check, case)
            if ctx.digest() != agg["digests"][(c, i)]:
                raise HarnessError(
                    "determinism self-test failed: config=%s run=%d digest "
                    "differs between worker and main process" % (c, i))
            checked += 1
    fresh = 0
    if tier == "thorough" or os.environ.get("VERIF_SELFTEST_FRESH"):
        env = dict(os.environ)
        env["PYTHONHASHSEED"] = "4242"
        env["PYTHONPATH"] = REPO + os.pathsep + VERIF
        for c, _ in plan:
            idx = sorted(i for (cc, i) in agg["digests"] if cc == c)
            m = min(n, len(idx))
            if m == 0:
                continue
            p = subprocess.run(
                [sys.executable, "-m", "detsim", cid, "--digests", c, str(m)],
                env=env, cwd=VERIF, capture_output=True, text=True,
                timeout=RUN_TIMEOUT_S * 10)
            if p.returncode != 0:
                raise HarnessError("fresh-interpreter self-test failed to "
                                   "run: %s" % p.stderr[-2000:])
            for line in p.stdout.splitlines():
                parts = line.split()
                if len(parts) != 2 or not parts[0].isdigit():
                    continue
                i = int(parts[0])
                if (c, i) in agg["digests"]:
                    if agg["digests"][(c, i)] != parts[1]:
                        raise HarnessError(
                            "determinism self-test failed: config=%s run=%d "
                            "digest differs under PYTHONHASHSEED=4242" %
                            (c, i))
                    fresh += 1
    return {"same_process_order_reversed": checked,
            "fresh_interpreter_other_hashseed": fresh}


WALL = "progress/wall-timeout"


def confirm_shrink_write(check, cid, seed, config, i, case, sig, detail):
    # (1) confirm by re-executing the recorded case (not the seed)
    if sig == WALL:
        # wall-clock time is the one thing the simulator does not own: a
        # run that exceeded its allowance while 16 workers (and whatever
        # else runs on the machine) competed for the processors is run
        # again, alone, with eight times the allowance.  Only a run that
        # still does not finish is reported as a lack of progress.
        ctx, viol = run_case(check, case, keep_events=True, patience=8)
        if viol is None:
            print("note: run %s/%d exceeded its wall-clock allowance under "
                  "load and finished when run alone: not a violation" %
                  (config, i))
            return None
        if viol.signature != sig:
            raise HarnessError(
                "run %s/%d timed out, and alone it ends in %s: the harness "
                "is not deterministic" % (config, i, viol.signature))
        return write_replay(cid, seed, config, i, case, sig, viol.detail,
                            ctx.events[-200:], shrunk_from=len(canon(case)))
    # (a check whose property *is* reproducibility declares CONFIRM_TRIES:
    # when the code under test draws from an unseeded generator, two
    # executions differ with high probability, not with certainty)
    for _ in range(int(getattr(check, "CONFIRM_TRIES", 1))):
        ctx, viol = run_case(check, case, keep_events=True)
        if viol is not None and viol.signature == sig:
            break
    if viol is None or viol.signature != sig:
        # One process serves many requests: the run may have met state that
        # the code under test kept from the runs before it (a cache, a
        # default argument, a module variable).  Then the violation belongs
        # to the sequence: replay the run after the earlier runs of its
        # chunk, each attempt in a fresh interpreter.
        path = _confirm_with_history(check, cid, seed, config, i, case, sig,
                                     detail)
        if path is not None:
            return path
        raise _Unreproducible(
            "%s of run %s/%d did not reproduce from its recorded case (got "
            "%s), nor after the earlier runs of its chunk" %
            (sig, config, i, viol.signature if viol else None))

    # (2) minimise, keeping only candidates with the same signature
    def still_fails(cand):
        try:
            cand = json.loads(canon(cand))
            _, v = run_case(check, cand)
        except HarnessError:
            return False
        except Exception:               # noqa: BLE001 - ill-formed candidate
            return False
        return v is not None and v.signature == sig

    small = shrinker.minimise(check, case, still_fails,
                              budget_s=float(os.environ.get(
                                  "VERIF_SHRINK_S", "20")))
    small = json.loads(canon(small))
    for _ in range(int(getattr(check, "CONFIRM_TRIES", 1))):
        ctx, viol = run_case(check, small, keep_events=True)
        if viol is not None and viol.signature == sig:
            break
    if viol is None or viol.signature != sig:
        small = case
        for _ in range(int(getattr(check, "CONFIRM_TRIES", 1)) + 3):
            ctx, viol = run_case(check, small, keep_events=True)
            if viol is not None and viol.signature == sig:
                break
        if viol is None:
            raise HarnessError("violation %s of run %s/%d reproduced once "
                               "and then no more" % (sig, config, i))
    return write_replay(cid, seed, config, i, small, sig, viol.detail,
                        ctx.events[-200:],
                        shrunk_from=len(canon(case)))


def _confirm_with_history(check, cid, seed, config, i, case, sig, detail):
    chunk = getattr(check, "CHUNK", 200)
    start = (i // chunk) * chunk
    earlier = [make_case(check, seed, config, j) for j in range(start, i)]
    if not earlier:
        return None
    env = dict(os.environ)
    env["VERIF_OUT"] = scratch_dir("history-")

    def reproduces(prefix):
        path = write_replay(cid, seed, config, i, case, sig, detail, [],
                            earlier=prefix)
        p = subprocess.run([sys.executable, "-m", "detsim", cid, "--replay",
                            path], env=env, cwd=VERIF, capture_output=True,
                           text=True, timeout=RUN_TIMEOUT_S * 10)
        ok = p.returncode == 1 and "violation reproduced" in p.stdout
        if not ok:
            try:
                os.unlink(path)
            except OSError:
                pass
        return path if ok else None

    # the shortest suffix of the earlier runs (1, 2, 4, ... of them) that
    # brings the violation back
    k = 1
    while True:
        path = reproduces(earlier[-k:])
        if path is not None:
            print("note: %s shows only after %d earlier run(s) of the same "
                  "process: state is kept between requests" % (sig, k))
            return path
        if k >= len(earlier):
            return None
        k = min(len(earlier), k * 2)


def write_evidence(check, cid, tier, seed, agg, wall, selftest, reported,
                   known_hit, jobs):
    os.makedirs(os.path.join(OUT, "evidence"), exist_ok=True)
    cov = {
        "evaluations": agg["n"],
        "distinct_nontrivial": len(agg["shapes"]),
        "rule": check.RULE,
        "samples": agg["samples"][:4],
        "runs_per_config": dict(agg["per_config"]),
        "runs_per_hour": int(agg["n"] / max(wall, 1e-6) * 3600),
        "seeds": "run i of config c uses blake2b('%s/%d/c/i'); VERIF_SEED=%d"
                 % (cid, seed, seed),
        "logical_steps": agg["steps"],
        "simulated_time": getattr(
            check, "SIMULATED_TIME",
            "none: this property reads no clock; progress is measured in "
            "logical steps (events)"),
        "fault_kinds_fired": dict(sorted(agg["fired"].items())),
        "probes_hit": dict(sorted(agg["probes"].items())),
        "gray_zone_notes": dict(sorted(agg["notes"].items())),
        "determinism_selftest": selftest,
        "history_digest_of_sample": hashlib.sha256(canon(sorted(
            [c, i, d] for (c, i), d in agg["digests"].items())).encode()
        ).hexdigest(),
        "components": getattr(check, "COMPONENTS", {}),
        "known_findings_seen": {s: c for s, (_, c, _) in known_hit.items()},
        "new_violation_signatures": [s for s, _ in reported],
        "exhaustive": False,
        "workers": jobs,
    }
    extra = getattr(check, "evidence_extra", None)
    if extra:
        cov.update(extra(agg))
    ev = {"property_id": cid, "tier": tier, "seed": seed,
          "level": check.LEVEL, "coverage": cov,
          "assumptions": list(getattr(check, "ASSUMPTIONS", [])),
          "wall_s": round(wall, 2),
          "violations": len(reported)}
    path = os.path.join(OUT, "evidence", cid + ".json")
    tmp = path + ".tmp"
    with open(tmp, "w") as f:
        json.dump(ev, f, indent=1, sort_keys=True, default=str)
    os.replace(tmp, path)
