"""Clock seam: the wall clock, the calendar and the time zone of a run.

``SimClock(epoch, tz_offset)`` is a frozen-then-ticking simulated clock: every
read advances it by one microsecond (so two reads never tie) and nothing
else does.  ``installed_clock(clock)`` rebinds, for the duration of a run,

* ``time.time / time_ns / monotonic / perf_counter / localtime / gmtime /
  ctime / asctime / strftime`` (the forms that read "now"),
* ``datetime.date`` and ``datetime.datetime`` (subclasses whose ``today /
  now / utcnow`` read the simulated clock), in the ``datetime`` module and
  in every loaded module of the code under test that imported the names,

so that code which asks for the time or the day gets the simulator's answer.
Two executions of the same command under clocks days apart must give the
same bytes if the output is a function of the command line and seed only.
"""
import contextlib
import datetime as _dt
import sys
import time as _time

_REAL_DATE = _dt.date
_REAL_DATETIME = _dt.datetime


class SimClock:
    def __init__(self, epoch, tz_offset=0):
        self.t = float(epoch)
        self.tz = int(tz_offset)          # seconds east of UTC
        self.reads = 0

    def now(self):
        self.reads += 1
        self.t += 1e-6
        return self.t


def _make_classes(clock):
    class date(_REAL_DATE):
        @classmethod
        def today(cls):
            d = _REAL_DATETIME.fromtimestamp(
                clock.now() + clock.tz, _dt.timezone.utc)
            return cls(d.year, d.month, d.day)

    class datetime(_REAL_DATETIME):
        @classmethod
        def now(cls, tz=None):
            t = clock.now()
            if tz is not None:
                d = _REAL_DATETIME.fromtimestamp(t, tz)
            else:
                d = _REAL_DATETIME.fromtimestamp(
                    t + clock.tz, _dt.timezone.utc).replace(tzinfo=None)
            return cls(d.year, d.month, d.day, d.hour, d.minute, d.second,
                       d.microsecond, d.tzinfo)

        @classmethod
        def today(cls):
            return cls.now()

        @classmethod
        def utcnow(cls):
            d = _REAL_DATETIME.fromtimestamp(clock.now(), _dt.timezone.utc)
            return cls(d.year, d.month, d.day, d.hour, d.minute, d.second,
                       d.microsecond)

    date.__name__ = date.__qualname__ = "date"
    datetime.__name__ = datetime.__qualname__ = "datetime"
    return date, datetime


@contextlib.contextmanager
def installed_clock(clock, prefix="cnfgen"):
    real = {n: getattr(_time, n) for n in (
        "time", "time_ns", "monotonic", "monotonic_ns", "perf_counter",
        "perf_counter_ns", "localtime", "gmtime", "ctime", "asctime",
        "strftime")}

    def localtime(secs=None):
        if secs is None:
            secs = clock.now()
        return real["gmtime"](secs + clock.tz)

    def gmtime(secs=None):
        return real["gmtime"](clock.now() if secs is None else secs)

    def ctime(secs=None):
        return real["asctime"](localtime(secs))

    def asctime(t=None):
        return real["asctime"](localtime() if t is None else t)

    def strftime(fmt, t=None):
        return real["strftime"](fmt, localtime() if t is None else t)

    fakes = {"time": clock.now,
             "time_ns": lambda: int(clock.now() * 1e9),
             "monotonic": clock.now,
             "monotonic_ns": lambda: int(clock.now() * 1e9),
             "perf_counter": clock.now,
             "perf_counter_ns": lambda: int(clock.now() * 1e9),
             "localtime": localtime, "gmtime": gmtime, "ctime": ctime,
             "asctime": asctime, "strftime": strftime}
    fdate, fdatetime = _make_classes(clock)
    swaps = {id(_REAL_DATE): fdate, id(_REAL_DATETIME): fdatetime}
    for n, f in real.items():
        swaps[id(f)] = fakes[n]
    undo = []
    for n, f in fakes.items():
        setattr(_time, n, f)
    _dt.date, _dt.datetime = fdate, fdatetime
    # names imported with 'from time import time' / 'from datetime import
    # date' by the code under test
    for mname, mod in list(sys.modules.items()):
        if mod is None or not (mname == prefix or
                               mname.startswith(prefix + ".")):
            continue
        for attr, val in list(vars(mod).items()):
            new = swaps.get(id(val))
            if new is not None and val is not new:
                undo.append((mod, attr, val))
                setattr(mod, attr, new)
    try:
        yield clock
    finally:
        for n, f in real.items():
            setattr(_time, n, f)
        _dt.date, _dt.datetime = _REAL_DATE, _REAL_DATETIME
        for mod, attr, val in undo:
            setattr(mod, attr, val)
