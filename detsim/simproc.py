"""SimSubprocess: fake ``subprocess`` namespace with scripted SAT-solver peers.

Bound to ``cnfgen.utils.solver.subprocess`` during C20 runs.  The bridge code
in cnfgen is real; the peers are stubs that *behave like the real solver of
that name would*: each has its own wire convention (taken from the reference
table below, not from the code under test), parses the DIMACS bytes it
actually received with the independent reader, decides by brute force and
prints its answer through an output shaper.  A fault plan can make the peer
misbehave.
"""
import errno
import io
import threading

from .refmodels import cnfref

PIPE = -1
STDOUT = -2
DEVNULL = -3

# Reference copy of the documented solver table (docs + docstrings):
# name -> convention the *real* solver of that name speaks with cnfgen.
REFERENCE_CONVENTION = {
    "cadical": "stdin_stdout",
    "kissat": "stdin_stdout",
    "lingeling": "stdin_stdout",
    "plingeling": "stdin_stdout",
    "precosat": "stdin_stdout",
    "picosat": "stdin_stdout",
    "march": "filein_stdout",
    "cryptominisat": "stdin_stdout",
    "minisat": "filein_fileout",
    "glucose": "stdin_stdout",
    "sat4j": "filein_stdout",
}
REFERENCE_ORDER = list(REFERENCE_CONVENTION)


class FakeShutil:
    """``shutil`` as seen by the bridge: which() answers for the fake
    solvers (a bridge may probe with which() instead of '--help')."""

    def __init__(self, installed):
        self._installed = installed

    def __getattr__(self, name):
        import shutil
        return getattr(shutil, name)

    def which(self, cmd, mode=None, path=None):
        return "/fakebin/" + cmd if cmd in self._installed else None


def rebind(module, fake):
    """Point every reference to the real subprocess API inside *module* at
    *fake* (covers 'import subprocess' and 'from subprocess import Popen').
    Returns the list of (name, old value) to restore."""
    import shutil
    import subprocess as real
    saved = []
    names = ("Popen", "run", "call", "check_call", "check_output", "PIPE",
             "DEVNULL", "STDOUT", "CalledProcessError", "TimeoutExpired",
             "SubprocessError", "CompletedProcess")
    for attr, val in list(vars(module).items()):
        if val is real:
            saved.append((attr, val))
            setattr(module, attr, fake)
        elif val is shutil:
            saved.append((attr, val))
            setattr(module, attr, FakeShutil(fake.installed))
        else:
            for n in names:
                if hasattr(real, n) and val is getattr(real, n) and \
                        n not in ("PIPE", "DEVNULL", "STDOUT"):
                    saved.append((attr, val))
                    setattr(module, attr, getattr(fake, n))
                    break
        if callable(val) and getattr(val, "__module__", None) == "shutil" \
                and getattr(val, "__name__", "") == "which":
            saved.append((attr, val))
            setattr(module, attr, FakeShutil(fake.installed).which)
    return saved


class SimSubprocess:
    """Namespace object standing in for the ``subprocess`` module."""

    PIPE = PIPE
    STDOUT = STDOUT
    DEVNULL = DEVNULL
    def __init__(self, installed, plan, ctx, real_open):
        """installed: name -> {'convention':..., 'shape':{...}}
        plan: fault plan dict (see Peer.communicate)."""
        self.installed = installed
        self.plan = plan or {}
        self.ctx = ctx
        self.calls = []              # log of every Popen
        self.solve_calls = []
        self.real_open = real_open
        outer = self

        class _PipeIn(io.RawIOBase):
            """The write end of the solver's stdin, as the parent sees it
            (wrapped in the usual Buffered / Text layers below)."""

            def __init__(self, proc):
                super().__init__()
                self.proc = proc
                self.buf = bytearray()
                self.used = False
                self.limit = None        # bytes accepted before EPIPE

            def writable(self):
                return True

            def close(self):
                super().close()
                self.proc._stdin_closed.set()

            def write(self, b):
                if self.closed:
                    raise ValueError("write to closed file")
                b = bytes(b)
                self.used = True
                if self.limit is not None and len(self.buf) >= self.limit:
                    outer.ctx.fault("EPIPE_on_solver_stdin")
                    self.proc.rec["epipe"] = True
                    raise BrokenPipeError(errno.EPIPE, "Broken pipe")
                accept = len(b)
                if self.limit is None:
                    end = outer._exits_early(self.proc, bytes(self.buf) + b)
                    if end is not None:
                        # the solver has seen enough and is gone; what the
                        # pipe still accepts depends on the system (short
                        # write now, EPIPE on the next one)
                        self.limit = end + outer.plan.get("pipe_capacity", 0)
                if self.limit is not None:
                    accept = max(1, min(len(b), self.limit - len(self.buf)))
                self.buf += b[:accept]
                if getattr(self.proc, "rec", None) is not None:
                    # what the parent has sent so far, whenever the peer
                    # happens to look at it
                    self.proc.rec["stdin"] = len(self.buf)
                return accept

        class _PipeOut(io.RawIOBase):
            """Read end of the solver's stdout / stderr."""

            def __init__(self, proc, which):
                super().__init__()
                self.proc = proc
                self.which = which
                self.data = None
                self.pos = 0

            def readable(self):
                return True

            def readinto(self, b):
                if self.data is None:
                    si = self.proc.stdin
                    if si is not None and not si.closed and \
                            self.proc.spec_convention == "stdin_stdout" and \
                            getattr(self.proc, "kind", None) == "solve":
                        # a solver reads its standard input up to EOF and
                        # answers afterwards
                        if threading.get_ident() == self.proc._owner:
                            # the thread that feeds the solver waits for
                            # the answer first: both sides wait for ever
                            self.proc.rec["deadlock"] = True
                            outer.ctx.fault(
                                "answer_read_before_stdin_closed")
                        else:
                            # a reader thread: it blocks until the feeding
                            # thread has closed the pipe
                            outer.ctx.fault("answer_drained_by_a_thread")
                            if not self.proc._stdin_closed.wait(20):
                                self.proc.rec["deadlock"] = True
                    self.data = self.proc._raw_result()[self.which] or b""
                n = min(len(b), len(self.data) - self.pos)
                b[:n] = self.data[self.pos:self.pos + n]
                self.pos += n
                return n

        class Popen:
            pid = 4242
            returncode = 0

            def __init__(self, args, bufsize=-1, executable=None,
                         stdin=None, stdout=None, stderr=None,
                         text=None, universal_newlines=None, encoding=None,
                         errors=None, **kw):
                if isinstance(args, str):
                    args = args.split()
                self.args = [str(a) for a in args]
                self._text = bool(text or universal_newlines or encoding
                                  or errors)
                self._enc = encoding or "utf-8"
                self._errors = errors or "strict"
                self._done = None
                self._lock = threading.RLock()
                self._owner = threading.get_ident()
                self._stdin_closed = threading.Event()
                self._stderr_to = stderr
                self.spec_convention = None
                self.stdin = self.stdout = self.stderr = None
                self._rawin = None
                outer._popen(self, stdin, stdout, stderr)
                if stdin == PIPE:
                    self._rawin = _PipeIn(self)
                    self.stdin = io.BufferedWriter(self._rawin)
                    if self._text:
                        self.stdin = io.TextIOWrapper(
                            self.stdin, encoding=self._enc,
                            errors=self._errors, write_through=True)
                if stdout == PIPE:
                    self.stdout = self._reader(0)
                if stderr == PIPE:
                    self.stderr = self._reader(1)

            def _reader(self, which):
                r = io.BufferedReader(_PipeOut(self, which))
                if self._text:
                    r = io.TextIOWrapper(r, encoding=self._enc,
                                         errors=self._errors)
                return r

            def _raw_result(self, input=None):
                """(stdout bytes, stderr bytes or None) of the peer."""
                with self._lock:
                    return self._raw_result_locked(input)

            def _raw_result_locked(self, input=None):
                if self._done is None:
                    if input is None and self._rawin is not None:
                        try:
                            if not self.stdin.closed:
                                self.stdin.flush()
                        except OSError:
                            pass
                        if self._rawin.used:
                            input = bytes(self._rawin.buf)
                    if isinstance(input, str):
                        input = input.encode(self._enc)
                    out, err = outer._communicate(self, input)
                    err = outer._stderr_of(self) if err is None else err
                    if self._stderr_to == STDOUT:
                        outer.ctx.fault("solver_stderr_merged_into_stdout")
                        if getattr(self, "spec", {}).get(
                                "shape", {}).get("stderr_first"):
                            out = err + (out or b"")
                        else:
                            out = (out or b"") + err
                        err = None
                    elif self._stderr_to != PIPE:
                        err = None
                    self._done = (out, err)
                return self._done

            def _result(self, input=None):
                out, err = self._raw_result(input)
                if self._text:
                    out = out.decode(self._enc, "replace") \
                        if out is not None else None
                    err = err.decode(self._enc, "replace") \
                        if err is not None else None
                return out, err

            def communicate(self, input=None, timeout=None):
                # like the real one: feeds the input (a broken pipe is not
                # an error here), closes stdin, collects both streams
                if input is not None and self._rawin is not None:
                    try:
                        self.stdin.write(input)
                        self.stdin.flush()
                    except BrokenPipeError:
                        pass
                input = None
                if self._rawin is not None:
                    try:
                        self.stdin.close()
                    except OSError:
                        pass
                out, err = self._result(input)
                if self.stdout is None:
                    out = None
                return out, err

            def wait(self, timeout=None):
                self._raw_result()
                return self.returncode

            def poll(self):
                return self.returncode

            def kill(self):
                pass

            terminate = kill

            def send_signal(self, sig):
                pass

            def __enter__(self):
                return self

            def __exit__(self, *exc):
                for f in (self.stdin, self.stdout, self.stderr):
                    try:
                        if f is not None:
                            f.close()
                    except OSError:
                        pass
                return False

        self.Popen = Popen

        class CompletedProcess:
            def __init__(self, args, returncode, stdout=None, stderr=None):
                self.args = args
                self.returncode = returncode
                self.stdout = stdout
                self.stderr = stderr

            def check_returncode(self):
                if self.returncode:
                    raise outer.CalledProcessError(self.returncode,
                                                   self.args)

        self.CompletedProcess = CompletedProcess

    # -- the rest of the subprocess API, on top of the fake Popen ----------
    class TimeoutExpired(Exception):
        pass

    class CalledProcessError(Exception):
        def __init__(self, returncode, cmd, output=None, stderr=None):
            super().__init__("Command %r returned non-zero exit status %r" %
                             (cmd, returncode))
            self.returncode = returncode
            self.cmd = cmd
            self.output = output
            self.stderr = stderr

    SubprocessError = Exception

    def run(self, args, input=None, stdin=None, stdout=None, stderr=None,
            capture_output=False, timeout=None, check=False, **kw):
        if capture_output:
            if stdout is not None or stderr is not None:
                raise ValueError("stdout and stderr arguments may not be "
                                 "used with capture_output.")
            stdout = stderr = PIPE
        if input is not None:
            # as the real one: the text goes through a pipe of its own
            if stdin is not None:
                raise ValueError("stdin and input arguments may not both be "
                                 "used.")
            stdin = PIPE
        p = self.Popen(args, stdin=stdin, stdout=stdout, stderr=stderr, **kw)
        out, err = p.communicate(input)
        if not (capture_output or stdout == PIPE):
            out = None
        if not (capture_output or stderr == PIPE):
            err = None
        cp = self.CompletedProcess(p.args, p.returncode, out, err)
        if check:
            cp.check_returncode()
        return cp

    def call(self, args, **kw):
        return self.run(args, **kw).returncode

    def check_call(self, args, **kw):
        self.run(args, check=True, **kw)
        return 0

    def check_output(self, args, **kw):
        kw.pop("stdout", None)
        return self.run(args, stdout=PIPE, check=True, **kw).stdout

    # -- process creation -------------------------------------------------
    def _popen(self, p, stdin, stdout, stderr):
        name = p.args[0] if p.args else ""
        probe = (p.args[1:] == ["--help"])
        rec = {"argv": list(p.args), "probe": probe}
        self.calls.append(rec)
        if name not in self.installed:
            rec["outcome"] = "ENOENT"
            raise FileNotFoundError(errno.ENOENT,
                                    "No such file or directory", name)
        if probe:
            rec["outcome"] = "probe-ok"
            p.kind = "probe"
            # real solvers disagree on the exit status of '--help'
            p.returncode = self.installed[name].get("help_rc", 0)
            return
        fail = self.plan.get("exec_fails")
        if fail:
            self.ctx.fault("exec_fails_after_probe")
            rec["outcome"] = fail
            raise OSError(getattr(errno, fail), "simulated exec failure")
        rec["outcome"] = "started"
        p.kind = "solve"
        p.spec = self.installed[name]
        p.spec_convention = p.spec["convention"]
        p.rec = rec
        self.solve_calls.append(rec)

    # -- the peer ----------------------------------------------------------
    _EMPTY_CLAUSE = b"\n0\n"

    def _exits_early(self, p, received):
        """Fault 'early_exit': a stdin solver that meets an empty clause
        answers UNSATISFIABLE at once and exits without reading the rest.
        Returns the number of bytes it has read, or None."""
        if not self.plan.get("early_exit") or \
                getattr(p, "kind", None) != "solve" or \
                p.spec["convention"] != "stdin_stdout":
            return None
        i = bytes(received).find(self._EMPTY_CLAUSE)
        if i < 0:
            return None
        if not p.rec.get("early_exit"):
            p.rec["early_exit"] = True
            self.ctx.fault("solver_exits_before_reading_all_input")
        return i + len(self._EMPTY_CLAUSE)

    def _stderr_of(self, p):
        """What the solver prints on its standard error."""
        if getattr(p, "kind", None) != "solve":
            return b""
        lines = p.spec.get("shape", {}).get("stderr") or []
        return b"".join(STDERR_LINES[i % len(STDERR_LINES)] for i in lines)

    def _communicate(self, p, input):
        if getattr(p, "kind", None) != "solve":
            return (b"", b"")
        if p.rec.get("early_exit") or (
                input is not None and
                self._exits_early(p, input) is not None):
            p.rec["verdict"] = False
            p.rec["model"] = None
            p.rec["stdin"] = len(input or b"")
            if p.spec.get("shape", {}).get("exit_10_20"):
                p.returncode = 20
            out = shape_dimacs_output(False, None, p.spec.get("shape", {}))
            return (self._stdout_faults(out), None)
        spec = p.spec
        conv = spec["convention"]
        rec = p.rec
        if input is not None:
            rec["stdin"] = len(input)
        else:
            rec.setdefault("stdin", None)
        args = p.args[1:]
        files = [a for a in args if not a.startswith("-")
                 and a not in spec.get("optargs", ())]
        text = None
        outfile = None
        if conv == "stdin_stdout":
            if input is None:
                rec["peer"] = "no-stdin"
                return (b"c reading from stdin... nothing there\n", None)
            text = input
        elif conv == "filein_stdout":
            if not files:
                rec["peer"] = "no-input-file"
                return (b"c usage: solver <file>\n", None)
            text = self._read(files[-1])
            if self.plan.get("input_file") == "deleted" and text is not None:
                # a wrapper that tidies up after its solver (or a solver
                # that does): the input file is gone when the run is over
                self.ctx.fault("input_file_deleted_by_the_solver")
                try:
                    import os as _os
                    _os.unlink(files[-1])
                except OSError:
                    pass
        elif conv == "filein_fileout":
            if len(files) < 2:
                rec["peer"] = "need-two-files"
                return (b"usage: solver <in> <out>\n", None)
            text = self._read(files[-2])
            outfile = files[-1]
            if self.plan.get("input_file") == "deleted" and text is not None:
                self.ctx.fault("input_file_deleted_by_the_solver")
                try:
                    import os as _os
                    _os.unlink(files[-2])
                except OSError:
                    pass
        if text is None:
            rec["peer"] = "input-unreadable"
            return (b"c cannot read input\n", None)
        try:
            parsed = cnfref.read_dimacs(text.decode("ascii"))
        except UnicodeDecodeError:
            parsed = cnfref.Invalid("non-ascii input")
        rec["received"] = repr(parsed)
        if not isinstance(parsed, cnfref.Valid):
            rec["peer"] = "parse-error"
            return (b"c PARSE ERROR\ns UNKNOWN\n", None)
        p.received = parsed
        rec["n"] = parsed.n
        rec["clauses"] = [list(c) for c in parsed.clauses]
        ms = cnfref.models(parsed.n, parsed.clauses)
        shape = spec.get("shape", {})
        if ms:
            model = list(ms[shape.get("model_choice", 0) % len(ms)])
            verdict = True
        else:
            model = None
            verdict = False
        if verdict and shape.get("model_upto_used"):
            # minisat and its family ignore the declared number of variables
            # and print the model up to the highest variable that occurs
            top = max([abs(l) for c in parsed.clauses for l in c] or [0])
            model = [l for l in model if abs(l) <= top]
            self.ctx.fault("model_up_to_the_highest_used_variable")
        if verdict and shape.get("model_only_used"):
            # other solvers print the variables that occur in some clause
            # and no other, wherever they are in the numbering
            occ = set(abs(l) for c in parsed.clauses for l in c)
            model = [l for l in model if abs(l) in occ]
            self.ctx.fault("model_of_the_used_variables_only")
        rec["verdict"] = verdict
        rec["model"] = model
        # exit status: the SAT competition convention (10 / 20) or plain 0,
        # whichever this solver follows
        if shape.get("exit_10_20"):
            p.returncode = 10 if verdict else 20
            self.ctx.fault("solver_exit_status_10_20")
        if conv == "filein_fileout":
            out, result = shape_minisat(verdict, model, shape)
            fault = self.plan.get("result_file")
            if fault == "deleted":
                # a failing wrapper that tidies up its incomplete result
                self.ctx.fault("result_file_deleted")
                try:
                    import os as _os
                    _os.unlink(outfile)
                except OSError:
                    pass
            elif fault == "missing":
                self.ctx.fault("result_file_not_written")
            elif fault == "empty":
                self.ctx.fault("result_file_empty")
                self._write(outfile, b"")
            elif fault == "garbage":
                self.ctx.fault("result_file_garbage")
                self._write(outfile, b"INDETERMINATE\n")
            elif fault == "cut":
                k = self.plan.get("cut_at", 0)
                self.ctx.fault("result_file_cut")
                self._write(outfile, result[:k])
            else:
                self._write(outfile, result)
            rec["result_file"] = fault or "ok"
            return (out, None)
        out = shape_dimacs_output(verdict, model, shape)
        out = self._stdout_faults(out)
        return (out, None)

    def _stdout_faults(self, out):
        kind = self.plan.get("stdout")
        if kind is None:
            return out
        if kind == "empty":
            self.ctx.fault("solver_no_output")
            return b""
        if kind == "garbage":
            self.ctx.fault("solver_garbage")
            return self.plan.get("garbage", b"Segmentation fault\n")
        if kind == "unknown":
            self.ctx.fault("solver_s_unknown")
            return b"c interrupted\ns UNKNOWN\n"
        if kind == "cut":
            self.ctx.fault("solver_died_mid_output")
            return out[:self.plan.get("cut_at", 0)]
        if kind == "nonascii":
            self.ctx.fault("solver_non_ascii_output")
            return b"c caf\xc3\xa9 solver\n" + out
        return out

    def _read(self, path):
        try:
            with self.real_open(path, "rb") as f:
                return f.read()
        except OSError:
            return None

    def _write(self, path, data):
        with self.real_open(path, "wb") as f:
            f.write(data)


# diagnostics a solver may print on its standard error (never part of the
# answer, whatever they look like)
STDERR_LINES = [b"solved in 0.02 seconds\n", b"version 1.2\n",
                b"warning: no proof file\n", b"c stderr comment\n",
                b"s SATISFIABLE\n", b"v 1 -1 0\n", b"\n"]


def shape_dimacs_output(verdict, model, shape):
    """Render 's'/'v' lines according to *shape* (all legal DIMACS output)."""
    nl = b"\r\n" if shape.get("crlf") else b"\n"
    lines = []
    for i in range(shape.get("comments_before", 0)):
        lines.append(b"c comment %d" % i)
    if shape.get("blank_lines"):
        lines.append(b"")
    sline = b"s SATISFIABLE" if verdict else b"s UNSATISFIABLE"
    vlines = []
    if verdict and not shape.get("no_model"):
        lits = list(model)
        if shape.get("perm"):
            # a legal but unusual order of the literals
            k = shape["perm"] % max(1, len(lits))
            lits = lits[k:] + lits[:k]
            if shape.get("rev"):
                lits.reverse()
        toks = [str(l).encode() for l in lits]
        term = shape.get("terminator", "inline")
        if term == "inline":
            toks.append(b"0")
        per = max(1, shape.get("per_line", 10))
        for a in range(0, len(toks), per):
            vlines.append(b"v " + b" ".join(toks[a:a + per]))
        if not toks:
            vlines.append(b"v")
        if term == "ownline":
            vlines.append(b"v 0")
        inter = shape.get("comments_between", 0)
        if inter:
            mixed = []
            for j, v in enumerate(vlines):
                mixed.append(v)
                if j < inter:
                    mixed.append(b"c progress %d" % j)
            vlines = mixed
    if shape.get("s_after_v"):
        lines += vlines + [sline]
    else:
        lines += [sline] + vlines
    for i in range(shape.get("comments_after", 0)):
        lines.append(b"c done %d" % i)
    out = nl.join(lines) + nl
    if shape.get("trailing_blank"):
        out += nl
    if shape.get("no_final_newline"):
        out = out.rstrip(b"\r\n")
    return out


def shape_minisat(verdict, model, shape):
    """(stdout chatter, result-file bytes) of a minisat-style solver."""
    chatter = b"============[ Problem Statistics ]============\n" \
              b"|  Number of variables: 1 |\n"
    if shape.get("chatter_s_line"):
        # chatter that looks like a DIMACS 's' line must be ignored
        chatter += b"s UNSATISFIABLE\n" if verdict else b"s SATISFIABLE\n"
    if verdict and shape.get("no_model"):
        body = b"SAT\n"
    elif verdict:
        body = b"SAT\n" + b" ".join(str(l).encode() for l in model)
        body += b" 0\n" if model else b"0\n"
        if shape.get("minisat_no_newline"):
            body = body.rstrip(b"\n")
    else:
        body = b"UNSAT\n"
    return chatter, body


def random_shape(rng):
    s = {}
    if rng.random() < 0.5:
        s["comments_before"] = rng.randint(0, 3)
    if rng.random() < 0.3:
        s["comments_between"] = rng.randint(1, 3)
    if rng.random() < 0.3:
        s["comments_after"] = rng.randint(1, 2)
    s["per_line"] = rng.choice([1, 2, 3, 5, 10, 1000])
    s["terminator"] = rng.choice(["inline", "inline", "ownline", "absent"])
    if rng.random() < 0.2:
        s["s_after_v"] = True
    if rng.random() < 0.15:
        s["crlf"] = True
    if rng.random() < 0.2:
        s["blank_lines"] = True
    if rng.random() < 0.2:
        s["trailing_blank"] = True
    if rng.random() < 0.1:
        s["no_final_newline"] = True
    if rng.random() < 0.25:
        s["perm"] = rng.randint(1, 9)
        s["rev"] = rng.random() < 0.5
    if rng.random() < 0.3:
        s["chatter_s_line"] = True
    if rng.random() < 0.2:
        s["minisat_no_newline"] = True
    s["model_choice"] = rng.choice([0, 1, 2, 7, 100, 12345])
    if rng.random() < 0.3:
        # diagnostics on the standard error (indices into STDERR_LINES)
        s["stderr"] = [rng.randrange(7) for _ in range(rng.randint(1, 3))]
        s["stderr_first"] = rng.random() < 0.5
    s["exit_10_20"] = rng.random() < 0.6
    r = rng.random()
    if r < 0.2:
        s["model_upto_used"] = True
    elif r < 0.35:
        s["model_only_used"] = True
    if rng.random() < 0.06:
        # a solver that only tells whether the formula is satisfiable (some
        # print the model only on request)
        s["no_model"] = True
    return s
