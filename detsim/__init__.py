"""detsim: deterministic simulation with fault injection for cnfgen."""
