"""SimRandom: the PRNG seam.

cnfgen (and networkx through ``random._inst``) draw every random number from
the module level functions of ``random``.  ``installed(sim)`` rebinds those
functions and ``random._inst`` to one ``SimRandom`` for the duration of a
run.  SimRandom

* records a transcript of API-level draws (method, abstract args, result),
* taints draws that happen before the first ``seed()`` call,
* can act as a *bounded adversary*: for the first ``budget`` API-level draws
  the result is chosen by a strategy among results that the real
  distribution produces with positive probability; afterwards the stream is
  a fair Mersenne Twister again,
* enforces a draw budget (bounded progress once the adversary stops).
"""
import hashlib
import random
from collections.abc import Sequence
from contextlib import contextmanager

_NAMES = ("seed", "random", "uniform", "triangular", "randint", "choice",
          "randrange", "sample", "shuffle", "choices", "normalvariate",
          "lognormvariate", "expovariate", "vonmisesvariate", "gammavariate",
          "gauss", "betavariate", "paretovariate", "weibullvariate",
          "getstate", "setstate", "getrandbits", "randbytes",
          "binomialvariate")

STRATEGIES = ("low", "high", "repeat", "mix", "identity", "reverse")

_ONE_MINUS = 1.0 - 2.0 ** -53


class DrawBudgetExceeded(BaseException):
    """More draws than a correct bounded workload can need (no progress)."""


class SimRandom(random.Random):

    def __init__(self, seed=0, strategy=None, budget=0, max_draws=2_000_000,
                 keep=4000):
        self._depth = 1              # Random.__init__ calls self.seed()
        self.transcript = []
        self._keep = keep
        self.hasher = hashlib.sha256()
        self.draws = 0
        self.seed_calls = []
        # how often seed(a) came again, for the same a, after numbers had
        # been drawn: the same numbers are then used a second time
        self.restarts = 0
        self._draws_at_seed = {}
        self.draws_before_seed = 0
        self.adversarial = 0
        self.strategy = strategy
        self.budget = budget if strategy else 0
        self.max_draws = max_draws
        self._memo = {}
        self._advrng = random.Random((seed * 0x9E3779B97F4A7C15 + 1)
                                     & (2 ** 64 - 1))
        super().__init__(seed)
        self._depth = 0

    # -- bookkeeping ------------------------------------------------------
    def _record(self, method, args, result):
        self.draws += 1
        if not self.seed_calls:
            self.draws_before_seed += 1
        if self.draws - self.adversarial > self.max_draws:
            raise DrawBudgetExceeded(
                "%d fair draws after an adversary budget of %d" %
                (self.draws - self.adversarial, self.budget))
        ev = (method, args, result)
        self.hasher.update(repr(ev).encode("utf-8", "replace"))
        if len(self.transcript) < self._keep:
            self.transcript.append(ev)

    def _adv(self):
        """Strategy for this draw, or None when the adversary is off/spent."""
        if self.strategy is None or self.adversarial >= self.budget:
            return None
        self.adversarial += 1
        s = self.strategy
        if s == "mix":
            s = self._advrng.choice(("low", "high", "repeat", "fair"))
        if s == "fair":
            return None
        return s

    def transcript_digest(self):
        return self.hasher.hexdigest()

    # -- seeding ------------------------------------------------------------
    def seed(self, a=None, version=2):
        if self._depth:
            return super().seed(a, version)
        self.seed_calls.append(a if isinstance(a, (int, str, type(None)))
                               else repr(type(a)))
        if isinstance(a, (int, str)) and not isinstance(a, bool):
            if self.draws > self._draws_at_seed.get(a, self.draws):
                self.restarts += 1
            self._draws_at_seed[a] = self.draws
        self.hasher.update(("seed:%r" % (a,)).encode("utf-8", "replace"))
        if len(self.transcript) < self._keep:
            self.transcript.append(("seed", a if isinstance(
                a, (int, str, type(None))) else repr(type(a)), None))
        if a is None:
            # "current time": any stream is a legal outcome; keep ours.
            return None
        self._depth += 1
        try:
            return super().seed(a, version)
        finally:
            self._depth -= 1

    # -- API-level draws ----------------------------------------------------
    def random(self):
        if self._depth:
            return super().random()
        fair = super().random()
        s = self._adv()
        if s == "low" or s == "identity":
            fair = 0.0
        elif s == "high" or s == "reverse":
            fair = _ONE_MINUS
        elif s == "repeat":
            fair = self._memo.setdefault(("random",), fair)
        self._memo[("random",)] = fair
        self._record("random", (), fair)
        return fair

    def randrange(self, start, stop=None, step=1):
        if self._depth:
            return super().randrange(start, stop, step)
        self._depth += 1
        try:
            fair = super().randrange(start, stop, step)
        finally:
            self._depth -= 1
        s = self._adv()
        if s is not None:
            rng = range(start) if stop is None else range(start, stop, step)
            if s in ("low", "identity"):
                fair = rng[0]
            elif s in ("high", "reverse"):
                fair = rng[-1]
            elif s == "repeat":
                fair = self._memo.get(("randrange", rng.start, rng.stop,
                                       rng.step), fair)
        rngk = range(start) if stop is None else range(start, stop, step)
        self._memo[("randrange", rngk.start, rngk.stop, rngk.step)] = fair
        self._record("randrange", (rngk.start, rngk.stop, rngk.step), fair)
        return fair

    def randint(self, a, b):
        if self._depth:
            return super().randint(a, b)
        self._depth += 1
        try:
            fair = super().randint(a, b)
        finally:
            self._depth -= 1
        s = self._adv()
        if s in ("low", "identity"):
            fair = a
        elif s in ("high", "reverse"):
            fair = b
        elif s == "repeat":
            fair = self._memo.get(("randint", a, b), fair)
        self._memo[("randint", a, b)] = fair
        self._record("randint", (a, b), fair)
        return fair

    def choice(self, seq):
        if self._depth:
            return super().choice(seq)
        n = len(seq)
        if n == 0:
            return super().choice(seq)       # genuine IndexError
        self._depth += 1
        try:
            i = super().randrange(n)
        finally:
            self._depth -= 1
        s = self._adv()
        if s in ("low", "identity"):
            i = 0
        elif s in ("high", "reverse"):
            i = n - 1
        elif s == "repeat":
            i = self._memo.get(("choice", n), i)
        self._memo[("choice", n)] = i
        self._record("choice", (n,), i)
        return seq[i]

    def sample(self, population, k, *, counts=None):
        if self._depth:
            return super().sample(population, k, counts=counts)
        if counts is not None or not isinstance(population, Sequence):
            # genuine behaviour (TypeError for sets/generators on >= 3.11)
            self._depth += 1
            try:
                res = super().sample(population, k, counts=counts)
            finally:
                self._depth -= 1
            self._record("sample*", (len(population), k), None)
            return res
        n = len(population)
        self._depth += 1
        try:
            idx = super().sample(range(n), k)   # genuine ValueError if k > n
        finally:
            self._depth -= 1
        s = self._adv()
        if s in ("low", "identity"):
            idx = list(range(k))
        elif s in ("high", "reverse"):
            idx = list(range(n - 1, n - 1 - k, -1))
        elif s == "repeat":
            idx = self._memo.get(("sample", n, k), idx)
        self._memo[("sample", n, k)] = idx
        self._record("sample", (n, k), tuple(idx))
        return [population[i] for i in idx]

    def shuffle(self, x):
        if self._depth:
            return super().shuffle(x)
        n = len(x)
        perm = list(range(n))
        self._depth += 1
        try:
            super().shuffle(perm)
        finally:
            self._depth -= 1
        s = self._adv()
        if s in ("low", "identity"):
            perm = list(range(n))
        elif s in ("high", "reverse"):
            perm = list(range(n - 1, -1, -1))
        elif s == "repeat":
            perm = self._memo.get(("shuffle", n), perm)
        self._memo[("shuffle", n)] = perm
        old = list(x)
        for pos, src in enumerate(perm):
            x[pos] = old[src]
        self._record("shuffle", (n,), tuple(perm))
        return None

    def choices(self, population, weights=None, *, cum_weights=None, k=1):
        if self._depth:
            return super().choices(population, weights,
                                   cum_weights=cum_weights, k=k)
        self._depth += 1
        try:
            res = super().choices(population, weights,
                                  cum_weights=cum_weights, k=k)
        finally:
            self._depth -= 1
        self._record("choices", (len(population), k), None)
        return res

    def getrandbits(self, k):
        if self._depth:
            return super().getrandbits(k)
        v = super().getrandbits(k)
        self._record("getrandbits", (k,), v)
        return v

    def uniform(self, a, b):
        if self._depth:
            return super().uniform(a, b)
        self._depth += 1
        try:
            v = super().uniform(a, b)
        finally:
            self._depth -= 1
        self._record("uniform", (a, b), v)
        return v


@contextmanager
def installed(sim):
    """Rebind ``random.<fn>`` and ``random._inst`` to *sim* for a run."""
    saved = {}
    for name in _NAMES:
        if hasattr(random, name) and hasattr(sim, name):
            saved[name] = getattr(random, name)
            setattr(random, name, getattr(sim, name))
    saved_inst = random._inst
    random._inst = sim
    try:
        yield sim
    finally:
        for name, fn in saved.items():
            setattr(random, name, fn)
        random._inst = saved_inst


def adversary_from(rng, p_none=0.5, max_budget=400):
    """Sample an adversary configuration (strategy, budget) for one run."""
    if rng.random() < p_none:
        return (None, 0)
    strategy = rng.choice(("low", "high", "repeat", "mix", "mix"))
    budget = rng.choice((1, 2, 3, 5, 10, 30, 100, max_budget))
    return (strategy, budget)
