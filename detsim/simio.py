"""SimIO: simulated raw devices, streams and a tiny file system.

The code under test gets *real* ``io.TextIOWrapper(io.BufferedReader/Writer)``
stacks; only the raw block device underneath is simulated (``SimRaw``).
``SimFS`` + ``open_router`` replace ``builtins.open`` for the duration of an
in-process CLI run so that relative paths and paths under ``/simfs/`` hit
the simulated disk while everything else (imports, the harness) uses the
real ``open``.
"""
import builtins
import errno
import io
import os
from contextlib import contextmanager


class SimRaw(io.RawIOBase):
    """Raw device over a bytearray with a fault plan.

    plan keys (all optional)
      chunk      : int   - reads return at most this many bytes (short reads)
      eio_at     : int   - a read that would deliver byte #eio_at raises EIO
      enospc_at  : int   - a write that would store byte #enospc_at raises
      write_chunk: int   - writes accept at most this many bytes at a time
    """

    def __init__(self, data=b"", name="<sim>", readable=True, writable=False,
                 plan=None, on_fire=None, fs_entry=None, append=False):
        super().__init__()
        self.buf = bytearray(data)
        self.pos = len(self.buf) if append else 0
        self.name = name
        self._r = readable
        self._w = writable
        self.plan = dict(plan or {})
        self.on_fire = on_fire or (lambda kind: None)
        self.fs_entry = fs_entry
        self.reads = 0
        self.writes = 0

    def readable(self):
        return self._r

    def writable(self):
        return self._w

    def seekable(self):
        return False

    def isatty(self):
        return False

    def fileno(self):
        raise io.UnsupportedOperation("fileno")

    def readinto(self, b):
        if not self._r:
            raise io.UnsupportedOperation("not readable")
        n = len(b)
        chunk = self.plan.get("chunk")
        if chunk:
            if n > chunk:
                self.on_fire("short_read")
            n = min(n, chunk)
        avail = len(self.buf) - self.pos
        n = min(n, avail)
        eio = self.plan.get("eio_at")
        if eio is not None and self.pos <= eio < self.pos + max(n, 1):
            if eio > self.pos:
                n = eio - self.pos          # deliver what precedes the fault
            else:
                self.on_fire("eio_read")
                raise OSError(errno.EIO, "Input/output error (simulated)")
        b[:n] = self.buf[self.pos:self.pos + n]
        self.pos += n
        self.reads += 1
        return n

    def write(self, b):
        if not self._w:
            raise io.UnsupportedOperation("not writable")
        data = bytes(b)
        n = len(data)
        wc = self.plan.get("write_chunk")
        if wc and n > wc:
            self.on_fire("short_write")
            n = wc
        full = self.plan.get("enospc_at")
        if full is not None and self.pos <= full < self.pos + max(n, 1):
            if full > self.pos:
                n = full - self.pos
            else:
                self.on_fire("enospc")
                raise OSError(errno.ENOSPC,
                              "No space left on device (simulated)")
        self.buf[self.pos:self.pos + n] = data[:n]
        self.pos += n
        self.writes += 1
        if self.fs_entry is not None:
            self.fs_entry["data"] = bytes(self.buf)
        return n

    def close(self):
        if self.fs_entry is not None and self._w:
            self.fs_entry["data"] = bytes(self.buf)
        super().close()


def text_reader(data, name="<sim>", plan=None, on_fire=None, encoding="utf-8",
                errors=None, newline=None):
    """newline: None = universal newlines (what open() gives); "\\n" = only
    LF ends a line, CR is a character like any other (the standard input of
    a POSIX process, io.StringIO)."""
    raw = SimRaw(data, name=name, plan=plan, on_fire=on_fire)
    t = io.TextIOWrapper(io.BufferedReader(raw, buffer_size=16),
                         encoding=encoding, errors=errors, newline=newline)
    return _named(t, name)


def text_writer(name="<sim>", plan=None, on_fire=None, encoding="utf-8"):
    raw = SimRaw(b"", name=name, readable=False, writable=True, plan=plan,
                 on_fire=on_fire)
    t = io.TextIOWrapper(io.BufferedWriter(raw, buffer_size=64),
                         encoding=encoding, write_through=False)
    return _named(t, name), raw


class _NamedText(io.TextIOWrapper):
    """TextIOWrapper with a settable .name and mode (argparse/cnfgen use it)."""

    def __init__(self, buffer, name, mode, **kw):
        super().__init__(buffer, **kw)
        self._sim_name = name
        self._sim_mode = mode

    @property
    def name(self):
        return self._sim_name

    @property
    def mode(self):
        return self._sim_mode


def _named(t, name):
    # TextIOWrapper.name delegates to buffer.name -> raw.name, already set.
    return t


class SimStream(io.StringIO):
    """stdin/stdout/stderr replacement whose content survives close()."""

    def __init__(self, initial="", name="<simstream>", tty=False,
                 fail_write=None, encoding=None, errors="strict"):
        super().__init__(initial)
        self.name = name
        self._tty = tty
        self._final = None
        self.closed_by_sut = False
        self.fail_write = fail_write
        # the encoding of the stream (the one of the locale, for a standard
        # stream): None = anything can be written
        self.encoding_ = encoding
        self.errors_ = errors

    @property
    def encoding(self):
        return self.encoding_ or "utf-8"

    @property
    def errors(self):
        return self.errors_

    def isatty(self):
        return self._tty

    def write(self, s):
        if self.fail_write is not None:
            raise self.fail_write
        if self.encoding_ is not None:
            # what cannot be encoded cannot be written (UnicodeEncodeError
            # with errors='strict', as for the standard output)
            s = s.encode(self.encoding_, self.errors_).decode(self.encoding_)
        return super().write(s)

    @property
    def buffer(self):
        """Binary view (code may write bytes to sys.stdout.buffer)."""
        outer = self

        class _Buf:
            def write(self, b):
                outer.write(bytes(b).decode("utf-8", "replace"))
                return len(b)

            def flush(self):
                pass

        return _Buf()

    def close(self):
        if self._final is None:
            self._final = super().getvalue()
        self.closed_by_sut = True
        # stay open: content must survive (every main() closes stderr)

    def text(self):
        return self._final if self._final is not None else super().getvalue()

    def fileno(self):
        raise io.UnsupportedOperation("fileno")


class SimFS:
    """path -> entry.  entry = {'kind': ..., 'data': bytes, 'plan': {...}}.

    kinds: file, dir, unreadable (open -> PermissionError), eio (open ok,
    first read raises EIO), unwritable (open for writing -> PermissionError).
    A path that has no entry is missing.
    """

    def __init__(self, entries=None, on_fire=None):
        self.entries = {}
        self.on_fire = on_fire or (lambda kind: None)
        self.opened = []            # (path, mode, outcome)
        self.handles = []           # weak references to open write handles
        # encoding of the simulated locale: what a text-mode open() without
        # an explicit encoding uses (utf-8 unless the run says otherwise)
        self.locale_encoding = "utf-8"
        self.cwd = ""               # simulated working directory (relative
        #                             to the root of the simulated disk)
        for p, e in (entries or {}).items():
            self.entries[self.norm(p)] = dict(e)

    def norm(self, path):
        path = os.fspath(path)
        if isinstance(path, bytes):
            path = path.decode("utf-8", "surrogateescape")
        if path.startswith("/simfs/"):
            path = path[len("/simfs/"):]
        elif self.cwd and not os.path.isabs(path):
            path = os.path.join(self.cwd, path)
        return os.path.normpath(path)

    @staticmethod
    def owns(path):
        try:
            path = os.fspath(path)
        except TypeError:
            return False
        if isinstance(path, bytes):
            return False
        if isinstance(path, int):
            return False
        return (not os.path.isabs(path)) or path.startswith("/simfs/")

    def put(self, path, data=b"", kind="file", plan=None):
        if isinstance(data, str):
            data = data.encode("utf-8")
        self.entries[self.norm(path)] = {"kind": kind, "data": data,
                                         "plan": dict(plan or {})}

    def data(self, path):
        e = self.entries.get(self.norm(path))
        if e is None or e["kind"] == "dir":
            return None
        return e.get("data", b"")

    def exists(self, path):
        return self.norm(path) in self.entries

    def open(self, file, mode="r", buffering=-1, encoding=None, errors=None,
             newline=None, closefd=True, opener=None):
        path = self.norm(file)
        e = self.entries.get(path)
        binary = "b" in mode
        reading = "r" in mode and "+" not in mode
        if reading:
            if e is None:
                self.opened.append((path, mode, "ENOENT"))
                self.on_fire("open_missing")
                raise FileNotFoundError(errno.ENOENT,
                                        "No such file or directory", file)
            if e["kind"] == "dir":
                self.opened.append((path, mode, "EISDIR"))
                self.on_fire("open_dir")
                raise IsADirectoryError(errno.EISDIR, "Is a directory", file)
            if e["kind"] == "unreadable":
                self.opened.append((path, mode, "EACCES"))
                self.on_fire("open_unreadable")
                raise PermissionError(errno.EACCES, "Permission denied", file)
            plan = dict(e.get("plan") or {})
            if e["kind"] == "eio":
                plan.setdefault("eio_at", 0)
            raw = SimRaw(e.get("data", b""), name=file, plan=plan,
                         on_fire=self.on_fire)
            self.opened.append((path, mode, "ok"))
            buf = io.BufferedReader(raw, buffer_size=32)
            if binary:
                return buf
            return io.TextIOWrapper(buf, encoding=self._enc(encoding),
                                    errors=errors, newline=newline)
        # writing / appending
        parent = os.path.dirname(path)
        if parent and (parent not in self.entries or
                       self.entries[parent]["kind"] != "dir"):
            self.opened.append((path, mode, "ENOENT"))
            self.on_fire("open_w_missing_dir")
            raise FileNotFoundError(errno.ENOENT, "No such file or directory",
                                    file)
        if e is not None and e["kind"] == "dir":
            self.opened.append((path, mode, "EISDIR"))
            self.on_fire("open_w_dir")
            raise IsADirectoryError(errno.EISDIR, "Is a directory", file)
        if e is not None and e["kind"] in ("unwritable", "unreadable"):
            self.opened.append((path, mode, "EACCES"))
            self.on_fire("open_w_denied")
            raise PermissionError(errno.EACCES, "Permission denied", file)
        if "x" in mode and e is not None:
            raise FileExistsError(errno.EEXIST, "File exists", file)
        append = "a" in mode
        old = e.get("data", b"") if (e is not None and append) else b""
        plan = dict((e or {}).get("plan") or {})
        entry = {"kind": "file", "data": bytes(old), "plan": plan,
                 "written": True}
        self.entries[path] = entry
        raw = SimRaw(old, name=file, readable=False, writable=True, plan=plan,
                     on_fire=self.on_fire, fs_entry=entry, append=append)
        self.opened.append((path, mode, "ok"))
        buf = io.BufferedWriter(raw, buffer_size=64)
        h = buf if binary else io.TextIOWrapper(
            buf, encoding=self._enc(encoding), errors=errors,
            newline=newline)
        import weakref
        self.handles.append(weakref.ref(h))
        return h

    def _enc(self, encoding):
        if encoding is None or encoding == "locale":
            if self.locale_encoding != "utf-8":
                self.on_fire("locale_encoding_used:" + self.locale_encoding)
            return self.locale_encoding
        return encoding

    def process_exit(self):
        """Model process termination: flush and close what is still open."""
        for r in self.handles:
            h = r()
            if h is not None and not h.closed:
                try:
                    h.close()
                except OSError:
                    pass
        self.handles = []


@contextmanager
def open_router(fs):
    """Route builtins.open (and io.open) to *fs* for paths it owns."""
    real_open = builtins.open

    def routed(file, mode="r", *args, **kwargs):
        if fs.owns(file):
            return fs.open(file, mode, *args, **kwargs)
        return real_open(file, mode, *args, **kwargs)

    builtins.open = routed
    saved_io = io.open
    io.open = routed
    # code under test may look before it leaps: the usual os / os.path
    # queries answer for the simulated disk as well
    import stat as _stat
    saved_os = {}

    def _entry(path):
        return fs.entries.get(fs.norm(path))

    def exists(path):
        if fs.owns(path):
            return _entry(path) is not None
        return saved_os["exists"](path)

    def isfile(path):
        if fs.owns(path):
            e = _entry(path)
            return e is not None and e["kind"] != "dir"
        return saved_os["isfile"](path)

    def isdir(path):
        if fs.owns(path):
            e = _entry(path)
            return e is not None and e["kind"] == "dir"
        return saved_os["isdir"](path)

    def getsize(path):
        if fs.owns(path):
            return os_stat(path).st_size
        return saved_os["getsize"](path)

    def access(path, mode, **kw):
        if fs.owns(path):
            e = _entry(path)
            if e is None:
                return False
            if e["kind"] == "unreadable":
                return False
            if e["kind"] == "unwritable" and mode & os.W_OK:
                return False
            return True
        return saved_os["access"](path, mode, **kw)

    def os_stat(path, *a, **kw):
        if fs.owns(path):
            e = _entry(path)
            if e is None:
                raise FileNotFoundError(errno.ENOENT,
                                        "No such file or directory", path)
            mode = (_stat.S_IFDIR | 0o755) if e["kind"] == "dir" else \
                (_stat.S_IFREG | (0o000 if e["kind"] == "unreadable"
                                  else 0o644))
            size = len(e.get("data", b"") or b"")
            return os.stat_result((mode, 0, 0, 1, 0, 0, size, 0, 0, 0))
        return saved_os["stat"](path, *a, **kw)

    for name, fn, owner in (("exists", exists, os.path),
                            ("isfile", isfile, os.path),
                            ("isdir", isdir, os.path),
                            ("getsize", getsize, os.path),
                            ("access", access, os), ("stat", os_stat, os)):
        saved_os[name] = getattr(owner, name)
        setattr(owner, name, fn)
    saved_os["lexists"] = os.path.lexists
    os.path.lexists = exists
    # the working directory of the simulated process
    saved_os["getcwd"] = os.getcwd
    os.getcwd = lambda: ("/simfs/" + fs.cwd) if fs.cwd else \
        saved_os["getcwd"]()
    try:
        yield fs
    finally:
        builtins.open = real_open
        io.open = saved_io
        os.path.exists = saved_os["exists"]
        os.path.isfile = saved_os["isfile"]
        os.path.isdir = saved_os["isdir"]
        os.path.getsize = saved_os["getsize"]
        os.path.lexists = saved_os["lexists"]
        os.access = saved_os["access"]
        os.stat = saved_os["stat"]
        os.getcwd = saved_os["getcwd"]


# ---------------------------------------------------------------------------
# stored-byte faults (applied between a completed write and a later read)

def damage(data, rng, kinds=None):
    """Return (new_bytes, description) applying one stored-byte fault."""
    kinds = kinds or DAMAGE_KINDS
    kind = rng.choice(kinds)
    lines = data.split(b"\n")
    n = len(data)
    if kind == "truncate" and n > 0:
        k = rng.randrange(n)
        return data[:k], ("truncate", k)
    if kind == "flip" and n > 0:
        k = rng.randrange(n)
        nb = rng.choice(b"0123456789- \nxpce:\t\xff\x00")
        return data[:k] + bytes([nb]) + data[k + 1:], ("flip", k, nb)
    if kind == "drop_line" and len(lines) > 1:
        k = rng.randrange(len(lines) - 1)
        return b"\n".join(lines[:k] + lines[k + 1:]), ("drop_line", k)
    if kind == "dup_line" and len(lines) > 1:
        k = rng.randrange(len(lines) - 1)
        return b"\n".join(lines[:k + 1] + lines[k:]), ("dup_line", k)
    if kind == "swap_lines" and len(lines) > 2:
        k = rng.randrange(len(lines) - 2)
        l2 = list(lines)
        l2[k], l2[k + 1] = l2[k + 1], l2[k]
        return b"\n".join(l2), ("swap_lines", k)
    if kind == "blank_line":
        k = rng.randrange(len(lines))
        return b"\n".join(lines[:k] + [rng.choice([b"", b"  ", b"\t"])] +
                          lines[k:]), ("blank_line", k)
    if kind == "comment_line":
        k = rng.randrange(len(lines))
        return b"\n".join(lines[:k] + [b"c injected comment 1 2 0"] +
                          lines[k:]), ("comment_line", k)
    if kind == "token":
        toks = _token_spans(data)
        if toks:
            a, b = rng.choice(toks)
            new = rng.choice([b"0", b"-0", b"999999", b"-999999", b"x", b"1.5",
                              b"", b"+1", b"1_0", b"\xd9\xa3", b"-", b"--1",
                              b"1e1", b"0x1", b"2", b"1"])
            return data[:a] + new + data[b:], ("token", a, new.decode(
                "latin-1"))
    if kind == "drop_final_zero":
        k = data.rstrip().rfind(b" 0")
        if k >= 0 and data.rstrip().endswith(b" 0"):
            return data[:k] + data[k + 2:], ("drop_final_zero", k)
    if kind == "crlf":
        return data.replace(b"\n", b"\r\n"), ("crlf",)
    if kind == "bad_utf8" and n > 0:
        k = rng.randrange(n + 1)
        return data[:k] + b"\xff\xfe" + data[k:], ("bad_utf8", k)
    if kind == "splice" and n > 2:
        k = rng.randrange(n)
        j = rng.randrange(n)
        return data[:k] + data[j:], ("splice", k, j)
    return data, ("none",)


DAMAGE_KINDS = ("truncate", "flip", "drop_line", "dup_line", "swap_lines",
                "blank_line", "comment_line", "token", "drop_final_zero",
                "crlf", "bad_utf8", "splice")


def _token_spans(data):
    spans = []
    i = 0
    n = len(data)
    ws = b" \t\r\n"
    while i < n:
        while i < n and data[i] in ws:
            i += 1
        j = i
        while j < n and data[j] not in ws:
            j += 1
        if j > i:
            spans.append((i, j))
        i = j
    return spans
