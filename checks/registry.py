"""Library-level registry of formula families and transformations.

Every entry generates JSON parameters from a harness RNG (graphs are plain
edge lists, never drawn by cnfgen's own samplers), builds the formula for a
given formula class and states the *documented* number of variables (closed
forms from the docstrings / DESIGN.md appendix C; None = no documented count).
"""
from math import comb

import cnfgen
from cnfgen import CNF
from cnfgen.formula.opb import OPB
from cnfgen.graphs import BipartiteGraph, DirectedGraph, Graph

from detsim.refmodels.varsref import ceil_log2


# ---------------------------------------------------------------------------
# graphs as data

def g_simple(rng, nmax, p=None, nmin=0):
    n = rng.randint(nmin, nmax)
    p = rng.choice([0.0, 0.2, 0.5, 0.8, 1.0]) if p is None else p
    es = [[u, v] for u in range(1, n + 1) for v in range(u + 1, n + 1)
          if rng.random() < p]
    return {"n": n, "edges": es}


def g_even(rng, nmax):
    """simple graph with all degrees even (disjoint union of cycles-ish)."""
    n = rng.randint(0, nmax)
    es = set()
    verts = list(range(1, n + 1))
    for _ in range(rng.choice([0, 1, 2])):
        k = rng.randint(3, max(3, n)) if n >= 3 else 0
        if k < 3:
            continue
        cyc = rng.sample(verts, k)
        for i in range(k):
            a, b = cyc[i], cyc[(i + 1) % k]
            e = (min(a, b), max(a, b))
            if e in es:
                es.discard(e)
            else:
                es.add(e)
    return {"n": n, "edges": [list(e) for e in sorted(es)]}


def g_dag(rng, nmax, nmin=1):
    n = rng.randint(nmin, nmax)
    p = rng.choice([0.0, 0.2, 0.5, 1.0])
    maxin = rng.choice([1, 2, 2, 3])
    es = []
    for v in range(1, n + 1):
        preds = [u for u in range(1, v) if rng.random() < p]
        rng.shuffle(preds)
        for u in sorted(preds[:maxin]):
            es.append([u, v])
    return {"n": n, "edges": es}


def g_bip(rng, lmax, rmax, lmin=0):
    L = rng.randint(lmin, lmax)
    R = rng.randint(0, rmax)
    p = rng.choice([0.0, 0.3, 0.6, 1.0])
    es = [[u, v] for u in range(1, L + 1) for v in range(1, R + 1)
          if rng.random() < p]
    return {"L": L, "R": R, "edges": es}


def mk_simple(g, nx=False):
    if nx:
        import networkx
        G = networkx.Graph()
        G.add_nodes_from(range(1, g["n"] + 1))
        G.add_edges_from(tuple(e) for e in g["edges"])
        G.name = "a networkx graph"
        return G
    G = Graph(g["n"])
    for u, v in g["edges"]:
        G.add_edge(u, v)
    return G


def mk_dag(g, nx=False):
    if nx:
        import networkx
        D = networkx.DiGraph()
        D.add_nodes_from(range(1, g["n"] + 1))
        D.add_edges_from(tuple(e) for e in g["edges"])
        D.name = "a networkx dag"
        return D
    D = DirectedGraph(g["n"])
    for u, v in g["edges"]:
        D.add_edge(u, v)
    return D


def mk_bip(g, nx=None):
    if nx:
        # sides as integers (networkx generators) or strings (graph files)
        import networkx
        side = {"int": (0, 1), "str": ("0", "1")}[nx]
        B = networkx.Graph()
        for u in range(1, g["L"] + 1):
            B.add_node(u, bipartite=side[0])
        for v in range(1, g["R"] + 1):
            B.add_node(g["L"] + v, bipartite=side[1], weight=[v])
        B.add_edges_from((u, g["L"] + v) for u, v in g["edges"])
        B.name = "a networkx bipartite graph"
        return B
    B = BipartiteGraph(g["L"], g["R"])
    for u, v in g["edges"]:
        B.add_edge(u, v)
    return B


def with_history(G, edges, n=None, style=None):
    """Insert *edges* into the cnfgen graph *G* along one of several
    histories that all end in the same graph: one by one, in one batch,
    through a batch that is refused half way (the edges before the offending
    one stay, the caller catches the error and goes on), or after growing
    the graph from a smaller vertex count.  The style is a function of the
    specification, so a case stays a pure function of its JSON text."""
    edges = [tuple(e) for e in edges]
    if style is None:
        style = (len(edges) * 3 + (n or 0)) % 6
    if style == 2 and edges:
        G.add_edges_from(edges)
    elif style == 3 and len(edges) >= 2:
        k = len(edges) // 2
        try:
            G.add_edges_from(edges[:k] + [(0, 0)] + edges[k:])
        except ValueError:
            pass
        for e in edges[k:]:
            G.add_edge(*e)
    elif style == 4 and len(edges) >= 1 and hasattr(G, "remove_edge"):
        for e in edges:
            G.add_edge(*e)
        G.remove_edge(*edges[0])
        G.add_edge(*edges[0])
    else:
        for e in edges:
            G.add_edge(*e)
    return G


def grown(cls, n, name=None):
    """A graph of *n* vertices that started smaller and was grown (two
    vertices at a time when possible)."""
    start = max(0, n - 3) if n % 2 else n
    if not hasattr(cls, "update_vertex_number"):
        start = n
    G = cls(start) if name is None else cls(start, name)
    if start < n:
        G.update_vertex_number(n)
    return G


def _pow2(rng, hi):
    return rng.choice([x for x in (1, 2, 4, 8, 16) if x <= hi])


# ---------------------------------------------------------------------------
# families: name -> (gen(rng, s), build(p, cls), count(p), opb_ok)
# s is a scale knob: 1 = tiny, 2 = small, 3 = realistic

def _S(s, tiny, small, real):
    if s >= 4:                      # thorough tier only: beyond "realistic"
        return int(real * 1.7) + 1
    return (tiny, small, real)[s - 1]


FAMILIES = {}


def fam(name, opb=True):
    def deco(fn):
        gen, build, count = fn()
        FAMILIES[name] = (gen, build, count, opb)
        return fn
    return deco


@fam("php")
def _php():
    def gen(rng, s):
        m = _S(s, 4, 8, 20)
        return {"P": rng.randint(0, m), "H": rng.randint(0, max(1, m - 3)),
                "functional": rng.random() < 0.4, "onto": rng.random() < 0.4}
    return (gen,
            lambda p, c: cnfgen.PigeonholePrinciple(
                p["P"], p["H"], functional=p["functional"], onto=p["onto"],
                formula_class=c),
            lambda p: p["P"] * p["H"])


@fam("gphp")
def _gphp():
    def gen(rng, s):
        m = _S(s, 3, 6, 12)
        return {"B": g_bip(rng, m, m), "functional": rng.random() < 0.4,
                "onto": rng.random() < 0.4}
    return (gen,
            lambda p, c: cnfgen.GraphPigeonholePrinciple(
                mk_bip(p["B"]), functional=p["functional"], onto=p["onto"],
                formula_class=c),
            lambda p: len(p["B"]["edges"]))


@fam("bphp")
def _bphp():
    def gen(rng, s):
        m = _S(s, 4, 7, 10)
        return {"P": rng.randint(1, m), "H": rng.randint(1, m + 1)}
    return (gen,
            lambda p, c: cnfgen.BinaryPigeonholePrinciple(
                p["P"], p["H"], formula_class=c),
            lambda p: p["P"] * ceil_log2(p["H"]))


@fam("rphp")
def _rphp():
    def gen(rng, s):
        m = _S(s, 3, 5, 9)
        return {"P": rng.randint(0, m), "R": rng.randint(0, m),
                "H": rng.randint(0, m)}
    return (gen,
            lambda p, c: cnfgen.RelativizedPigeonholePrinciple(
                p["P"], p["R"], p["H"], formula_class=c),
            lambda p: p["P"] * p["R"] + p["R"] * p["H"] + p["R"])


@fam("count")
def _count():
    def gen(rng, s):
        m = _S(s, 5, 8, 12)
        return {"M": rng.randint(0, m), "p": rng.randint(1, 4)}
    return (gen,
            lambda p, c: cnfgen.CountingPrinciple(p["M"], p["p"],
                                                  formula_class=c),
            lambda p: comb(p["M"], p["p"]))


@fam("matching")
def _matching():
    def gen(rng, s):
        return {"G": g_simple(rng, _S(s, 4, 7, 12)), "nx": rng.random() < 0.2}
    return (gen,
            lambda p, c: cnfgen.PerfectMatchingPrinciple(
                mk_simple(p["G"], p["nx"]), formula_class=c),
            lambda p: len(p["G"]["edges"]))


@fam("tseitin")
def _tseitin():
    def gen(rng, s):
        g = g_simple(rng, _S(s, 4, 7, 20), p=rng.choice([0.1, 0.3, 0.5]))
        # bound degrees (2^(d-1) clauses per vertex)
        deg = {}
        es = []
        for u, v in g["edges"]:
            if deg.get(u, 0) < 5 and deg.get(v, 0) < 5:
                es.append([u, v])
                deg[u] = deg.get(u, 0) + 1
                deg[v] = deg.get(v, 0) + 1
        g["edges"] = es
        ch = rng.choice(["none", "list", "short"])
        charges = None
        if ch == "list":
            charges = [rng.randint(0, 1) for _ in range(g["n"])]
        elif ch == "short":
            charges = [rng.randint(0, 1) for _ in range(g["n"] // 2)]
        return {"G": g, "charges": charges}
    return (gen,
            lambda p, c: cnfgen.TseitinFormula(
                mk_simple(p["G"]),
                None if p["charges"] is None else list(p["charges"]),
                formula_class=c),
            lambda p: len(p["G"]["edges"]))


@fam("ec")
def _ec():
    def gen(rng, s):
        return {"G": g_even(rng, _S(s, 5, 8, 12))}
    return (gen,
            lambda p, c: cnfgen.EvenColoringFormula(mk_simple(p["G"]),
                                                    formula_class=c),
            lambda p: len(p["G"]["edges"]))


@fam("subsetcard")
def _subsetcard():
    def gen(rng, s):
        m = _S(s, 3, 5, 8)
        return {"B": g_bip(rng, m, m), "eq": rng.random() < 0.5}
    return (gen,
            lambda p, c: cnfgen.SubsetCardinalityFormula(
                mk_bip(p["B"]), equalities=p["eq"], formula_class=c),
            lambda p: len(p["B"]["edges"]))


@fam("cliquecoloring")
def _cc():
    def gen(rng, s):
        m = _S(s, 3, 4, 6)
        return {"n": rng.randint(0, m), "k": rng.randint(0, m),
                "c": rng.randint(0, m)}
    return (gen,
            lambda p, c: cnfgen.CliqueColoring(p["n"], p["k"], p["c"],
                                               formula_class=c),
            lambda p: comb(p["n"], 2) + p["k"] * p["n"] + p["n"] * p["c"])


@fam("kcolor")
def _kcolor():
    def gen(rng, s):
        return {"G": g_simple(rng, _S(s, 4, 8, 15)),
                "k": rng.randint(0, _S(s, 3, 4, 5)),
                "functional": rng.random() < 0.5}
    return (gen,
            lambda p, c: cnfgen.GraphColoringFormula(
                mk_simple(p["G"]), p["k"], functional=p["functional"],
                formula_class=c),
            lambda p: p["k"] * p["G"]["n"])


@fam("domset")
def _domset():
    def gen(rng, s):
        return {"G": g_simple(rng, _S(s, 3, 5, 8)),
                "d": rng.randint(1, _S(s, 2, 3, 4)),
                "alt": rng.random() < 0.5}
    return (gen,
            lambda p, c: cnfgen.DominatingSet(
                mk_simple(p["G"]), p["d"], alternative=p["alt"],
                formula_class=c),
            lambda p: p["G"]["n"] + p["d"] * p["G"]["n"])


@fam("tiling")
def _tiling():
    def gen(rng, s):
        return {"G": g_simple(rng, _S(s, 4, 7, 12), p=rng.choice([0.1, 0.3]))}
    return (gen,
            lambda p, c: cnfgen.Tiling(mk_simple(p["G"]), formula_class=c),
            lambda p: p["G"]["n"])


@fam("iso")
def _iso():
    def gen(rng, s):
        m = _S(s, 3, 5, 7)
        return {"G1": g_simple(rng, m), "G2": g_simple(rng, m)}
    return (gen,
            lambda p, c: cnfgen.GraphIsomorphism(
                mk_simple(p["G1"]), mk_simple(p["G2"]), formula_class=c),
            lambda p: p["G1"]["n"] * p["G2"]["n"])


@fam("auto")
def _auto():
    def gen(rng, s):
        return {"G": g_simple(rng, _S(s, 3, 5, 7))}
    return (gen,
            lambda p, c: cnfgen.GraphAutomorphism(mk_simple(p["G"]),
                                                  formula_class=c),
            lambda p: p["G"]["n"] ** 2)


@fam("subgraph")
def _subgraph():
    def gen(rng, s):
        return {"G": g_simple(rng, _S(s, 3, 5, 8)),
                "H": g_simple(rng, _S(s, 2, 3, 4)),
                "induced": rng.random() < 0.5, "symbreak": rng.random() < 0.5}
    return (gen,
            lambda p, c: cnfgen.SubgraphFormula(
                mk_simple(p["G"]), mk_simple(p["H"]), induced=p["induced"],
                symbreak=p["symbreak"], formula_class=c),
            lambda p: p["H"]["n"] * p["G"]["n"])


@fam("kclique")
def _kclique():
    def gen(rng, s):
        return {"G": g_simple(rng, _S(s, 3, 6, 12)),
                "k": rng.randint(0, _S(s, 3, 3, 4)),
                "symbreak": rng.random() < 0.5}
    return (gen,
            lambda p, c: cnfgen.CliqueFormula(
                mk_simple(p["G"]), p["k"], symbreak=p["symbreak"],
                formula_class=c),
            lambda p: p["k"] * p["G"]["n"])


@fam("kcliquebin")
def _kcliquebin():
    def gen(rng, s):
        return {"G": g_simple(rng, _S(s, 3, 6, 9), nmin=1),
                "k": rng.randint(1, 3), "symbreak": rng.random() < 0.5}
    return (gen,
            lambda p, c: cnfgen.BinaryCliqueFormula(
                mk_simple(p["G"]), p["k"], symbreak=p["symbreak"],
                formula_class=c),
            lambda p: p["k"] * ceil_log2(p["G"]["n"]))


@fam("ramlb")
def _ramlb():
    def gen(rng, s):
        return {"G": g_simple(rng, _S(s, 3, 5, 8)), "k": rng.randint(0, 3),
                "s": rng.randint(0, 3), "symbreak": rng.random() < 0.5}
    return (gen,
            lambda p, c: cnfgen.RamseyWitnessFormula(
                mk_simple(p["G"]), p["k"], p["s"], symbreak=p["symbreak"],
                formula_class=c),
            lambda p: None)


@fam("op")
def _op():
    def gen(rng, s):
        return {"N": rng.randint(0, _S(s, 4, 7, 12)),
                "total": rng.random() < 0.3, "smart": rng.random() < 0.3,
                "plant": rng.random() < 0.3, "knuth": rng.choice([0, 0, 2, 3])}
    return (gen,
            lambda p, c: cnfgen.OrderingPrinciple(
                p["N"], total=p["total"], smart=p["smart"], plant=p["plant"],
                knuth=p["knuth"], formula_class=c),
            lambda p: comb(p["N"], 2) if p["smart"]
            else p["N"] * (p["N"] - 1))


@fam("gop")
def _gop():
    def gen(rng, s):
        return {"G": g_simple(rng, _S(s, 4, 6, 9)),
                "total": rng.random() < 0.3, "smart": rng.random() < 0.3,
                "plant": rng.random() < 0.3, "knuth": rng.choice([0, 0, 2, 3])}
    return (gen,
            lambda p, c: cnfgen.GraphOrderingPrinciple(
                mk_simple(p["G"]), total=p["total"], smart=p["smart"],
                plant=p["plant"], knuth=p["knuth"], formula_class=c),
            lambda p: comb(p["G"]["n"], 2) if p["smart"]
            else p["G"]["n"] * (p["G"]["n"] - 1))


@fam("peb")
def _peb():
    def gen(rng, s):
        return {"D": g_dag(rng, _S(s, 4, 10, 36))}
    return (gen,
            lambda p, c: cnfgen.PebblingFormula(mk_dag(p["D"]),
                                                formula_class=c),
            lambda p: p["D"]["n"])


@fam("stone")
def _stone():
    def gen(rng, s):
        return {"D": g_dag(rng, _S(s, 3, 5, 8)),
                "s": rng.randint(0, _S(s, 2, 3, 4))}
    return (gen,
            lambda p, c: cnfgen.StoneFormula(mk_dag(p["D"]), p["s"],
                                             formula_class=c),
            lambda p: p["s"] * p["D"]["n"] + p["s"])


@fam("sparsestone")
def _sstone():
    def gen(rng, s):
        D = g_dag(rng, _S(s, 3, 5, 7))
        B = g_bip(rng, D["n"], _S(s, 2, 3, 4), lmin=D["n"])
        return {"D": D, "B": B}
    return (gen,
            lambda p, c: cnfgen.SparseStoneFormula(
                mk_dag(p["D"]), mk_bip(p["B"]), formula_class=c),
            lambda p: p["B"]["R"] + len(p["B"]["edges"]))


@fam("ram")
def _ram():
    def gen(rng, s):
        return {"s": rng.randint(1, 4), "k": rng.randint(1, 4),
                "N": rng.randint(0, _S(s, 4, 6, 9))}
    return (gen,
            lambda p, c: cnfgen.RamseyNumber(p["s"], p["k"], p["N"],
                                             formula_class=c),
            lambda p: comb(p["N"], 2))


@fam("vdw")
def _vdw():
    def gen(rng, s):
        t = rng.choice([2, 2, 3, 4])
        return {"N": rng.randint(0, _S(s, 5, 9, 20)),
                "K": [rng.randint(2, 4) for _ in range(t)]}
    return (gen,
            lambda p, c: cnfgen.VanDerWaerden(p["N"], *p["K"],
                                              formula_class=c),
            lambda p: p["N"] if len(p["K"]) == 2 else p["N"] * len(p["K"]))


@fam("ptn")
def _ptn():
    def gen(rng, s):
        return {"N": rng.randint(0, _S(s, 6, 15, 40))}
    return (gen,
            lambda p, c: cnfgen.PythagoreanTriples(p["N"], formula_class=c),
            lambda p: p["N"])


@fam("cpls")
def _cpls():
    def gen(rng, s):
        return {"a": rng.randint(1, _S(s, 2, 3, 3)),
                "b": _pow2(rng, _S(s, 2, 4, 4)),
                "c": _pow2(rng, _S(s, 2, 2, 4))}
    return (gen,
            lambda p, c: cnfgen.CPLSFormula(p["a"], p["b"], p["c"],
                                            formula_class=c),
            lambda p: None)


@fam("pitfall")
def _pitfall():
    def gen(rng, s):
        v = rng.choice([4, 6])
        d = rng.choice([2, 3]) if v * 3 % 2 == 0 else 2
        return {"v": v, "d": d, "ny": rng.randint(2, 3),
                "nz": rng.randint(2, 3), "k": 2, "seed": rng.randrange(10**6)}
    return (gen,
            lambda p, c: cnfgen.PitfallFormula(p["v"], p["d"], p["ny"],
                                               p["nz"], p["k"],
                                               formula_class=c),
            lambda p: None)


@fam("randkcnf")
def _randkcnf():
    def gen(rng, s):
        n = rng.randint(0, _S(s, 5, 8, 20))
        k = rng.randint(0, min(n, 4))
        mx = comb(n, k) * 2 ** k
        return {"k": k, "n": n, "m": rng.randint(0, min(mx, 30)),
                "seed": rng.randrange(10**6)}
    return (gen,
            lambda p, c: cnfgen.RandomKCNF(p["k"], p["n"], p["m"],
                                           seed=p["seed"], formula_class=c),
            lambda p: p["n"])


@fam("randkxor")
def _randkxor():
    def gen(rng, s):
        n = rng.randint(1, _S(s, 5, 8, 16))
        k = rng.randint(1, min(n, 4))
        mx = comb(n, k) * 2
        return {"k": k, "n": n, "m": rng.randint(0, min(mx, 20)),
                "seed": rng.randrange(10**6)}
    return (gen,
            lambda p, c: cnfgen.RandomKXOR(p["k"], p["n"], p["m"],
                                           seed=p["seed"], formula_class=c),
            lambda p: p["n"])


# ---------------------------------------------------------------------------
# transformations: name -> (gen(rng, N), apply(F, p), count(N, p))

TRANSFORMS = {}


def _k(rng):
    return rng.choice([1, 2, 2, 3])


def _bipfor(rng, N):
    R = rng.randint(0, 6)
    es = [[u, v] for u in range(1, N + 1) for v in range(1, R + 1)
          if rng.random() < 0.4]
    # bound degree (2^(d-1) clauses per literal)
    out = []
    deg = {}
    for u, v in es:
        if deg.get(u, 0) < 3:
            out.append([u, v])
            deg[u] = deg.get(u, 0) + 1
    return {"L": N, "R": R, "edges": out}


TRANSFORMS["flip"] = (lambda rng, N: {},
                      lambda F, p: cnfgen.FlipPolarity(F),
                      lambda N, p: N)
TRANSFORMS["xor"] = (lambda rng, N: {"k": _k(rng)},
                     lambda F, p: cnfgen.XorSubstitution(F, p["k"]),
                     lambda N, p: N * p["k"])
TRANSFORMS["or"] = (lambda rng, N: {"k": _k(rng)},
                    lambda F, p: cnfgen.OrSubstitution(F, p["k"]),
                    lambda N, p: N * p["k"])
def _and_substitution(F, k):
    # (the function exists and is documented, but is not exported)
    from cnfgen.transformations.substitutions import AndSubstitution
    return AndSubstitution(F, k)


TRANSFORMS["and"] = (lambda rng, N: {"k": _k(rng)},
                     lambda F, p: _and_substitution(F, p["k"]),
                     lambda N, p: N * p["k"])
TRANSFORMS["maj"] = (lambda rng, N: {"k": _k(rng)},
                     lambda F, p: cnfgen.MajoritySubstitution(F, p["k"]),
                     lambda N, p: N * p["k"])
TRANSFORMS["eq"] = (lambda rng, N: {"k": _k(rng)},
                    lambda F, p: cnfgen.AllEqualSubstitution(F, p["k"]),
                    lambda N, p: N * p["k"])
TRANSFORMS["neq"] = (lambda rng, N: {"k": _k(rng)},
                     lambda F, p: cnfgen.NotAllEqualSubstitution(F, p["k"]),
                     lambda N, p: N * p["k"])
TRANSFORMS["one"] = (lambda rng, N: {"k": _k(rng)},
                     lambda F, p: cnfgen.ExactlyOneSubstitution(F, p["k"]),
                     lambda N, p: N * p["k"])
TRANSFORMS["ite"] = (lambda rng, N: {},
                     lambda F, p: cnfgen.IfThenElseSubstitution(F),
                     lambda N, p: 3 * N)
TRANSFORMS["lift"] = (lambda rng, N: {"k": rng.choice([1, 2, 2, 3])},
                      lambda F, p: cnfgen.FormulaLifting(F, p["k"]),
                      lambda N, p: 2 * p["k"] * N)
TRANSFORMS["exact"] = (
    lambda rng, N: {"N": rng.randint(1, 3), "k": rng.randint(-1, 4)},
    lambda F, p: cnfgen.ExactlyKSubstitution(F, p["N"], p["k"]),
    lambda N, p: N * p["N"])
TRANSFORMS["atleast"] = (
    lambda rng, N: {"N": rng.randint(1, 3), "k": rng.randint(-1, 4)},
    lambda F, p: cnfgen.AtLeastKSubstitution(F, p["N"], p["k"]),
    lambda N, p: N * p["N"])
TRANSFORMS["atmost"] = (
    lambda rng, N: {"N": rng.randint(1, 3), "k": rng.randint(-1, 4)},
    lambda F, p: cnfgen.AtMostKSubstitution(F, p["N"], p["k"]),
    lambda N, p: N * p["N"])
TRANSFORMS["anybut"] = (
    lambda rng, N: {"N": rng.randint(1, 3), "k": rng.randint(-1, 4)},
    lambda F, p: cnfgen.AnythingButKSubstitution(F, p["N"], p["k"]),
    lambda N, p: N * p["N"])
TRANSFORMS["xorcomp"] = (
    lambda rng, N: {"B": _bipfor(rng, N)},
    lambda F, p: cnfgen.VariableCompression(F, mk_bip(p["B"]), "xor"),
    lambda N, p: p["B"]["R"])
TRANSFORMS["majcomp"] = (
    lambda rng, N: {"B": _bipfor(rng, N)},
    lambda F, p: cnfgen.VariableCompression(F, mk_bip(p["B"]), "maj"),
    lambda N, p: p["B"]["R"])
TRANSFORMS["shuffle"] = (
    lambda rng, N: {"seed": rng.randrange(10**6)},
    lambda F, p: cnfgen.Shuffle(F),
    lambda N, p: N)

CLASSES = {"CNF": CNF, "OPB": OPB}
