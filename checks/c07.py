"""C07 - output is a function of the command line and the seed only.

The simulator's own discipline - put every source of nondeterminism behind
a seam, then perturb it and diff - is the decision procedure:

* inproc: the same command line (always with --seed) is executed twice
  in-process with different pre-states of the PRNG seam (and different
  allocator history), at different simulated times and UTC offsets (clock
  seam), in different simulated working directories holding the same
  relative input files (file-system seam) and under different environment
  variables; every draw made before the tool seeds the generator and every
  look at the clock, the directory or the user is therefore different in
  the two executions.
* proc: the same command line is executed in fresh interpreters under
  different PYTHONHASHSEED values, working directories (with the input
  files under the same relative names), environments and time zones 26
  hours apart.
* lib: seeded library generators are called twice with the same seed=
  and different pre-states.
"""
import os
import random as _random
import shutil
import subprocess
import sys
import tempfile

import cnfgen
from cnfgen.graphs import (BipartiteGraph, Graph, add_random_missing_edges,
                           bipartite_random, bipartite_random_left_regular,
                           bipartite_random_m_edges, bipartite_random_regular,
                           split_random_edges)

from detsim.core import Violation, call, exc_signature
from detsim.refmodels import cnfref
from detsim.runner import REPO, VERIF
from detsim.simio import SimFS
from detsim.simrandom import SimRandom, installed
from checks import cligrammar, clirun, graphviews, registry

ID = "C07"
LEVEL = "exploration"
RULE = ("one run = one command line of cnfgen / pbgen / cnfshuffle with a "
        "--seed value (from {0, 1, -1, 42, 2^31, 2^64+1, random}) or one "
        "seeded library call, executed twice (inproc, lib) under different "
        "pre-states of the PRNG seam, simulated clocks / UTC offsets, "
        "simulated working directories and environment variables, or 2-3 "
        "times (proc) in fresh interpreters with different PYTHONHASHSEED "
        "/ cwd / environment / TZ; command lines may name input files "
        "(DIMACS, kthlist, gml, dot, matrix) relative to the cwd; "
        "outputs are compared byte for byte. Non-trivial: the command uses "
        "randomness (random family, random graph argument, random charges "
        "or a shuffle / compression step); distinct = distinct (argv, "
        "seed).")
ASSUMPTIONS = [
    "every command line carries an explicit --seed (without it the output "
    "is documented to depend on the time)",
    "the tree under test (files and git HEAD of VERIF_REPO) does not change "
    "while a check runs: the 'generator' header line is 'git describe' of "
    "that tree, so a commit made between two fresh interpreters shows up as "
    "a difference that no replay reproduces (harness error, exit 2, seen "
    "once when /repo was committed to during a background sweep)",
    "in-process runs share one interpreter: process-level inputs (hash "
    "seed, addresses, cwd) are varied only by the 'proc' configuration",
]
COMPONENTS = {
    "real": ["cli()/main() of cnfgen, pbgen, cnfshuffle; argparse graph "
             "actions; all samplers; header construction; cnfgen.info "
             "(git describe) in fresh interpreters"],
    "stub": ["PRNG seam (SimRandom with different pre-states) for inproc / "
             "lib; std streams and file system with a simulated working "
             "directory (SimFS) for inproc; clock seam (SimClock: time.*, "
             "datetime.date/datetime) for inproc; os.environ for inproc"],
}
MANIFEST = {
    "text": "Differential deterministic simulation: identical (command "
            "line, seed) pairs are executed under perturbed nondeterminism "
            "sources - PRNG pre-state, allocator history, simulated wall "
            "clock and UTC offset, simulated working directory and "
            "environment variables in-process; PYTHONHASHSEED, working "
            "directory, environment, time zone and ASLR in fresh "
            "interpreters - and the complete outputs (header "
            "included) are compared byte for byte; seeded library "
            "generators are compared the same way. Exploration by sampling "
            "over a grammar covering every sub-command, random graph "
            "construction, modifier and transformation.",
    "design_ref": "DESIGN.md 4.2",
    "note": "Equality of two runs can only fail if the output depends on "
            "something other than argv and seed, so there is no gray zone; "
            "runs that end in a command-line error are compared on status "
            "only (note).",
    "technique": "deterministic simulation: perturb every nondeterminism "
                 "seam (PRNG pre-state, clock, time zone, hash seed, "
                 "addresses, cwd, env) and "
                 "diff outputs of identical (argv, seed)",
}
SIMULATED_TIME = ("each in-process execution reads a simulated clock that "
                  "starts at a drawn epoch (1970 .. 2106) and UTC offset "
                  "(-12 h .. +14 h) and advances one microsecond per read; "
                  "the two executions of a run are up to 136 simulated years "
                  "apart; fresh interpreters differ by TZ (26 h apart)")
# fresh interpreters take seconds each when the machine is busy; running time
# is not part of this property
RUN_TIMEOUT_S = 240
TIMEOUT_IS_VIOLATION = False
# a violation of this property is itself a lack of reproducibility: two
# executions that draw from an unseeded generator differ almost always, not
# always (tiny random graphs coincide now and then)
CONFIRM_TRIES = 6
CONFIGS = {
    "quick": [("inproc", 1800), ("lib", 6000), ("proc", 130),
              ("proclib", 90)],
    "thorough": [("inproc", 6), ("lib", 2), ("proc", 3), ("proclib", 1)],
}
CHUNK = 40
# runs of this check cost 30-800 ms each: smaller determinism sample
SELFTEST_N = {"quick": 8, "thorough": 40}
SEEDS = [0, 1, -1, 42, 2 ** 31, 2 ** 64 + 1]

_WORK = None
_STATS = {"runs": 0, "exc": 0}


def _workdir():
    global _WORK
    if _WORK is None or not os.path.isdir(_WORK):
        from detsim.runner import scratch_dir
        _WORK = scratch_dir("c07.")
        import atexit
        atexit.register(shutil.rmtree, _WORK, True)
        os.mkdir(os.path.join(_WORK, "plain"))
        os.makedirs(os.path.join(_WORK, "other", "nested"))
    return _WORK


PROCLIB_SEEDS = ["('run', 3)", "'text'", "2.5", "b'abc'",
                 "frozenset({1, 2, 3})", "('a', ('b', 1.5))", "7",
                 "frozenset({'a', 'b', 'c'})", "('k', frozenset({'x', 'y'}))",
                 "K(3, 7)", "(K(1, 2), 5)"]
PROCLIB_FUNCS = ["RandomKCNF", "RandomKXOR", "glrd", "glrm", "glrp",
                 "regular"]


def generate(rng, config):
    seed = rng.choice(SEEDS + [rng.randrange(2 ** 32), rng.randrange(1000)])
    if config == "proclib":
        # a library generator with a seed that is not an integer, called in
        # two interpreters with different hash seeds
        return {"proclib": rng.choice(PROCLIB_FUNCS),
                "seedexpr": rng.choice(PROCLIB_SEEDS),
                "n": rng.randint(3, 9), "k": rng.randint(1, 3),
                "m": rng.randint(1, 6),
                "hashseeds": [str(rng.choice([0, 1, 4242])),
                              str(rng.randrange(1, 2 ** 32))]}
    if config == "lib":
        kind = rng.choice(["randkcnf", "randkxor", "glrd", "glrm", "glrp",
                           "regular", "addedges", "addedges_bip",
                           "splitedges"])
        return {"lib": kind, "seed": rng.choice([0, 1, 7, "s", seed]),
                "n": rng.randint(2, 7), "k": rng.randint(1, 3),
                "m": rng.randint(0, 6), "pre": [rng.randrange(2 ** 32),
                                               rng.randrange(2 ** 32)]}
    tool = rng.choice(["cnfgen", "cnfgen", "cnfgen", "pbgen", "cnfshuffle"])
    case = {"tool": tool, "seed": seed,
            "pre": [rng.randrange(2 ** 32), rng.randrange(2 ** 32)],
            "garbage": rng.randint(0, 60)}
    if tool == "cnfshuffle":
        n, clauses = cnfref.random_cnf(rng, max_vars=7, max_clauses=10)
        case["input"] = "p cnf %d %d\n" % (n, len(clauses)) + "".join(
            " ".join(map(str, c)) + " 0\n" for c in clauses)
        flags = rng.sample(["-p", "-v", "-c", "-q"], rng.randint(0, 2))
        sd = rng.choice([str(seed), "abc", "0", "x y"])
        case["argv"] = flags + ["--seed", sd]
        case["stdin"] = rng.random() < 0.5
        case["random"] = True
        _gen_process_inputs(rng, case, config)
        return case
    want = True if rng.random() < 0.8 else None
    files = index = None
    if rng.random() < 0.3:
        # input files named relative to the working directory
        from checks.c18 import make_files
        files, index = make_files(rng)
        want = None
    c = cligrammar.command_line(rng, tool, want_random=want, seed=seed,
                                transforms=True, options=True, files=index,
                                document=0.04)
    argv = c["argv"][1:]
    if files:
        case["files"] = {k: v["data"] for k, v in files.items()
                         if k in argv and v["kind"] == "file"}
    # the seed option in every spelling argparse accepts
    for i, a in enumerate(argv[:-1]):
        if a in ("--seed", "-S"):
            sp = rng.choice(["plain", "plain", "eq", "glued", "abbrev",
                             "cluster"])
            val = argv[i + 1]
            if sp == "cluster" and not val.startswith("-"):
                # the seed at the end of a cluster of short options
                flag = rng.choice(["q", "v"])
                rest = [a for a in argv[:i] + argv[i + 2:]
                        if a not in ("-q", "-v", "--quiet", "--verbose")]
                argv[:] = [rng.choice(["-%sS" % flag, "-%sS%s" % (flag, val)]
                                      )] + rest
                if not argv[0].endswith(val):
                    argv.insert(1, val)
                break
            if sp == "eq":
                argv[i:i + 2] = ["--seed=" + val]
            elif sp == "glued" and not val.startswith("-"):
                argv[i:i + 2] = ["-S" + val]
            elif sp == "abbrev":
                argv[i] = rng.choice(["--see", "--se"])
            break
    if rng.random() < 0.15:
        # a long option of the formula or of a transformation, abbreviated
        # (argparse accepts unique prefixes)
        longs = [j for j, a in enumerate(argv) if a.startswith("--") and
                 len(a) > 4 and not a.startswith("--se")]
        if longs:
            j = rng.choice(longs)
            # ('--output' is an option of its own, not an abbreviation of
            # '--output-format': it would write a file named after the format)
            lo = 10 if argv[j].startswith("--output-") else 3
            if lo <= len(argv[j]) - 1:
                argv[j] = argv[j][:rng.randint(lo, len(argv[j]) - 1)]
    if c["outfile"]:
        # keep the formula on stdout: compare bytes there
        i = argv.index("-o")
        del argv[i:i + 2]
    case["argv"] = argv
    case["random"] = c["random"]
    _gen_process_inputs(rng, case, config)
    return case


EPOCHS = [0, 86399, 951782399, 10 ** 9, 2 ** 31 - 1, 4102444800,
          1790000000]
TZS = [-12 * 3600, 0, 14 * 3600, 5 * 3600 + 2700]
SIMCWDS = ["home/alice", "srv/jobs/42", "home/alice/with blank", "x"]
# who runs the tool, where, in which language, in how wide a terminal
# (the grammar of this check never asks for a help text, the only output
# whose layout legitimately follows the terminal)
ENVS = [{"USER": "alice", "LOGNAME": "alice", "HOME": "/home/alice",
         "LANG": "en_US.UTF-8", "HOSTNAME": "node1", "TMPDIR": "/tmp",
         "COLUMNS": "200", "LINES": "50"},
        {"USER": "bob", "LOGNAME": "bob", "HOME": "/srv/bob",
         "LANG": "C", "LC_ALL": "C", "HOSTNAME": "node2",
         "TMPDIR": "/var/tmp", "NO_COLOR": "1", "COLUMNS": "45"},
        {"USER": "root", "LOGNAME": "root", "HOME": "/root",
         "LANG": "it_IT.ISO-8859-1", "HOSTNAME": "build-7",
         "SOURCE_DATE_EPOCH": "0", "PYTHONHASHSEED": "random",
         "COLUMNS": "72", "TERM": "dumb"},
        # run from a hook of another repository, or by 'git rebase --exec'
        # (git exports GIT_DIR to every hook), with settings of git
        # injected through the environment
        {"USER": "ci", "HOME": "/home/ci", "GIT_DIR": "/nonexistent/.git",
         "GIT_WORK_TREE": "/tmp"},
        {"USER": "dev", "GIT_CONFIG_COUNT": "1",
         "GIT_CONFIG_KEY_0": "core.abbrev", "GIT_CONFIG_VALUE_0": "20"},
        # (git exports these to pre-receive / update hooks and to worktrees)
        {"USER": "git", "GIT_OBJECT_DIRECTORY": "/nonexistent/objects",
         "GIT_ALTERNATE_OBJECT_DIRECTORIES": "/nonexistent/alt"},
        {"USER": "wt", "GIT_COMMON_DIR": "/nonexistent/common",
         "GIT_INDEX_FILE": "/nonexistent/index",
         "GIT_CEILING_DIRECTORIES": "/"},
        {}]


def _gen_process_inputs(rng, case, config):
    """What differs between the two executions of the same command line:
    the wall clock, the time zone and the working directory (in-process,
    behind the clock and file-system seams), and the process (fresh
    interpreters: hash seed, addresses, cwd, environment)."""
    case["clocks"] = [[rng.choice(EPOCHS + [rng.randrange(2 ** 32)]),
                       rng.choice(TZS)] for _ in range(2)]
    case["simcwds"] = rng.sample(SIMCWDS, 2)
    case["envs"] = rng.sample(ENVS, 2)
    case["locales"] = [rng.choice(["utf-8", "utf-8", "ascii", "latin-1",
                                   "cp1252"]) for _ in range(2)]
    if config == "proc":
        case["hashseeds"] = [str(rng.choice([0, 1, 4242])),
                             str(rng.randrange(1, 2 ** 32))]
        case["cwds"] = rng.sample(["repo", "plain", "verif"], 2)
        if case.get("files") or case["tool"] == "cnfshuffle":
            case["cwds"] = rng.sample(["plain", "other/nested"], 2)
        case["env"] = rng.choice([{}, {"TZ": "Asia/Tokyo"},
                                  {"LANG": "C", "COLUMNS": "40"},
                                  {"LC_ALL": "C.UTF-8"}])
        # the two processes may also live in different time zones, far
        # enough apart to be on different calendar days
        case["tzs"] = rng.choice([None, None, ["AAA12", "BBB-14"]])


# ---------------------------------------------------------------------------

def _run_inproc(case, pre, garbage, which=0):
    fs = SimFS()
    clock = None
    if case.get("clocks"):
        from detsim.simclock import SimClock
        clock = SimClock(*case["clocks"][which])
        fs.cwd = case["simcwds"][which]
        fs.locale_encoding = (case.get("locales") or ["utf-8"] * 2)[which]
    for name, data in (case.get("files") or {}).items():
        fs.put(name, data)
    argv = list(case["argv"])
    stdin = b""
    if case["tool"] == "cnfshuffle":
        if case["stdin"]:
            stdin = case["input"].encode()
        else:
            fs.put("in.cnf", case["input"])
            argv = ["-i", "in.cnf"] + argv
    junk = [Graph(1) for _ in range(garbage)]     # move the allocator
    sim = SimRandom(pre, max_draws=1_000_000)
    saved_env = dict(os.environ)
    os.environ.update((case.get("envs") or [{}, {}])[which])
    try:
        o = clirun.run_tool(case["tool"], argv, fs, sim=sim, stdin=stdin,
                            clock=clock)
    finally:
        os.environ.clear()
        os.environ.update(saved_env)
    del junk
    o.clock_reads = clock.reads if clock else 0
    return o, sim


def _exec_proclib(case, ctx):
    k, n, m = min(case["k"], case["n"]), case["n"], case["m"]
    callexpr = {
        "RandomKCNF": "cnfgen.RandomKCNF(%d, %d, %d, seed=SEED)" % (k, n, m),
        "RandomKXOR": "cnfgen.RandomKXOR(%d, %d, %d, seed=SEED)" % (k, n, m),
        "glrd": "G.bipartite_random_left_regular(%d, %d, %d, seed=SEED)" % (
            n, n, k),
        "glrm": "G.bipartite_random_m_edges(%d, %d, %d, seed=SEED)" % (
            n, n, m),
        "glrp": "G.bipartite_random(%d, %d, 0.5, seed=SEED)" % (n, n),
        "regular": "G.bipartite_random_regular(%d, %d, %d, seed=SEED)" % (
            n, n, k)}[case["proclib"]]
    # (the seed expression is evaluated once per call: two equal objects)
    code = ("import cnfgen\n"
            "import cnfgen.graphs as G\n"
            "class K:\n"
            "    def __init__(s, a, b): s.a, s.b = a, b\n"
            "    def __eq__(s, o): return isinstance(o, K) and "
            "(s.a, s.b) == (o.a, o.b)\n"
            "    def __hash__(s): return hash((s.a, s.b))\n"
            "def show(X):\n"
            "    if hasattr(X, 'number_of_variables'):\n"
            "        return (X.number_of_variables(), list(X))\n"
            "    return (X.left_order(), X.right_order(), "
            "[tuple(e) for e in X.edges()])\n"
            "for _ in range(2):\n"
            "    print(show(%s))\n" % callexpr.replace("SEED",
                                                      case["seedexpr"]))
    outs = []
    for hs in case["hashseeds"]:
        env = {"PATH": os.environ.get("PATH", "/usr/bin:/bin"),
               "PYTHONPATH": REPO, "PYTHONHASHSEED": hs,
               "PYTHONDONTWRITEBYTECODE": "1"}
        p = subprocess.run([sys.executable, "-W", "ignore", "-c", code],
                           capture_output=True, env=env, timeout=110)
        outs.append((p.returncode, p.stdout, p.stderr[-300:]))
        ctx.fault("fresh_process")
    ctx.fault("hashseed_varied")
    ctx.log("proclib", case["proclib"], case["seedexpr"],
            [o[0] for o in outs])
    ctx.shape = (case["proclib"], case["seedexpr"], case["n"], case["k"],
                 case["m"])
    ctx.nontrivial = outs[0][0] == 0
    where = callexpr.replace("SEED", case["seedexpr"])
    if outs[0][0] != outs[1][0]:
        raise Violation("C07/proclib/exit-status-differs", "%s\n%r\n%r" %
                        (where, outs[0], outs[1]))
    for rc, out, _ in outs:
        lines = out.decode().splitlines()
        if rc == 0 and len(lines) == 2 and lines[0] != lines[1]:
            raise Violation("C07/proclib/equal-seeds-differ",
                            "%s called twice in one process with equal seed "
                            "objects:\n%s\n%s" % (where, lines[0][:300],
                                                  lines[1][:300]))
    if outs[0][0] != 0 and b"TypeError" in outs[0][2]:
        # documented as 'hashable object': every such seed is served
        raise Violation("C07/proclib/seed-refused",
                        "%s\n%s" % (where, outs[0][2].decode()[-300:]))
    if outs[0][0] == 0 and outs[0][1] != outs[1][1]:
        raise Violation("C07/proclib/output-differs",
                        "%s\nPYTHONHASHSEED=%s: %s\nPYTHONHASHSEED=%s: %s" %
                        (where, case["hashseeds"][0],
                         outs[0][1].decode()[:300], case["hashseeds"][1],
                         outs[1][1].decode()[:300]))
    ctx.probe("library generator reproduced in another process")


def execute(case, ctx):
    if "proclib" in case:
        return _exec_proclib(case, ctx)
    if "lib" in case:
        return _exec_lib(case, ctx)
    if "hashseeds" in case:
        return _exec_proc(case, ctx)
    if not _has_seed(case["argv"]):
        ctx.note("command line without --seed: nothing is promised")
        return
    o1, s1 = _run_inproc(case, case["pre"][0], 0, 0)
    o2, s2 = _run_inproc(case, case["pre"][1], case["garbage"], 1)
    if case.get("clocks"):
        ctx.fault("clock_and_timezone_perturbed")
        ctx.fault("simulated_cwd_varied")
        ctx.fault("environment_variables_varied")
        if o1.clock_reads or o2.clock_reads:
            ctx.probe("the tool read the clock")
    ctx.log("inproc", case["tool"], case["argv"], o1.status, o2.status,
            len(o1.stdout), len(o2.stdout))
    ctx.shape = (case["tool"], case["argv"], case.get("input"))
    ctx.nontrivial = bool(case["random"]) and o1.status == 0
    ctx.fault("prng_prestate_perturbed")
    where = "%s %s" % (case["tool"], " ".join(case["argv"]))
    _STATS["runs"] += 1
    for o in (o1, o2):
        if o.exc is not None:
            ctx.note("run ended in an internal exception (C18 territory)")
            _STATS["exc"] += 1
            if _STATS["runs"] >= 100 and _STATS["exc"] > _STATS["runs"] / 4:
                from detsim.core import HarnessError
                raise HarnessError(
                    "more than a quarter of the in-process runs end in an "
                    "internal exception (last: %r): the harness is broken" %
                    (o.exc,))
            return
    if o1.status != o2.status:
        raise Violation("C07/inproc/exit-status-differs",
                        "%s\nstatus %r vs %r\n%s\n---\n%s" %
                        (where, o1.status, o2.status, o1.stderr[-300:],
                         o2.stderr[-300:]))
    if o1.status != 0:
        ctx.note("command-line error (both runs)")
        return
    if o1.stdout != o2.stdout:
        taint = ""
        if s1.draws_before_seed or s2.draws_before_seed:
            taint = "draws made before the tool seeded the generator: %d " \
                "(e.g. %r)" % (s1.draws_before_seed, s1.transcript[:2])
        kind = "unseeded-draws" if (s1.draws_before_seed or
                                    s2.draws_before_seed) else \
            ("seed-not-applied" if not s1.seed_calls else "other")
        if kind == "other" and case.get("clocks"):
            d = _first_diff(o1.stdout, o2.stdout)
            if any("/simfs/" + c in d for c in case["simcwds"]):
                kind = "working-directory"
            elif o1.clock_reads or o2.clock_reads:
                kind = "clock"
        raise Violation("C07/inproc/output-differs/%s" % kind,
                        "%s\n%s\n%s" % (where, taint,
                                        _first_diff(o1.stdout, o2.stdout)))
    if s1.restarts:
        # (not a verdict: the output is reproducible all the same; but two
        # parts of the run - say the random graph and the random charges -
        # are then built from the same numbers)
        ctx.note("the random stream was restarted with the same seed after "
                 "numbers had been drawn")
    if s1.draws and case["random"]:
        ctx.probe("random command reproduced")
    if case["seed"] == 0:
        ctx.probe("seed 0")


def _has_seed(argv):
    if argv and argv[0][:2] in ("-q", "-v") and argv[0][2:3] == "S":
        return True
    for i, a in enumerate(argv):
        if a in ("--seed", "-S", "--see", "--se") and i + 1 < len(argv):
            return True
        if a.startswith("--seed=") or (a.startswith("-S") and len(a) > 2):
            return True
    return False


def _first_diff(a, b):
    la, lb = a.split("\n"), b.split("\n")
    for i, (x, y) in enumerate(zip(la, lb)):
        if x != y:
            return "first difference at line %d:\n< %s\n> %s" % (
                i + 1, x[:200], y[:200])
    return "outputs have %d and %d lines" % (len(la), len(lb))


_DRIVER = ("import sys, importlib\n"
           "m = importlib.import_module('cnfgen.clitools.%s')\n"
           "sys.argv = [%r] + sys.argv[1:]\n"
           "m.main()\n")


def _exec_proc(case, ctx):
    if not _has_seed(case["argv"]):
        ctx.note("command line without --seed: nothing is promised")
        return
    work = _workdir()
    tool = case["tool"]
    argv = list(case["argv"])
    stdin = b""
    cwds = {"repo": REPO, "plain": os.path.join(work, "plain"),
            "other/nested": os.path.join(work, "other", "nested"),
            "verif": VERIF}
    inputs = dict(case.get("files") or {})
    if tool == "cnfshuffle":
        if case["stdin"]:
            stdin = case["input"].encode()
        else:
            # the same relative name in both working directories
            name = "in.cnf"          # the scratch directory is per process
            inputs[name] = case["input"]
            argv = ["-i", name] + argv
    written = []
    for cw in case["cwds"]:
        for name, data in inputs.items():
            path = os.path.join(cwds[cw], name)
            with open(path, "wb") as f:
                f.write(data if isinstance(data, bytes) else data.encode())
            written.append(path)
    outs = []
    for pi, (hs, cw) in enumerate(zip(case["hashseeds"], case["cwds"])):
        env = {"PATH": os.environ.get("PATH", "/usr/bin:/bin"),
               "PYTHONPATH": REPO, "PYTHONHASHSEED": hs,
               "PYTHONDONTWRITEBYTECODE": "1", "HOME": work}
        env.update(case["env"])
        for k, v in ((case.get("envs") or [{}, {}])[pi]).items():
            if k not in ("PYTHONHASHSEED", "HOME", "TMPDIR"):
                env[k] = v
        if case.get("tzs"):
            env["TZ"] = case["tzs"][pi]
        p = subprocess.run([sys.executable, "-W", "ignore", "-c",
                            _DRIVER % (tool, tool)] + argv,
                           input=stdin, capture_output=True, env=env,
                           cwd=cwds[cw], timeout=110)
        outs.append((p.returncode, p.stdout, p.stderr, hs, cw))
        ctx.fault("fresh_process")
    for path in written:
        os.unlink(path)
    ctx.fault("hashseed_varied")
    if case.get("tzs"):
        ctx.fault("timezones_26h_apart")
    if case["cwds"][0] != case["cwds"][1]:
        ctx.fault("cwd_varied")
    # (only what is a function of the case when the property is violated:
    # the lengths of unreproducible outputs are not)
    ctx.log("proc", tool, argv if tool != "cnfshuffle" else case["argv"],
            [o[0] for o in outs])
    ctx.shape = (tool, case["argv"], case.get("input"))
    ctx.nontrivial = bool(case["random"]) and outs[0][0] == 0
    where = "%s %s" % (tool, " ".join(case["argv"]))
    a, b = outs[0], outs[1]
    if a[0] != b[0]:
        raise Violation("C07/proc/exit-status-differs",
                        "%s\n(hashseed,cwd)=%r -> %r, %r -> %r\n%s\n%s" %
                        (where, a[3:], a[0], b[3:], b[0], a[2][-300:],
                         b[2][-300:]))
    if a[0] != 0:
        ctx.note("command-line error (both processes)")
        if b"Traceback" in a[2]:
            ctx.note("fresh process ended in a traceback")
            _STATS["exc"] += 1
            if _STATS["exc"] > 20:
                from detsim.core import HarnessError
                raise HarnessError("fresh processes keep ending in "
                                   "tracebacks: %r" % a[2][-400:])
        return
    if a[1] != b[1]:
        d = _first_diff(a[1].decode("utf-8", "replace"),
                        b[1].decode("utf-8", "replace"))
        kind = "generator-line" if "generator" in d.split("\n")[1] else (
            "object-address" if " at 0x" in d else "other")
        if kind == "other" and a[3] != b[3] and a[4] == b[4]:
            kind = "hashseed"
        raise Violation("C07/proc/output-differs/%s" % kind,
                        "%s\n(PYTHONHASHSEED,cwd)=%r vs %r env=%r\n%s" %
                        (where, a[3:], b[3:], case["env"], d))
    ctx.probe("fresh processes agree")


def _exec_lib(case, ctx):
    kind = case["lib"]
    n, k, m, seed = case["n"], case["k"], case["m"], case["seed"]
    if isinstance(seed, int) and seed > 2 ** 40:
        seed = seed % 1000
    results = []
    for pre in case["pre"]:
        sim = SimRandom(pre, max_draws=1_000_000)
        with installed(sim):
            if kind == "randkcnf":
                r = call(cnfgen.RandomKCNF, min(k, n), n, m, seed=seed)
                snap = lambda F: (F.number_of_variables(), list(F))
            elif kind == "randkxor":
                r = call(cnfgen.RandomKXOR, min(k, n), n, min(m, n),
                         seed=seed)
                snap = lambda F: (F.number_of_variables(), list(F))
            elif kind == "glrd":
                r = call(bipartite_random_left_regular, n, n, min(k, n),
                         seed=seed)
                snap = graphviews.snapshot
            elif kind == "glrm":
                r = call(bipartite_random_m_edges, n, n, m, seed=seed)
                snap = graphviews.snapshot
            elif kind == "glrp":
                r = call(bipartite_random, n, n, 0.5, seed=seed)
                snap = graphviews.snapshot
            elif kind == "regular":
                r = call(bipartite_random_regular, n, n, min(k, n),
                         seed=seed)
                snap = graphviews.snapshot
            elif kind in ("addedges", "splitedges"):
                G = Graph(n)
                for u in range(1, n):
                    G.add_edge(u, u + 1)
                if kind == "addedges":
                    r = call(add_random_missing_edges, G, min(m, 3),
                             seed=seed)
                else:
                    r = call(split_random_edges, G, min(m, n - 1), seed=seed)
                if r[0] == "ok":
                    r = ("ok", G)
                snap = graphviews.snapshot
            else:
                B = BipartiteGraph(n, n)
                B.add_edge(1, 1)
                r = call(add_random_missing_edges, B, min(m, 3), seed=seed)
                if r[0] == "ok":
                    r = ("ok", B)
                snap = graphviews.snapshot
        if r[0] == "exc":
            if isinstance(r[1], ValueError):
                ctx.note("library call refused the arguments")
                return
            raise Violation("C07/lib/exception/%s" %
                            exc_signature(r[1], REPO), "%s %r: %r" %
                            (kind, case, r[1]))
        results.append(snap(r[1]))
    ctx.log("lib", kind, n, k, m, str(seed))
    ctx.shape = (kind, n, k, m, str(seed))
    ctx.nontrivial = True
    ctx.fault("prng_prestate_perturbed")
    if results[0] != results[1]:
        raise Violation("C07/lib/result-differs/%s" % kind,
                        "%s(n=%d,k=%d,m=%d,seed=%r) with two different PRNG "
                        "pre-states:\n%r\n%r" % (kind, n, k, m, seed,
                                                 results[0], results[1]))
    ctx.probe("seeded library call reproduced: %s" % kind)


def evidence_extra(agg):
    return {"registry_vs_installed_helpers": cligrammar.registry_gaps()}


SHRINK_SKIP = {"pre", "seed", "garbage", "hashseeds", "cwds", "tool",
               "input", "lib", "clocks", "simcwds", "tzs", "files", "envs",
               "locales"}
