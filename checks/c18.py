"""C18 - any command line ends in a usable formula or a clean, shielded error.

One run = one simulated process execution of cnfgen, pbgen, cnfshuffle or
kthlist2pebbling: argv from the grammar plus 0-3 mutations, a simulated
file system populated with input files of every kind (valid, empty,
truncated, corrupted, wrong format for the extension, invalid UTF-8,
directory, missing, unreadable, EIO on read) and output targets (missing
directory, directory, unwritable), prepared stdin, captured stdout/stderr.
The outcome is classified as formula / help / command-line error; anything
else is a violation.
"""
import errno
import random as _random
import re

from detsim.core import Violation, exc_signature
from detsim.refmodels import cnfref
from detsim.runner import REPO
from detsim.simio import DAMAGE_KINDS, SimFS, damage
from detsim.simrandom import SimRandom
from checks import cligrammar, clirun

ID = "C18"
LEVEL = "fault_enumeration"
RULE = ("one run = one in-process execution of main() of one of the four "
        "tools with argv = grammar-generated command line + 0-3 mutations "
        "(drop/duplicate/swap tokens, boundary numbers and other spellings "
        "of numbers: control characters that int() strips, digit "
        "separators, other bases, inf/1e999, unknown options, "
        "misplaced options, second sub-command, dangling -T, bad files), "
        "over a simulated file system whose input files cover every fault "
        "kind; for the 'files' config every file-fault kind is enumerated "
        "for the file arguments of the sampled command line. Non-trivial: "
        "argv has >= 3 tokens and was mutated or touches a file; distinct = "
        "distinct (tool, argv, file kinds, stdin).")
ASSUMPTIONS = [
    "strict readers of detsim/refmodels/cnfref.py define 'usable formula' "
    "(DIMACS, OPB without mandatory ';', full LaTeX document)",
    "isatty() is False for every stream (the pager branch is not run)",
    "numbers stay small (no 10^9-sized requests): resource exhaustion is "
    "out of scope",
]
COMPONENTS = {
    "real": ["main()/cli() of cnfgen, pbgen, cnfshuffle, kthlist2pebbling",
             "argparse parsers, graph argument actions, every helper's "
             "build_formula / transform_cnf", "all writers",
             "Python io stack over the simulated devices"],
    "stub": ["argv / stdin / stdout / stderr (SimStream)", "file system "
             "(SimFS via builtins.open router)", "PRNG (SimRandom, fair)"],
}
MANIFEST = {
    "text": "Deterministic simulation of whole process executions of the "
            "four tools: grammar-generated and mutated argument vectors, "
            "simulated stdin/stdout/stderr and a simulated disk with input "
            "files of every fault kind (missing, directory, unreadable, "
            "EIO, empty, truncated, corrupted, wrong format, invalid UTF-8) "
            "and bad output targets; each outcome must classify as a "
            "formula accepted by a strict reader, a help text, or a "
            "shielded command-line error with non-zero exit; file-fault "
            "kinds are enumerated per sampled command line in the 'files' "
            "configuration and boundary values (0, -1, 1, +1, non-numeric) "
            "at every numeric argv position in the 'boundary' "
            "configuration.",
    "design_ref": "DESIGN.md 4.10",
    "note": "Sampling over argv; in-process simulation of the process "
            "boundary (exit status = SystemExit code, streams captured); "
            "real OS behaviour below open()/stdout is not exercised.",
    "technique": "deterministic simulation with fault injection (simulated "
                 "process: argv, streams, file system with every file-fault "
                 "kind), outcome classifier with strict readers",
}
CONFIGS = {
    "quick": [("valid", 1500), ("mutated", 4500), ("files", 500),
              ("boundary", 320), ("extended", 600)],
    "thorough": [("valid", 2), ("mutated", 6), ("files", 2),
                 ("boundary", 2), ("extended", 1)],
}
BOUNDARY_VALUES = ("0", "-1", "1", "+1", "x")


def SPELLINGS(cur):
    """Other spellings a shell hands over: the value followed / preceded by
    a control character that Python's int() strips (CRLF parameter files,
    form feeds, unicode line separators), digit separators, other bases,
    and the float spellings of "no number at all"."""
    c = str(cur)
    return [c + "\r", "\r" + c, c + "\n", c + "\x0c", c + "\x1c",
            c + "\x1e", c + "\x85", c + "\u2028", " " + c + " ",
            c[:1] + "_" + c[1:] if len(c) > 1 else "1_0", "0x10", "inf",
            "-inf", "Infinity", "1e999", "1e400", "1e-400", c + ".0",
            "0" + c,
            # far beyond any machine: must end in an error message (the
            # worker's address space is limited, see runner.py)
            "99999999999999999999"]
CHUNK = 40
# runs of this check cost 30-800 ms each: smaller determinism sample
SELFTEST_N = {"quick": 10, "thorough": 60}
# C18 says nothing about running time, and a mutated number can make a
# formula legitimately huge: a run that exceeds the limit is abandoned and
# recorded as a note (a genuine hang would show up as a pile of such notes).
RUN_TIMEOUT_S = 25
TIMEOUT_IS_VIOLATION = False
# (nor about the number of random draws: 'randkcnf -p 2 99999999999999999999 6'
# plants an assignment to 10**20 variables, one draw each, before it runs
# out of memory and says so)
DRAW_BUDGET_IS_VIOLATION = False
# address space of a simulated process (numbers like 10**20 are part of
# the workload: the sooner the machine says no, the better)
MEM_GB = 2

HELP_FLAGS = ("-h", "--help", "-V", "--version", "--tutorial",
              "--help-graph", "--help-bipartite", "--help-dag")
MARKER = {"dimacs": "c ", "opb": "* ", "latex": "% "}
FILE_FAULTS = ("missing", "dir", "unreadable", "eio", "empty", "truncated",
               "corrupted", "wrongformat", "badutf8")


# ---------------------------------------------------------------------------
# file generators (plain data)

def _edges(rng, n, p, directed=False, dag=False):
    es = []
    for u in range(1, n + 1):
        for v in range(1, n + 1):
            if u < v and rng.random() < p:
                es.append((u, v))
            elif u > v and directed and not dag and rng.random() < p / 2:
                es.append((u, v))
    return es


def _kth(n, es, kind):
    lines = ["c a %s graph%s" % (kind, " caf\u00e9" if n % 2 else ""), str(n)]
    for v in range(1, n + 1):
        if kind == "simple":
            nb = sorted([a for a, b in es if b == v] +
                        [b for a, b in es if a == v])
        else:
            nb = sorted(a for a, b in es if b == v)
        lines.append("%d : %s0" % (v, "".join("%d " % x for x in nb)))
    return "\n".join(lines) + "\n"


def _kth_bip(L, R, es):
    lines = ["c bipartite", str(L + R)]
    for u in range(1, L + 1):
        nb = sorted(b + L for a, b in es if a == u)
        lines.append("%d : %s0" % (u, "".join("%d " % x for x in nb)))
    return "\n".join(lines) + "\n"


def _dimacs_graph(n, es):
    return "c graph\np edge %d %d\n" % (n, len(es)) + "".join(
        "e %d %d\n" % e for e in es)


def _matrix(L, R, es):
    s = set(es)
    return "%d %d\n" % (L, R) + "".join(
        " ".join("1" if (u, v) in s else "0" for v in range(1, R + 1)) + "\n"
        for u in range(1, L + 1))


def _gml(n, es, directed=False, bip=None):
    out = ["graph ["]
    if directed:
        out.append("  directed 1")
    for v in range(1, n + 1):
        extra = ""
        if bip is not None:
            extra = " bipartite %d" % (0 if v <= bip else 1)
        out.append("  node [ id %d label \"%d\"%s ]" % (v, v, extra))
    for a, b in es:
        out.append("  edge [ source %d target %d ]" % (a, b))
    out.append("]")
    return "\n".join(out) + "\n"


def _dot(n, es, directed=False, bip=None):
    out = ["digraph G {" if directed else "graph G {"]
    for v in range(1, n + 1):
        if bip is not None:
            out.append("  %d [bipartite=%d];" % (v, 0 if v <= bip else 1))
        else:
            out.append("  %d;" % v)
    arrow = " -> " if directed else " -- "
    for a, b in es:
        out.append("  %d%s%d;" % (a, arrow, b))
    out.append("}")
    return "\n".join(out) + "\n"


def make_files(rng):
    """(entries, index of valid files for the grammar, all input names)."""
    entries = {}
    index = {"simple": [], "bipartite": [], "dag": [], "cnf": []}
    n = rng.randint(1, 5)
    es = _edges(rng, n, 0.5)
    for fmt, text in (("kthlist", _kth(n, es, "simple")),
                      ("dimacs", _dimacs_graph(n, es)),
                      ("gml", _gml(n, es)), ("dot", _dot(n, es))):
        name = "s." + fmt
        entries[name] = {"kind": "file", "data": text}
        index["simple"].append((name, fmt))
    n = rng.randint(1, 5)
    es = _edges(rng, n, 0.5, directed=True, dag=True)
    for fmt, text in (("kthlist", _kth(n, es, "dag")),
                      ("dimacs", _dimacs_graph(n, es)),
                      ("gml", _gml(n, es, directed=True)),
                      ("dot", _dot(n, es, directed=True))):
        name = "d." + fmt
        entries[name] = {"kind": "file", "data": text}
        index["dag"].append((name, fmt))
    L, R = rng.randint(1, 4), rng.randint(1, 4)
    es = [(u, v) for u in range(1, L + 1) for v in range(1, R + 1)
          if rng.random() < 0.5]
    for fmt, text in (("kthlist", _kth_bip(L, R, es)),
                      ("matrix", _matrix(L, R, es)),
                      ("gml", _gml(L + R, [(a, b + L) for a, b in es],
                                   bip=L)),
                      ("dot", _dot(L + R, [(a, b + L) for a, b in es],
                                   bip=L))):
        name = "b." + fmt
        entries[name] = {"kind": "file", "data": text}
        index["bipartite"].append((name, fmt))
    nv, cl = cnfref.random_cnf(rng, max_vars=5, max_clauses=6)
    text = "c a formula%s\np cnf %d %d\n" % (
        rng.choice(["", "", " caf\u00e9", " \u2028x"]), nv, len(cl)) + "".join(
        " ".join(map(str, c)) + " 0\n" for c in cl)
    entries["f.cnf"] = {"kind": "file", "data": text}
    index["cnf"].append("f.cnf")
    # file names are bytes: one that is not UTF-8 reaches python as a
    # string with a lone surrogate (os.fsdecode)
    odd = "f\udce4.cnf"
    entries[odd] = {"kind": "file", "data": text}
    index["cnf"].append(odd)
    godd = "gr\udce4ph.kthlist"
    entries[godd] = dict(entries["s.kthlist"])
    index["simple"].append((godd, "kthlist"))
    # ... and names are the user's: accents, characters special to TeX
    for nm in ("gr\u00e9.cnf", "50%.cnf", "a#b&c.cnf", "x^2_y.cnf",
               "{brace.cnf", "til~de$.cnf", "back\\slash.cnf"):
        entries[nm] = {"kind": "file", "data": text}
        index["cnf"].append(nm)
    for nm in ("gr\u00e9.kthlist", "100%_#1.kthlist"):
        entries[nm] = dict(entries["s.kthlist"])
        index["simple"].append((nm, "kthlist"))
    entries["adir"] = {"kind": "dir"}
    entries["adir.kthlist"] = {"kind": "dir"}
    entries["ro.cnf"] = {"kind": "unwritable", "data": ""}
    return entries, index


def apply_file_fault(entries, name, fault, rng):
    e = entries.get(name)
    data = (e or {}).get("data", "")
    if isinstance(data, str):
        data = data.encode("utf-8")
    if fault == "missing":
        entries.pop(name, None)
    elif fault == "dir":
        entries[name] = {"kind": "dir"}
    elif fault == "unreadable":
        entries[name] = {"kind": "unreadable", "data": data}
    elif fault == "eio":
        entries[name] = {"kind": "file", "data": data,
                         "plan": {"eio_at": rng.choice(
                             [0, 0, max(0, len(data) // 2)])}}
    elif fault == "empty":
        entries[name] = {"kind": "file", "data": b""}
    elif fault == "truncated":
        entries[name] = {"kind": "file",
                         "data": data[:rng.randrange(max(1, len(data)))]}
    elif fault == "corrupted":
        d2, _ = damage(data, rng)
        entries[name] = {"kind": "file", "data": d2}
    elif fault == "wrongformat":
        other = rng.choice(["1 2 3\n", "p cnf 2 1\n1 2 0\n", "graph [\n]\n",
                            "3\n1 : 0\n", "2 2\n1 0\n0 1\n", "{}"])
        entries[name] = {"kind": "file", "data": other.encode()}
    elif fault == "badutf8":
        entries[name] = {"kind": "file", "data": b"\xff\xfe" + data}


# ---------------------------------------------------------------------------
# generation

def _gen_other_tool(rng, tool, index):
    if tool == "cnfshuffle":
        argv = rng.sample(["-p", "-v", "-c", "-q"], rng.randint(0, 2))
        if rng.random() < 0.7:
            argv += ["-i", "f.cnf"]
        if rng.random() < 0.3:
            argv += ["--seed", rng.choice(["1", "x", "0"])]
        if rng.random() < 0.2:
            argv += ["-o", "out.cnf"]
        return argv
    argv = []
    if rng.random() < 0.7:
        argv += ["-i", "d.kthlist"]
    if rng.random() < 0.2:
        argv += ["-q"]
    if rng.random() < 0.2:
        argv += ["-o", "out.cnf"]
    if rng.random() < 0.4:
        t = rng.choice(sorted(cligrammar.TRANSFORMS))
        targs, _ = cligrammar.TRANSFORMS[t](rng)
        argv += [t] + [str(x) for x in targs]
    return argv


NUM = re.compile(r"^-?\d+(\.\d+)?$")


def mutate(rng, argv, tool, kind=None):
    argv = list(argv)
    kind = kind or rng.choice(["drop", "dup", "swap", "number", "number", "unknown",
                       "late_option", "second_cmd", "dangling_T", "badfile",
                       "badfile", "outfile", "format", "help", "dash",
                       "empty_token", "abbrev", "end_of_options", "save",
                       "save"])
    n = len(argv)
    if kind == "drop" and n:
        del argv[rng.randrange(n)]
    elif kind == "dup" and n:
        i = rng.randrange(n)
        argv.insert(i, argv[i])
    elif kind == "swap" and n >= 2:
        i = rng.randrange(n - 1)
        argv[i], argv[i + 1] = argv[i + 1], argv[i]
    elif kind == "number":
        idx = [i for i, a in enumerate(argv) if NUM.match(a)]
        if idx:
            i = rng.choice(idx)
            try:
                cur = int(float(argv[i]))
            except ValueError:
                cur = 1
            argv[i] = str(rng.choice([0, -1, 1, cur + 1, cur - 1, "x", "1.5",
                                      "", "1e1", "nan", "+2", "٣"] +
                                     SPELLINGS(cur)))
    elif kind == "unknown":
        argv.insert(rng.randrange(n + 1),
                    rng.choice(["--bogus", "-Z", "--seed", "-o", "-of",
                                "--output-format", "{}", "--{x}", "%d",
                                "{0}", "\\n"]))
    elif kind == "late_option":
        argv.append(rng.choice(["-q", "--seed", "-v", "--varnames", "-o",
                                "-of", "opb", "-S", "3"]))
    elif kind == "second_cmd":
        argv += [rng.choice(sorted(cligrammar.FORMULAS)), "3"]
    elif kind == "dangling_T":
        argv += rng.choice([["-T"], ["-T", "bogus"], ["-T", "xor"],
                            ["-T", "-T"], ["-T", "xor", "x"],
                            ["-T", "shuffle", "-T"]])
    elif kind == "badfile":
        names = ["nosuch.kthlist", "adir", "adir.kthlist", "nosuch",
                 "s.kthlist", "d.kthlist", "b.matrix", "f.cnf", "s.gml",
                 "b.dot", "-", "kthlist", "gml", "save", "{}", "g{0}.gml",
                 "graph_{n}.kthlist", "%s.dot", "%(x)s", "a b.gml",
                 "caf\u00e9.gml", "{"]
        idx = [i for i, a in enumerate(argv) if "." in a and not
               NUM.match(a)]
        if idx and rng.random() < 0.7:
            argv[rng.choice(idx)] = rng.choice(names)
        else:
            argv.insert(rng.randrange(n + 1), rng.choice(names))
    elif kind == "outfile":
        pos = 0
        argv[pos:pos] = ["-o", rng.choice(["out.cnf", "nodir/out.cnf",
                                           "adir", "ro.cnf", "out.tex",
                                           "out.opb", "-"])]
    elif kind == "format":
        argv[0:0] = [rng.choice(["-of", "--output-format"]),
                     rng.choice(["dimacs", "opb", "latex", "bogus", ""])]
    elif kind == "help":
        argv.insert(rng.randrange(n + 1), rng.choice(HELP_FLAGS))
    elif kind == "dash":
        argv.insert(rng.randrange(n + 1), rng.choice(["-", "--", "---"]))
    elif kind == "save":
        # the graph of the command line stored somewhere (or nowhere)
        i = argv.index("-T") if "-T" in argv else n
        argv[i:i] = ["save"] + rng.choice(
            [["saved.kthlist"], ["nodir/g.gml"], [""], ["adir"], ["ro.cnf"],
             ["g.bogus"], ["kthlist", "g.out"], ["gml", "nodir/deeper/g"],
             ["dot", "adir.kthlist"], []])
    elif kind == "end_of_options":
        # '--': what follows is positional, whatever it looks like
        i = rng.randrange(n + 1)
        argv.insert(i, "--")
        if rng.random() < 0.6:
            argv.insert(rng.randint(i + 1, n + 1),
                        rng.choice(HELP_FLAGS[:2] + ("-q", "-x", "-1")))
    elif kind == "empty_token":
        argv.insert(rng.randrange(n + 1), "")
    elif kind == "abbrev" and n:
        i = rng.randrange(n)
        if argv[i].startswith("--") and len(argv[i]) > 4:
            argv[i] = argv[i][:rng.randint(3, len(argv[i]) - 1)]
    return argv, kind


def generate(rng, config):
    entries, index = make_files(rng)
    tool = rng.choice(["cnfgen", "cnfgen", "cnfgen", "pbgen", "pbgen",
                       "cnfshuffle", "kthlist2pebbling"])
    if config == "boundary" and rng.random() < 0.5:
        # half of the boundary runs walk through the graph constructions,
        # each one equally often
        tool = rng.choice(["cnfgen", "cnfgen", "pbgen"])
        toks, _ = cligrammar.graph_command(rng)
        argv = (["--seed", "3"] if rng.random() < 0.5 else []) + toks
    elif tool in ("cnfgen", "pbgen"):
        c = cligrammar.command_line(rng, tool, files=index,
                                    seed=rng.choice([None, None, 3]))
        argv = c["argv"][1:]
        if rng.random() < 0.4:
            k = c["optend"] - 1
            argv = cligrammar.respell_options(rng, argv[:k]) + argv[k:]
    else:
        argv = _gen_other_tool(rng, tool, index)
    muts = []
    scenario = rng.random() if config == "mutated" else 1
    if scenario < 0.08 and tool in ("cnfgen", "pbgen"):
        # the output format asked in one of its spellings, then one broken
        # number: the error report carries the marker of that format
        c = cligrammar.command_line(rng, tool, files=index, options=False,
                                    transforms=False)
        opts = [rng.choice(["-q", "-v"])] + rng.choice(
            [["-l"], ["-l"], ["--latex"], ["-o", "out.tex"],
             ["-o", "out.opb"], ["-of", "latex"], ["-of", "opb"],
             ["-l", "-o", "x.cnf"]])
        argv = cligrammar.respell_options(rng, opts) + c["argv"][1:]
        argv, k = mutate(rng, argv, tool, "number")
        muts.append(k)
    elif scenario < 0.14 and tool in ("cnfgen", "pbgen"):
        # '--' after the name of the formula, an option-like token later
        c = cligrammar.command_line(rng, tool, files=index, options=False,
                                    transforms=False)
        toks = c["argv"][1:]
        toks.insert(1, "--")
        extra = rng.choice(["-h", "--help", "-h", "-q", "-x", "--", "--"])
        nums = [i for i, a in enumerate(toks) if i >= 2 and NUM.match(a)]
        if extra == "--" and nums:
            # a second '--' where a number is expected (argparse hands the
            # formula an empty list there)
            toks[rng.choice(nums)] = "--"
        else:
            toks.insert(rng.randint(2, len(toks)), extra)
        argv = toks
        muts.append("end_of_options")
    elif config == "mutated":
        for _ in range(rng.choice([1, 1, 2, 3])):
            argv, k = mutate(rng, argv, tool)
            muts.append(k)
    # stdin
    r = rng.random()
    if r < 0.4:
        stdin = ""
    elif r < 0.6:
        stdin = entries["f.cnf"]["data"]
    elif r < 0.8:
        stdin = entries["d.kthlist"]["data"]
    else:
        stdin = rng.choice(["garbage\n", "p cnf 1 1\n", "3\n1 : 0\n2 : 1 0\n",
                            "\n\n"])
    case = {"tool": tool, "argv": argv, "mutations": muts, "stdin": stdin,
            "files": {k: ({"kind": v["kind"], "data": v.get("data", "")})
                      for k, v in entries.items()},
            "file_faults": [], "prng_seed": rng.randrange(2 ** 32),
            "config": config}
    used = [a for a in argv if a in entries and
            entries[a]["kind"] == "file"]
    if config == "mutated" and used and rng.random() < 0.35:
        case["file_faults"] = [[rng.choice(used), rng.choice(FILE_FAULTS),
                                rng.randrange(2 ** 30)]]
    if config == "files":
        if not used:
            # make sure there is a file argument to torture
            if tool == "cnfshuffle":
                case["argv"] = ["-i", "f.cnf"]
            elif tool == "kthlist2pebbling":
                case["argv"] = ["-i", "d.kthlist"]
            else:
                fam, key = rng.choice([("kcolor 2", "simple"),
                                       ("php", "bipartite"),
                                       ("peb", "dag"), ("dimacs", "cnf"),
                                       ("tseitin first", "simple"),
                                       ("stone 2", "dag"),
                                       ("subsetcard", "bipartite")])
                f = rng.choice(index[key])
                ftoks = [f] if key == "cnf" else (
                    [f[0]] if rng.random() < 0.5 else [f[1], f[0]])
                case["argv"] = fam.split() + ftoks
        case["file_faults"] = "all"
        case["fault_seed"] = rng.randrange(2 ** 30)
    if config == "extended" and rng.random() < 0.3:
        # the help texts go through the same streams
        case["argv"] = list(case["argv"])
        case["argv"].insert(rng.choice([0, 0, 0, len(case["argv"])]),
                            rng.choice(HELP_FLAGS))
    if config == "extended":
        case["extended"] = rng.choice(["stdout_epipe", "stdout_enospc",
                                       "outfile_enospc", "stdin_eio",
                                       "stdin_closed", "stdin_closed",
                                       "stdout_closed", "stdout_closed",
                                       "stderr_closed", "stderr_closed"])
    # the locale of the process (what open() without an encoding uses)
    case["locale"] = rng.choice([None, None, None, "ascii", "latin-1",
                                 "cp1252"])
    return case


# ---------------------------------------------------------------------------
# classification

def requested_format(tool, argv):
    fmt = out = None
    i = 0
    argv = cligrammar.expand_options(argv)
    while i < len(argv):
        a = argv[i]
        if a in ("-of", "--output-format") and i + 1 < len(argv):
            fmt = argv[i + 1]
            i += 2
            continue
        if a in ("-l", "--latex"):
            fmt = "latex"
        if a in ("-o", "--output") and i + 1 < len(argv):
            out = argv[i + 1]
            i += 2
            continue
        if a == "-T":
            break
        i += 1
    if tool in ("cnfshuffle", "kthlist2pebbling"):
        return "dimacs", out
    if fmt in ("latex", "dimacs", "opb"):
        return fmt, out
    if tool == "pbgen":
        return "opb", out       # pbgen's format option defaults to opb
    if out and out.endswith(".tex"):
        return "latex", out
    if out and out.endswith(".opb"):
        return "opb", out
    return ("opb" if tool == "pbgen" else "dimacs"), out


def _strip_pydot(text):
    """Remove pydot's parse diagnostics (echoed line, caret, 'Expected')."""
    lines = text.split("\n")
    out = []
    i = 0
    noise = False
    while i < len(lines):
        if i + 2 < len(lines) and lines[i + 1].strip() == "^" and \
                lines[i + 2].startswith("Expected"):
            noise = True
            i += 3
            continue
        out.append(lines[i])
        i += 1
    return "\n".join(out), noise


def _looks_like_graph_file(t):
    head = t.lstrip()[:40]
    return head.startswith(("c ", "graph", "digraph", "strict")) and \
        "p cnf" not in t and "#variable=" not in t or \
        "p edge" in t


def _is_help_flag(a):
    """Exact help/version flag or an argparse abbreviation of a long one."""
    if a in HELP_FLAGS:
        return True
    return a.startswith("--") and len(a) >= 3 and any(
        f.startswith(a) for f in HELP_FLAGS if f.startswith("--"))


def strict_accepts(text):
    """Formats whose strict reader accepts *text*."""
    ok = []
    n, m, cl, probs = cnfref.scan_dimacs_output(text)
    if not probs and n is not None and m == len(cl) and \
            all(abs(l) <= n and l != 0 for c in cl for l in c):
        ok.append("dimacs")
    n, m, probs = cnfref.scan_opb_output(text)
    if not probs:
        ok.append("opb")
    if not cnfref.scan_latex_output(text):
        ok.append("latex")
    return ok


def classify(tool, argv, o, fs, mutated, stdio_encoding=None):
    """Return (class, problem-or-None).  class in formula/help/error."""
    req, outname = requested_format(tool, argv)
    tool_default = "* " if tool == "pbgen" else "c "
    if o.exc is not None:
        return "crash", ("internal-exception/%s" %
                         exc_signature(o.exc, REPO), repr(o.exc))
    outdata = None
    # every file the run has written is a possible output target ('-of' is
    # '-o f' for cnfshuffle / kthlist2pebbling, graphs saved with 'save'
    # are not formulas and are skipped by the fragment detector)
    written = [(pth, e) for pth, e in sorted(fs.entries.items())
               if e.get("written") and e.get("kind") == "file"]
    for pth, e in written:
        try:
            t = e.get("data", b"").decode("utf-8")
        except UnicodeDecodeError:
            return "formula", ("output-file-not-utf8", pth)
        if outname and fs.norm(outname) == pth:
            outdata = t
        elif outdata is None and cnfref.formula_fragments(t) and \
                not _looks_like_graph_file(t):
            outdata = t
            outname = pth
    # (diagnostics of the third-party dot parser used to be stripped here;
    # they are noise on the stream that carries the formula, so they count)
    frag_out = cnfref.formula_fragments(o.stdout)
    frag_err = cnfref.formula_fragments(o.stderr)
    frag_file = cnfref.formula_fragments(outdata) if outdata else []
    has_help = any(_is_help_flag(a) for a in argv)
    if o.status == 0:
        targets = [t for t in (o.stdout, outdata) if t]
        if not targets:
            if has_help:
                return "help", ("help-printed-nothing", "")
            return "formula", ("success-without-output",
                               "exit status 0, nothing on stdout%s" %
                               (" nor in %s" % outname if outname else ""))
        withf = [t for t in targets if cnfref.formula_fragments(t)]
        if not withf:
            if has_help:
                return "help", None
            return "formula", ("success-without-formula",
                               "exit status 0 but no formula: stdout=%r" %
                               o.stdout[:200])
        if len(withf) > 1:
            return "formula", ("formula-on-two-targets", "")
        text = withf[0]
        acc = strict_accepts(text)
        if not acc:
            n, m, cl, p1 = cnfref.scan_dimacs_output(text)
            return "formula", ("malformed-output/%s" % req,
                               "no strict reader accepts the output; as %s: "
                               "%r; head=%r" %
                               (req, (p1 if req == "dimacs" else
                                      cnfref.scan_opb_output(text)[2]
                                      if req == "opb" else
                                      cnfref.scan_latex_output(text))[:3],
                                text[:300]))
        if not mutated and req not in acc:
            return "formula", ("wrong-output-format", "requested %s, output "
                               "is %r" % (req, acc))
        if frag_err:
            return "formula", ("formula-bytes-on-stderr", frag_err[:3])
        if "latex" in acc and text is o.stdout and stdio_encoding:
            # the document declares \usepackage[utf8]{inputenc}
            try:
                text.encode(stdio_encoding).decode("utf-8")
            except UnicodeError:
                return "formula", ("latex-is-not-the-utf8-it-declares",
                                   "standard output in %s" % stdio_encoding)
        return "formula", None
    # ---- non-zero exit status ------------------------------------------------
    if (frag_out or frag_file) and \
            "the request is too large to be served" in o.stderr:
        # the machine gave out while the formula was being written: where
        # that happens depends on the state of the allocator, not on the
        # command line - size, not a verdict
        return "error", ("note:ran out of memory while writing", "")
    if frag_out or frag_file:
        return "error", ("partial-formula-with-error",
                         "exit status %d but formula text was written: %r" %
                         (o.status, (frag_out or frag_file)[:3]))
    lines = [l for l in o.stderr.split("\n") if l.strip()]
    if not lines:
        return "error", ("error-without-message", "exit status %d, empty "
                         "stderr, stdout=%r" % (o.status, o.stdout[:200]))
    # the marker of the output format that was asked for (when the command
    # line was mutated the request itself may be unclear: any marker)
    accepted = {MARKER[req]}
    if mutated:
        accepted |= set(MARKER.values())
    bad = [l for l in lines
           if not any(l.startswith(mk) or l == mk.strip()
                      for mk in accepted)]
    if bad:
        return "error", ("unshielded-error-message",
                         "stderr line without the comment marker %r: %r" %
                         (sorted(accepted), bad[0][:200]))
    return "error", None


# ---------------------------------------------------------------------------

def _fs_for(case, faults, ctx):
    entries = {}
    for k, v in case["files"].items():
        entries[k] = {"kind": v["kind"], "data": v.get("data", "").encode(
            "utf-8") if isinstance(v.get("data", ""), str) else v["data"]}
    for name, fault, seed in faults:
        apply_file_fault(entries, name, fault, _random.Random(seed))
        ctx.fault("file:" + fault)
    fs = SimFS(entries, on_fire=ctx.fault)
    if case.get("locale"):
        fs.locale_encoding = case["locale"]
    return fs


def _one(case, ctx, faults):
    tool, argv = case["tool"], case["argv"]
    fs = _fs_for(case, faults, ctx)
    sim = SimRandom(case["prng_seed"], max_draws=2_000_000)
    kw = {}
    ext = case.get("extended")
    if ext == "stdout_epipe":
        kw["stdout_fail"] = BrokenPipeError(errno.EPIPE, "Broken pipe")
    elif ext == "stdout_enospc":
        kw["stdout_fail"] = OSError(errno.ENOSPC, "No space left on device")
    elif ext == "stdin_eio":
        kw["stdin_plan"] = {"eio_at": 0}
    elif ext in ("stdin_closed", "stdout_closed", "stderr_closed"):
        kw[ext] = True
    elif ext == "outfile_enospc":
        e = fs.entries.setdefault("out.cnf", {"kind": "file", "data": b"",
                                              "plan": {}})
        e["plan"] = {"enospc_at": 10}
        if not {"-o", "--output"} & set(cligrammar.expand_options(argv)):
            argv = ["-o", "out.cnf"] + list(argv)
    # (the standard streams of the process have the encoding of its locale)
    kw["stdio_encoding"] = case.get("locale")
    o = clirun.run_tool(tool, argv, fs, sim=sim,
                        stdin=case["stdin"].encode("utf-8"), **kw)
    # (a number replaced by another token or a formula name appended leave
    # the requested output format as clear as it was)
    unclear = [m for m in case["mutations"]
               if m not in ("number", "second_cmd", "dangling_T")]
    klass, prob = classify(tool, argv, o, fs, bool(unclear),
                           case.get("locale"))
    if prob and prob[0].startswith("note:"):
        ctx.note(prob[0][5:] + " (size, not a verdict)")
        prob = None
    ctx.log(tool, argv, [f[:2] for f in faults], o.status, klass,
            prob[0] if prob else None, len(o.stdout), len(o.stderr))
    ctx.probe("outcome:%s" % klass)
    if ext:
        ctx.fault("device:" + ext)
        if prob:
            ctx.note("extended (%s): %s" % (ext, prob[0].split("/")[0]))
        if ext in ("stdin_closed", "stdout_closed", "stderr_closed") and \
                o.exc is not None:
            # nobody at the keyboard is not an excuse for a traceback (a
            # process started by cron or by a supervisor, 'cmd 2>&-', has
            # None in place of the stream)
            raise Violation("C18/%s/%s" % (tool, prob[0]),
                            "%s %s\n%s\n%r" %
                            (tool, " ".join(map(repr, argv)), ext, o.exc))
        if ext == "stderr_closed":
            # the run is judged as ever, except that a report of an error
            # cannot be seen (and must not land on the stream of the formula)
            if prob and prob[0] != "error-without-message":
                raise Violation("C18/%s/%s" % (tool, prob[0]),
                                "%s %s\n%s\n%s\nstatus=%r stdout=%r" %
                                (tool, " ".join(map(repr, argv)), ext,
                                 prob[1], o.status, o.stdout[:300]))
            if o.status != 0 and o.stdout.strip():
                raise Violation("C18/%s/error-report-on-stdout" % tool,
                                "%s %s\n%s\nstatus=%r stdout=%r" %
                                (tool, " ".join(map(repr, argv)), ext,
                                 o.status, o.stdout[:300]))
            return
        if ext == "stdout_closed":
            _, target = requested_format(tool, argv)
            if target in (None, "-") and klass == "formula" and \
                    o.status == 0 and not prob:
                # cannot be: the formula was to be written on a closed stream
                raise Violation("C18/%s/success-on-a-closed-stream" % tool,
                                "%s %s" % (tool, " ".join(map(repr, argv))))
            if prob and not (target in (None, "-") and prob[0] in (
                    "success-without-output", "help-printed-nothing")):
                pass
            if o.status == 0 and target in (None, "-") and klass != "help" \
                    and not any(_is_help_flag(a) for a in argv):
                raise Violation("C18/%s/success-on-a-closed-stream" % tool,
                                "%s %s\nexit status 0 although standard "
                                "output is closed; stderr=%r" %
                                (tool, " ".join(map(repr, argv)),
                                 o.stderr[:300]))
            return
        _, target = requested_format(tool, argv)
        hit = (ext == "stdout_enospc" and target in (None, "-")) or \
            (ext == "outfile_enospc" and target == "out.cnf")
        if hit and klass != "help" \
                and not any(_is_help_flag(a) for a in argv):
            # a device without space ('-o /dev/full', a full disk): the
            # complete formula cannot have been written, so the run must
            # not end as a success (nor in a traceback)
            if o.exc is not None and not isinstance(o.exc, OSError):
                raise Violation("C18/%s/%s" % (tool, prob[0]),
                                "%s %s\ndevice fault %s\n%r" %
                                (tool, " ".join(map(repr, argv)), ext, o.exc))
            refused = ext == "stdout_enospc" or ctx.fired.get("enospc", 0)
            if not refused:
                # (the whole output fitted into what room there was)
                ctx.probe("output shorter than the room on the device")
            if refused and o.exc is None and o.status == 0 and \
                    klass == "formula":
                raise Violation(
                    "C18/%s/success-on-a-full-device" % tool,
                    "%s %s\ndevice fault %s: exit status 0 although the "
                    "output could not be written; stderr=%r" %
                    (tool, " ".join(map(repr, argv)), ext, o.stderr[:300]))
        return
    if prob:
        raise Violation("C18/%s/%s" % (tool, prob[0]),
                        "%s %s\nfile faults=%r stdin=%r\n%s\nstatus=%r\n"
                        "stdout=%r\nstderr=%r" %
                        (tool, " ".join(map(repr, argv)),
                         [f[:2] for f in faults], case["stdin"][:60],
                         prob[1], o.status, o.stdout[:300], o.stderr[:400]))


def execute(case, ctx):
    argv = case["argv"]
    ctx.shape = (case["tool"], argv, case["file_faults"], case["stdin"],
                 case.get("extended"))
    touches = [a for a in argv if a in case["files"]]
    ctx.nontrivial = len(argv) >= 3 and (bool(case["mutations"]) or
                                         bool(touches))
    for m in case["mutations"]:
        ctx.fault("argv:" + m)
    if case.get("config") == "boundary":
        # fault enumeration over argv: every numeric token takes every
        # boundary value in turn (cur+1 is written as "+1")
        _one(case, ctx, [])
        stop = argv.index("-T") if "-T" in argv else len(argv)
        idx = [i for i, a in enumerate(argv[:stop]) if NUM.match(a)][:8]
        base = dict(case)
        for i in idx:
            for val in BOUNDARY_VALUES:
                v = val
                if val == "+1":
                    try:
                        v = str(int(float(argv[i])) + 1)
                    except ValueError:
                        v = "2"
                if v == argv[i]:
                    continue
                c2 = dict(base)
                c2["argv"] = argv[:i] + [v] + argv[i + 1:]
                c2["mutations"] = ["boundary"]
                ctx.fault("argv:boundary")
                _one(c2, ctx, [])
        # legal ranges often relate two neighbouring numbers (k <= n,
        # d < N, m <= max): each number also takes the value of its
        # neighbour, one more and one less
        for i in idx:
            for j in (i - 1, i + 1):
                if j not in idx:
                    continue
                try:
                    other = int(float(argv[j]))
                except ValueError:
                    continue
                for v in (other, other + 1, other - 1):
                    if str(v) == argv[i] or abs(v) > 64:
                        continue
                    c2 = dict(base)
                    c2["argv"] = argv[:i] + [str(v)] + argv[i + 1:]
                    c2["mutations"] = ["boundary"]
                    ctx.fault("argv:boundary-relative-to-neighbour")
                    _one(c2, ctx, [])
        return
    if case["file_faults"] == "all":
        names = [a for a in argv if a in case["files"] and
                 case["files"][a]["kind"] == "file"]
        _one(case, ctx, [])
        rng = _random.Random(case["fault_seed"])
        for name in names[:2]:
            for fault in FILE_FAULTS:
                _one(case, ctx, [[name, fault, rng.randrange(2 ** 30)]])
        return
    _one(case, ctx, [tuple(f) for f in case["file_faults"]])


def evidence_extra(agg):
    return {"registry_vs_installed_helpers": cligrammar.registry_gaps(),
            "file_fault_kinds_enumerated_per_command_line": list(
                FILE_FAULTS)}


SHRINK_SKIP = {"files", "prng_seed", "tool", "fault_seed", "config",
               "stdin"}
