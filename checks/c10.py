"""C10 - every formula mentions only variables it owns, allocated freshly.

A run-time *monitor* wraps the insertion and allocation methods of the
formula classes (no hook in /repo): it tracks the largest variable mentioned
by any inserted clause/constraint and checks every variable-group creation
for freshness and contiguity at the moment it happens.  Workloads: (a) API
histories with valid, unchecked-but-legal and refused operations, (b) every
family at small and realistic sizes, both formula classes, followed by
chains of transformations, with the documented variable count as oracle.
"""
import os
import random

import cnfgen
from cnfgen import CNF
from cnfgen.formula.basecnf import BaseCNF
from cnfgen.formula.baseopb import BaseOPB
from cnfgen.formula.opb import OPB
from cnfgen.formula.variables import VariablesManager

from detsim.core import Violation, call, exc_signature
from detsim.runner import REPO
from detsim.simrandom import SimRandom, installed
from checks import cligrammar, registry
from cnfgen.clitools.cmdline import CLIError
from cnfgen.clitools.cnfgen import cli as _cnfgen_cli
from cnfgen.clitools.pbgen import cli as _pbgen_cli

_CLI = {"cnfgen": _cnfgen_cli, "pbgen": _pbgen_cli}

ID = "C10"
LEVEL = "exploration"
RULE = ("api_* configs: one run = one history of <= 30 insertion / "
        "constraint / allocation operations (checked, unchecked-in-range and"
        " refused) on a CNF or OPB under the allocation monitor; family "
        "config: one run = one family instance (scale tiny/small/realistic, "
        "CNF or OPB) plus a chain of <= 3 transformations, each step checked "
        "for range, freshness and the documented variable count; cli "
        "config: one command line, scanned, and every '-T' step checked "
        "against the documented count by running every prefix of the "
        "command line under the same seed. "
        "Non-trivial: the run created at least one variable group after at "
        "least one clause was inserted, or applied a transformation; "
        "distinct = distinct case.")
ASSUMPTIONS = [
    "documented counts are the closed forms of DESIGN.md appendix C",
    "unchecked insertions made by the *workload* stay inside the declared "
    "range (the caller's documented obligation); unchecked insertions made "
    "by family code are what is being checked",
    "sizes: families up to ~400 variables / 10^5 clauses",
]
COMPONENTS = {"real": ["BaseCNF/CNFLinear/BaseOPB insertion and constraint "
                       "builders", "VariablesManager allocation",
                       "all 32 families", "all 16 transformations"],
              "stub": ["PRNG (SimRandom) for Pitfall/random formulas"]}
MANIFEST = {
    "text": "Deterministic simulation of formula construction under a "
            "run-time allocation monitor: seeded API histories (checked, "
            "unchecked and refused insertions interleaved with group "
            "creation) and all families/transformation chains at tiny to "
            "realistic sizes for both formula classes; invariants are "
            "evaluated at every allocation (freshness, contiguity) and on "
            "every returned formula (literal range, documented variable "
            "count). Exploration by sampling.",
    "design_ref": "DESIGN.md 4.4",
    "note": "Freshness is observed by wrapping add_clause/add_constraint/"
            "_add_variable_group at run time; code that appended to the "
            "clause list without calling them would be invisible to the "
            "monitor but is still caught by the final range scan.",
    "technique": "deterministic simulation: seeded histories + step-wise "
                 "run-time monitor of allocation events, closed-form count "
                 "oracle",
}
CONFIGS = {
    "quick": [("api_cnf", 40000), ("api_opb", 25000), ("family", 30000),
              ("cli", 900)],
    "thorough": [("api_cnf", 3), ("api_opb", 2), ("family", 5), ("cli", 1)],
}
CHUNK = 150


# ---------------------------------------------------------------------------
# the monitor

class Monitor:
    def __init__(self):
        self.state = {}
        self.problems = []
        self.groups = 0
        self.groups_after_clauses = 0
        self._saved = None

    def st(self, F):
        s = self.state.get(id(F))
        if s is None or s["obj"] is not F:
            s = {"obj": F, "maxm": 0, "ins": 0}
            self.state[id(F)] = s
        return s

    def _mention(self, F, lits):
        s = self.st(F)
        s["ins"] += 1
        m = s["maxm"]
        for l in lits:
            if type(l) is int:
                a = l if l >= 0 else -l
                if a > m:
                    m = a
        s["maxm"] = m

    def install(self):
        mon = self
        o_cnf_add = BaseCNF.add_clause
        o_opb_add = BaseOPB.add_clause
        o_opb_con = BaseOPB.add_constraint
        o_grp = VariablesManager._add_variable_group

        # only the public interface of the formula classes is used here
        # (len(F), F[i]): private attribute names are free to change
        def cnf_add(self, clause, check=True):
            n0 = len(self)
            try:
                return o_cnf_add(self, clause, check)
            finally:
                n1 = len(self)
                if n1 > n0:
                    mon._mention(self, self[n1 - 1])

        def _terms(con):
            return [t[1] for t in con[:-2]
                    if isinstance(t, tuple) and len(t) == 2]

        def opb_add(self, clause, check=True):
            n0 = len(self)
            try:
                return o_opb_add(self, clause, check)
            finally:
                n1 = len(self)
                if n1 > n0:
                    mon._mention(self, _terms(self[n1 - 1]))

        def opb_con(self, constraint, check=True):
            n0 = len(self)
            try:
                return o_opb_con(self, constraint, check)
            finally:
                n1 = len(self)
                if n1 > n0:
                    mon._mention(self, _terms(self[n1 - 1]))

        def grp(self, vg):
            F = vg.parent_formula()
            n0 = F.number_of_variables()
            s = mon.st(F)
            mm = s["maxm"]
            r = o_grp(self, vg)
            mon.groups += 1
            if s["ins"]:
                mon.groups_after_clauses += 1
            if len(vg) > 0:
                first, last = vg[0], vg[-1]
                if first <= mm:
                    mon.problems.append(
                        ("freshness", "group %s got ids %d..%d but variable "
                         "%d was already mentioned by an inserted clause" %
                         (type(vg).__name__, first, last, mm)))
                if first != n0 + 1 or last - first + 1 != len(vg):
                    mon.problems.append(
                        ("contiguity", "group %s got ids %d..%d (len %d) "
                         "with %d variables declared before" %
                         (type(vg).__name__, first, last, len(vg), n0)))
                if F.number_of_variables() != last:
                    mon.problems.append(
                        ("count-after-allocation", "declared %d after "
                         "allocating up to %d" %
                         (F.number_of_variables(), last)))
            return r

        self._saved = (o_cnf_add, o_opb_add, o_opb_con, o_grp)
        BaseCNF.add_clause = cnf_add
        BaseOPB.add_clause = opb_add
        BaseOPB.add_constraint = opb_con
        VariablesManager._add_variable_group = grp

    def uninstall(self):
        (BaseCNF.add_clause, BaseOPB.add_clause, BaseOPB.add_constraint,
         VariablesManager._add_variable_group) = self._saved


# ---------------------------------------------------------------------------
# scanning a formula

def scan(F):
    """(declared, max mentioned, problem-or-None) of a returned formula."""
    n = F.number_of_variables()
    if type(n) is not int or n < 0:
        return n, 0, "declared number of variables is %r" % (n,)
    mx = 0
    if isinstance(F, BaseOPB):
        for con in F:
            if len(con) < 2 or con[-2] not in (">=", "=="):
                return n, mx, "ill-formed constraint %r" % (con,)
            if type(con[-1]) is not int:
                return n, mx, "non-integer degree in %r" % (con,)
            for t in con[:-2]:
                if not (isinstance(t, tuple) and len(t) == 2):
                    return n, mx, "ill-formed term %r" % (t,)
                c, l = t
                if type(l) is not int or l == 0 or type(c) is not int:
                    return n, mx, "bad term %r" % (t,)
                if c < 0:
                    return n, mx, "negative coefficient after " \
                        "normalisation %r" % (t,)
                if abs(l) > mx:
                    mx = abs(l)
                if abs(l) > n:
                    return n, mx, "literal %d outside 1..%d" % (l, n)
    else:
        for cl in F:
            for l in cl:
                if type(l) is not int or l == 0:
                    return n, mx, "literal %r is not a non-zero int" % (l,)
                a = abs(l)
                if a > mx:
                    mx = a
                if a > n:
                    return n, mx, "literal %d outside 1..%d" % (l, n)
    return n, mx, None


# ---------------------------------------------------------------------------
# generation

FAMILY_NAMES = sorted(registry.FAMILIES)
TRANS_NAMES = sorted(registry.TRANSFORMS)


def generate(rng, config):
    if config == "cli":
        tool = rng.choice(["cnfgen", "cnfgen", "pbgen"])
        c = cligrammar.command_line(rng, tool, seed=rng.randrange(1000),
                                    options=False)
        return {"cli": tool, "argv": c["argv"],
                "prng_seed": rng.randrange(2 ** 32)}
    if config == "family":
        name = rng.choice(FAMILY_NAMES)
        scale = rng.choice([1, 1, 2, 2, 3])
        if os.environ.get("VERIF_TIER") == "thorough" and \
                rng.random() < 0.15 and name not in ("cpls", "pitfall",
                                                     "stone", "sparsestone",
                                                     "kclique", "subgraph",
                                                     "cliquecoloring",
                                                     "domset", "ramlb",
                                                     "iso", "auto", "op",
                                                     "gop", "count", "ram"):
            scale = 4
        gen, _, _, opb_ok = registry.FAMILIES[name]
        klass = "OPB" if (opb_ok and rng.random() < 0.35) else "CNF"
        chain = []
        if klass == "CNF" and rng.random() < 0.6:
            chain = [rng.choice(TRANS_NAMES)
                     for _ in range(rng.choice([1, 1, 2, 3]))]
        return {"family": name, "params": gen(rng, scale), "class": klass,
                "scale": scale, "chain": chain,
                "chain_seed": rng.randrange(2 ** 32),
                "prng_seed": rng.randrange(2 ** 32)}
    klass = "CNF" if config == "api_cnf" else "OPB"
    nops = rng.choice([1, 2, 3, 5, 8, 12, 20, 30])
    ops = []
    for _ in range(nops):
        ops.append(_gen_api_op(rng, klass))
    case = {"class": klass, "ops": ops}
    if klass == "CNF" and rng.random() < 0.08:
        # the history starts from a formula read from a DIMACS text, which
        # may mention a variable that it does not declare: refused, or at
        # least never a formula that mentions what it does not own
        n = rng.randint(0, 5)
        cls = [[rng.choice([1, -1]) * rng.randint(1, max(n, 1))
                for _ in range(rng.randint(0, 3))] for _ in range(
                    rng.randint(0, 4))]
        if n == 0:
            cls = [[] for _ in cls]
        if cls and rng.random() < 0.6:
            c = rng.choice(cls)
            c.insert(rng.randint(0, len(c)),
                     rng.choice([1, -1, -1]) * (n + rng.randint(1, 3)))
        case["from_text"] = "p cnf %d %d\n" % (n, len(cls)) + "".join(
            " ".join(map(str, c + [0])) + "\n" for c in cls)
    return case


def _lits_spec(rng):
    """How to draw a literal list relative to the count at execution time."""
    return {"kind": rng.choice(["in", "in", "beyond", "beyond", "zero",
                                "junk", "empty", "opposite"]),
            "len": rng.choice([1, 2, 3, 4, 5]),
            "seed": rng.randrange(2 ** 30),
            # the literals come in a list, or in any other sequence
            "form": rng.choice(["list", "list", "tuple", "range", "bool"])}


def _gen_api_op(rng, klass):
    r = rng.random()
    if rng.random() < 0.04:
        return {"op": "copy", "how": rng.choice(["deepcopy", "deepcopy",
                                                 "pickle"])}
    if r < 0.22:
        return {"op": "add_clause", "lits": _lits_spec(rng),
                "check": rng.random() < 0.6}
    if r < 0.28:
        return {"op": "add_clauses_from",
                "lits": [_lits_spec(rng) for _ in range(rng.randint(1, 3))],
                "check": rng.random() < 0.7}
    if r < 0.42:
        return {"op": "cardinality",
                "kind": rng.choice(["eq", "leq", "geq", "neq"]),
                "lits": _lits_spec(rng), "value": rng.randint(-1, 5),
                "check": rng.random() < 0.6}
    if r < 0.50:
        return {"op": "majority",
                "kind": rng.choice(["add_loose_majority",
                                    "add_loose_minority",
                                    "add_strict_majority",
                                    "add_strict_minority"]),
                "lits": _lits_spec(rng), "check": rng.random() < 0.6}
    if r < 0.56:
        return {"op": "parity", "lits": _lits_spec(rng),
                "const": rng.randint(0, 1), "check": rng.random() < 0.6}
    if r < 0.64:
        if klass == "CNF":
            return {"op": "linear", "lits": _lits_spec(rng),
                    "rel": rng.choice(["<=", ">=", "<", ">", "==", "!=",
                                       "=<"]),
                    "const": rng.randint(-1, 5), "check": rng.random() < 0.6}
        return {"op": "constraint", "lits": _lits_spec(rng),
                "coefs": [rng.choice([1, 2, 3, -1, -2])
                          for _ in range(5)],
                "rel": rng.choice(["<=", ">=", "<", ">", "=="]),
                "const": rng.randint(-2, 6), "check": rng.random() < 0.6}
    if r < 0.70:
        return {"op": "raise", "delta": rng.choice([-3, -1, 0, 1, 2, 5])}
    if r < 0.78:
        return {"op": "new_variable"}
    if r < 0.86:
        return {"op": "new_block",
                "ranges": [rng.choice([0, 1, 2, 3, -1])
                           for _ in range(rng.choice([1, 2, 3]))]}
    if r < 0.94:
        return {"op": "mapping", "n": rng.choice([0, 1, 2, 3]),
                "m": rng.choice([0, 1, 2, 3, 4]),
                "binary": rng.random() < 0.35,
                "force": rng.sample(["complete", "functional", "injective",
                                     "surjective", "nondecreasing"],
                                    rng.randint(0, 3))}
    return {"op": "combinations", "n": rng.choice([0, 2, 3, 4]),
            "k": rng.choice([0, 1, 2, 3]),
            "kind": rng.choice(["new_combinations", "new_permutations",
                                "new_words"])}


def _as_arg(lits, spec, check=True):
    """The literals in the container form asked for by the case."""
    form = spec.get("form", "list") if isinstance(spec, dict) else "list"
    if form == "bool" and check:
        # python's True is the integer 1: a literal like any other (in
        # checked insertions; unchecked ones are stored as they come)
        return [True if type(l) is int and l == 1 else l for l in lits]
    if form == "tuple":
        return tuple(lits)
    if form == "range" and lits and all(type(l) is int for l in lits):
        lo = min(lits)
        if sorted(lits) == list(range(lo, lo + len(lits))) and (
                lo > 0 or lo + len(lits) <= 0):
            return range(lo, lo + len(lits))
    return list(lits)


def _draw_lits(spec, count):
    """Concrete literal list and its classification for the current count."""
    r = random.Random(spec["seed"])
    kind = spec["kind"]
    k = spec["len"]
    if kind == "empty":
        return [], "ok"
    if kind in ("in", "opposite"):
        if count == 0:
            return [], "ok"
        lits = [r.randint(1, count) * r.choice([1, -1]) for _ in range(k)]
        if kind == "opposite":
            lits.append(-lits[0])
        return lits, "ok"
    if kind == "beyond":
        lits = [r.randint(1, count + 3) * r.choice([1, -1])
                for _ in range(k)]
        lits[r.randrange(k)] = (count + r.randint(1, 3)) * r.choice([1, -1])
        return lits, "beyond"
    if kind == "zero":
        lits = [r.randint(1, count + 2) * r.choice([1, -1])
                for _ in range(k)]
        lits[r.randrange(k)] = 0
        return lits, "bad"
    lits = [r.randint(1, count + 2) for _ in range(k)]
    lits[r.randrange(k)] = r.choice(["a", None, (1, 2), 1.5, 2.0])
    return lits, "bad"


# ---------------------------------------------------------------------------
# execution

def execute(case, ctx):
    mon = Monitor()
    mon.install()
    try:
        if "cli" in case:
            _exec_cli(case, ctx, mon)
        elif "family" in case:
            _exec_family(case, ctx, mon)
        else:
            _exec_api(case, ctx, mon)
    finally:
        mon.uninstall()


def _exec_cli(case, ctx, mon):
    """Formulas returned by the command line tools (mode='formula')."""
    import cnfgen.clitools.msg as climsg
    tool = case["cli"]
    climsg._prefix = ""
    with installed(SimRandom(case["prng_seed"])):
        r = call(_CLI[tool], list(case["argv"]), mode="formula")
    climsg._prefix = ""
    ctx.log("cli", case["argv"], r[0])
    ctx.shape = tuple(case["argv"])
    where = " ".join(case["argv"])
    if r[0] == "exc":
        if isinstance(r[1], CLIError):
            ctx.note("command-line error")
            return
        raise Violation("C10/cli-failed/%s" % exc_signature(r[1], REPO),
                        "%s\n%r" % (where, r[1]))
    F = r[1]
    _raise_monitor(mon, "cli:" + case["argv"][1 if len(case["argv"]) > 1
                                              else 0])
    n, mx, prob = scan(F)
    if prob:
        raise Violation("C10/literal-range/cli", "%s\n%s" % (where, prob))
    if not F.debug(allow_opposite=True, allow_repetition=True):
        raise Violation("C10/debug-disagrees/cli", where)
    ctx.nontrivial = len(F) > 0
    ctx.probe("cli formula scanned")
    _cli_documented_counts(case, ctx, F, where)


# documented variable count of '-T <name> <args>' applied to N variables
_CLI_T_COUNT = {
    "none": lambda N, a: N, "flip": lambda N, a: N,
    "shuffle": lambda N, a: N, "ite": lambda N, a: 3 * N,
    "or": lambda N, a: N * a[0], "xor": lambda N, a: N * a[0],
    "and": lambda N, a: N * a[0],
    "eq": lambda N, a: N * a[0], "neq": lambda N, a: N * a[0],
    "maj": lambda N, a: N * a[0], "one": lambda N, a: N * a[0],
    "lift": lambda N, a: 2 * a[0] * N,
    "atleast": lambda N, a: N * a[0], "atmost": lambda N, a: N * a[0],
    "exact": lambda N, a: N * a[0], "anybut": lambda N, a: N * a[0],
    "xorcomp": lambda N, a: a[0], "majcomp": lambda N, a: a[0],
}


def _cli_documented_counts(case, ctx, F, where):
    """The tool applies '-T' steps one after the other: every prefix of
    the command line is itself a command line (same --seed, hence the same
    base formula), and each step must turn N variables into the documented
    number."""
    argv = list(case["argv"])
    cuts = [i for i, a in enumerate(argv) if a == "-T"]
    if not cuts or case["cli"] != "cnfgen":
        return
    import cnfgen.clitools.msg as climsg
    counts = []
    for cut in cuts:
        with installed(SimRandom(case["prng_seed"])):
            r = call(_CLI["cnfgen"], argv[:cut], mode="formula")
        climsg._prefix = ""
        if r[0] == "exc":
            ctx.note("a prefix of the command line is refused")
            return
        counts.append(r[1].number_of_variables())
    counts.append(F.number_of_variables())
    for j, cut in enumerate(cuts):
        end = cuts[j + 1] if j + 1 < len(cuts) else len(argv)
        tname, targs = argv[cut + 1], argv[cut + 2:end]
        fn = _CLI_T_COUNT.get(tname)
        nums = [int(a) for a in targs if a.lstrip("-").isdigit()]
        if fn is None or (tname not in ("none", "flip", "shuffle", "ite")
                          and not nums):
            ctx.note("no documented count for -T %s %r" % (tname, targs))
            continue
        if tname in ("xorcomp", "majcomp") and targs and \
                not targs[0].lstrip("-").isdigit():
            # the mapping given as a bipartite graph '<construction> L R ..':
            # one new variable per right vertex
            if targs[0] not in ("complete", "glrd", "glrp", "glrm", "shift",
                                "regular", "empty") or len(nums) < 2:
                ctx.note("no documented count for -T %s %r" % (tname, targs))
                continue
            want = nums[1]
        else:
            want = fn(counts[j], nums)
        if counts[j + 1] != want:
            raise Violation(
                "C10/documented-count/cli-transformation:%s" % tname,
                "%s\n'-T %s %s' turned %d variables into %d, documented %d"
                % (where, tname, " ".join(targs), counts[j], counts[j + 1],
                   want))
        ctx.probe("cli transformation count checked")
        if len(r[1]) == 0:
            ctx.probe("cli transformation of a formula without clauses")


def _raise_monitor(mon, where):
    if mon.problems:
        kind, detail = mon.problems[0]
        raise Violation("C10/%s/%s" % (kind, where), detail)


def _exec_family(case, ctx, mon):
    name = case["family"]
    gen, build, count, _ = registry.FAMILIES[name]
    klass = registry.CLASSES[case["class"]]
    p = case["params"]
    sim = SimRandom(case["prng_seed"])
    with installed(sim):
        r = call(build, p, klass)
    ctx.log("family", name, case["class"], r[0])
    if r[0] == "exc":
        raise Violation("C10/family-failed/%s/%s" %
                        (name, exc_signature(r[1], REPO)),
                        "%r params=%r" % (r[1], p))
    F = r[1]
    _raise_monitor(mon, "family:" + name)
    n, mx, prob = scan(F)
    if prob:
        raise Violation("C10/literal-range/family:%s" % name,
                        "%s; params=%r class=%s" % (prob, p, case["class"]))
    if not F.debug(allow_opposite=True, allow_repetition=True):
        raise Violation("C10/debug-disagrees/family:%s" % name,
                        "debug() is False but the scan found no problem")
    want = count(p)
    if want is not None and n != want:
        raise Violation("C10/documented-count/family:%s" % name,
                        "%d variables declared, documentation promises %d; "
                        "params=%r class=%s" % (n, want, p, case["class"]))
    ctx.probe("family:%s" % name)
    ctx.probe("scale:%d" % case["scale"])
    crng = random.Random(case["chain_seed"])
    applied = 0
    for tname in case["chain"]:
        N = F.number_of_variables()
        width = max([len(c) for c in F] or [0])
        if len(F) > 300 or width > 4 or N > 120:
            ctx.note("chain cut short: formula too large for a substitution")
            break
        tgen, tapply, tcount = registry.TRANSFORMS[tname]
        tp = tgen(crng, N)
        sim2 = SimRandom(case["prng_seed"] + 1 + applied)
        with installed(sim2):
            r = call(tapply, F, tp)
        ctx.log("transform", tname, tp, r[0])
        if r[0] == "exc":
            raise Violation("C10/transformation-failed/%s/%s" %
                            (tname, exc_signature(r[1], REPO)),
                            "%r on %d variables, params=%r" % (r[1], N, tp))
        G = r[1]
        _raise_monitor(mon, "transformation:" + tname)
        n2, mx2, prob = scan(G)
        if prob:
            raise Violation("C10/literal-range/transformation:%s" % tname,
                            "%s; params=%r after family %s" %
                            (prob, tp, name))
        want = tcount(N, tp)
        if n2 != want:
            raise Violation("C10/documented-count/transformation:%s" % tname,
                            "%d variables declared, documentation promises "
                            "%d (input had %d variables, %d mentioned); "
                            "params=%r family=%s %r" %
                            (n2, want, N, mx, tp, name, p))
        # the result owns its variables: the next one allocated on it is
        # fresh there, and the input formula does not grow with it
        if hasattr(G, "new_variable"):
            rv = call(G.new_variable)
            if rv[0] == "exc":
                raise Violation("C10/allocation-on-result-failed/%s/%s" %
                                (tname, exc_signature(rv[1], REPO)),
                                "%r after %s on family %s" % (rv[1], tname,
                                                              name))
            _raise_monitor(mon, "allocation-after:" + tname)
            if rv[1] != n2 + 1 or G.number_of_variables() != n2 + 1 or \
                    F.number_of_variables() != N:
                raise Violation(
                    "C10/allocation-on-result/%s" % tname,
                    "new_variable() on the result of %s gave %r; the result "
                    "declares %d variables (had %d), the input %d (had %d); "
                    "family=%s %r params=%r" %
                    (tname, rv[1], G.number_of_variables(), n2,
                     F.number_of_variables(), N, name, p, tp))
        F = G
        mx = mx2
        applied += 1
        ctx.probe("transformation:%s" % tname)
    ctx.shape = (name, case["class"], p, case["chain"][:applied],
                 case["chain_seed"] if applied else 0)
    ctx.nontrivial = mon.groups_after_clauses > 0 or applied > 0 or \
        (mon.groups > 0 and len(F) > 0)


def _exec_api(case, ctx, mon):
    klass = case["class"]
    F = CNF() if klass == "CNF" else OPB()
    count = 0
    if case.get("from_text") is not None:
        import io
        r0 = call(CNF.from_file, io.StringIO(case["from_text"]))
        ctx.fault("history_starts_from_a_dimacs_text")
        if r0[0] == "ok":
            F = r0[1]
            n0, mx0, prob0 = scan(F)
            if prob0:
                raise Violation("C10/api/literal-range/from_file",
                                "%s; text=%r" % (prob0, case["from_text"]))
            count = F.number_of_variables()
        elif not isinstance(r0[1], ValueError):
            raise Violation("C10/api/from_file/%s" %
                            exc_signature(r0[1], REPO),
                            "%r; text=%r" % (r0[1], case["from_text"]))
    maps = []
    refused = mutated = 0

    def snapshot():
        return (F.number_of_variables(), [list(c) for c in F])

    for i, op in enumerate(case["ops"], start=1):
        kind = op["op"]
        before = snapshot()
        expect = "ok"
        new_count = count

        def lits_of(spec, check):
            lits, cls = _draw_lits(spec, count)
            if not check and cls != "ok":
                # unchecked insertions must stay in range: caller's duty
                lits, cls = _draw_lits(dict(spec, kind="in"), count)
            return lits, cls

        if kind == "copy":
            # the history goes on with a copy of the formula: a copy owns
            # its variables like any other formula
            import copy as _copy
            import pickle as _pickle
            if op["how"] == "pickle":
                r = call(lambda: _pickle.loads(_pickle.dumps(F)))
            else:
                r = call(_copy.deepcopy, F)
            ctx.log(i, kind, op["how"], r[0])
            if r[0] == "exc":
                ctx.note("formula cannot be copied with %s (%s)" %
                         (op["how"], type(r[1]).__name__))
                continue
            old = mon.st(F)
            F = r[1]
            mon.state[id(F)] = {"obj": F, "maxm": old["maxm"],
                                "ins": old["ins"]}
            ctx.fault("formula_replaced_by_its_copy:" + op["how"])
            if snapshot() != before:
                raise Violation("C10/api/copy-differs", "step %d: the %s "
                                "of the formula is another formula" %
                                (i, op["how"]))
            continue
        if kind == "add_clause":
            lits, cls = lits_of(op["lits"], op["check"])
            r = call(F.add_clause, _as_arg(lits, op["lits"], op["check"]),
                     check=op["check"])
            if cls == "bad":
                expect = "refuse"
            elif op["check"] and lits:
                new_count = max(count, max(abs(l) for l in lits))
        elif kind == "add_clauses_from":
            cl = []
            for spec in op["lits"]:
                lits, cls = lits_of(spec, op["check"])
                cl.append((lits, cls))
            r = call(F.add_clauses_from,
                     [_as_arg(l, sp, op["check"])
                      for (l, _), sp in zip(cl, op["lits"])],
                     check=op["check"])
            expect = "ok"
            for lits, cls in cl:
                if cls == "bad":
                    expect = "partial"
                    break
                if op["check"] and lits:
                    new_count = max(new_count, max(abs(l) for l in lits))
        elif kind in ("cardinality", "majority", "parity", "linear",
                      "constraint"):
            lits, cls = lits_of(op["lits"], op["check"])
            if kind in ("parity", "majority") and len(lits) > 5:
                lits = lits[:5]
            if kind == "cardinality":
                fn = getattr(F, "cardinality_" + op["kind"])
                r = call(fn, _as_arg(lits, op["lits"], op["check"]),
                         op["value"],
                         check=op["check"])
            elif kind == "majority":
                r = call(getattr(F, op["kind"]),
                         _as_arg(lits, op["lits"], op["check"]),
                         check=op["check"])
            elif kind == "parity":
                r = call(F.add_parity,
                         _as_arg(lits, op["lits"], op["check"]),
                         op["const"], check=op["check"])
            elif kind == "linear":
                r = call(F.add_linear,
                         _as_arg(lits, op["lits"], op["check"]), op["rel"],
                         op["const"],
                         check=op["check"])
                if op["rel"] == "=<":
                    expect = "refuse"
            else:
                terms = [(c, l) for c, l in zip(op["coefs"], lits)]
                r = call(F.add_constraint, terms + [op["rel"], op["const"]],
                         check=op["check"])
            if cls == "bad":
                expect = "refuse"
            elif expect == "ok" and op["check"] and lits:
                new_count = max(count, max(abs(l) for l in lits))
        elif kind == "raise":
            v = count + op["delta"]
            r = call(F.update_variable_number, v)
            if v < 0:
                expect = "refuse"
            else:
                new_count = max(count, v)
        elif kind == "new_variable":
            r = call(F.new_variable)
            new_count = count + 1
        elif kind == "new_block":
            r = call(F.new_block, *op["ranges"])
            if any(x < 0 for x in op["ranges"]):
                expect = "refuse"
            else:
                sz = 1
                for x in op["ranges"]:
                    sz *= x
                new_count = count + sz
        elif kind == "combinations":
            r = call(getattr(F, op["kind"]), op["n"], op["k"])
            from detsim.refmodels import varsref
            new_count = count + len(varsref.expected_indices(
                {"op": op["kind"], "n": op["n"], "k": op["k"]}))
        elif kind == "mapping":
            if op["binary"]:
                r = call(F.new_binary_mapping, op["n"], op["m"])
                if op["n"] < 1 or op["m"] < 1:
                    expect = "refuse"
                else:
                    from detsim.refmodels.varsref import ceil_log2
                    new_count = count + op["n"] * ceil_log2(op["m"])
            else:
                r = call(F.new_mapping, op["n"], op["m"])
                new_count = count + op["n"] * op["m"]
            if r[0] == "ok" and expect == "ok":
                f = r[1]
                for what in op["force"]:
                    if what == "surjective" and op["binary"]:
                        continue
                    if what == "functional" and op["binary"]:
                        continue
                    r2 = call(getattr(F, "force_%s_mapping" % what), f)
                    if r2[0] == "exc":
                        raise Violation(
                            "C10/api/force_%s_mapping/%s" %
                            (what, exc_signature(r2[1], REPO)),
                            "step %d %r: %r" % (i, op, r2[1]))
                    ctx.probe("force_%s_mapping" % what)
        else:
            raise KeyError(kind)

        ctx.log(i, kind, expect, r[0])
        _raise_monitor(mon, "api:" + kind)
        after = snapshot()
        if expect == "refuse":
            refused += 1
            ctx.fault("refused_operation")
            if r[0] == "ok":
                raise Violation("C10/api/invalid-operation-accepted/%s" %
                                kind, "step %d %r returned %r" %
                                (i, op, r[1]))
            if not isinstance(r[1], (ValueError, TypeError)):
                raise Violation("C10/api/invalid-operation-wrong-error/%s/%s"
                                % (kind, exc_signature(r[1], REPO)),
                                "step %d %r: %r" % (i, op, r[1]))
            if after != before:
                raise Violation(
                    "C10/api/refused-operation-has-side-effect/%s" % kind,
                    "step %d %r raised %r but the formula changed: %d->%d "
                    "variables, %d->%d clauses, last=%r" %
                    (i, op, r[1], before[0], after[0], len(before[1]),
                     len(after[1]), after[1][-1:] ))
            continue
        if expect == "partial":
            refused += 1
            ctx.fault("refused_operation_mid_batch")
            if r[0] == "ok" or not isinstance(r[1], (ValueError, TypeError)):
                raise Violation("C10/api/invalid-operation-accepted/%s" %
                                kind, "step %d %r -> %r" % (i, op, r[1]))
            count = after[0]
            # whatever stayed must be in range
        else:
            if r[0] == "exc":
                raise Violation("C10/api/valid-operation-failed/%s/%s" %
                                (kind, exc_signature(r[1], REPO)),
                                "step %d %r: %r" % (i, op, r[1]))
            if after[0] != new_count:
                raise Violation("C10/api/variable-count/%s" % kind,
                                "step %d %r: %d variables declared, "
                                "expected %d (was %d)" %
                                (i, op, after[0], new_count, count))
            if after != before:
                mutated += 1
            count = new_count
        if after[0] < before[0]:
            raise Violation("C10/api/count-decreased/%s" % kind,
                            "step %d %r: %d -> %d" % (i, op, before[0],
                                                      after[0]))
        n, mx, prob = scan(F)
        if prob:
            raise Violation("C10/api/literal-range/%s" % kind,
                            "step %d %r: %s" % (i, op, prob))
        if not F.debug(allow_opposite=True, allow_repetition=True):
            raise Violation("C10/api/debug-disagrees/%s" % kind,
                            "debug() False after step %d %r" % (i, op))
    ctx.shape = (klass, case["ops"])
    ctx.nontrivial = mon.groups_after_clauses > 0
