"""Run one of the four command line tools in-process as if it were a process.

``run_tool`` gives the tool simulated argv / stdin / stdout / stderr, a
simulated file system (SimFS through the builtins.open router), the
simulated PRNG, and resets the process-global state cnfgen leaks between
calls (DESIGN.md 3.6).  It returns an ``Outcome`` with the exit status, both
streams and the exception that escaped ``main()`` (None for a normal return
or SystemExit).
"""
import gc
import signal
import sys
import warnings

import cnfgen.clitools.msg as climsg
import importlib

# NB: cnfgen.clitools re-exports the cli *functions* under these names, so
# the modules must be imported by their full path.
m_cnfgen = importlib.import_module("cnfgen.clitools.cnfgen")
m_pbgen = importlib.import_module("cnfgen.clitools.pbgen")
m_cnfshuffle = importlib.import_module("cnfgen.clitools.cnfshuffle")
m_k2p = importlib.import_module("cnfgen.clitools.kthlist2pebbling")

from detsim.simio import SimStream, open_router, text_reader
from detsim.simrandom import installed

TOOLS = {"cnfgen": m_cnfgen, "pbgen": m_pbgen, "cnfshuffle": m_cnfshuffle,
         "kthlist2pebbling": m_k2p}


class Outcome:
    __slots__ = ("status", "stdout", "stderr", "exc", "stderr_closed",
                 "clock_reads")

    def __init__(self):
        self.status = 0
        self.stdout = ""
        self.stderr = ""
        self.exc = None
        self.stderr_closed = False
        self.clock_reads = 0

    def key(self):
        return (self.status, self.stdout, type(self.exc).__name__
                if self.exc else None)


def reset_process_state():
    climsg._prefix = ""
    try:
        signal.signal(signal.SIGINT, signal.SIG_DFL)
    except ValueError:
        pass
    warnings.resetwarnings()
    warnings.simplefilter("ignore")


def run_tool(tool, argv, fs, sim=None, stdin=b"", stdin_plan=None,
             stdout_fail=None, clock=None, stdin_closed=False,
             stdout_closed=False, stderr_closed=False, stdio_encoding=None):
    """argv excludes the program name.  stdin: bytes.  clock: a SimClock
    that answers every question about the time and the day."""
    if clock is not None:
        from detsim.simclock import installed_clock
        with installed_clock(clock):
            return run_tool(tool, argv, fs, sim, stdin, stdin_plan,
                            stdout_fail, stdin_closed=stdin_closed,
                            stdout_closed=stdout_closed,
                            stderr_closed=stderr_closed,
                            stdio_encoding=stdio_encoding)
    mod = TOOLS[tool]
    out = Outcome()
    # (the standard streams have the encoding of the locale: strict on the
    # standard output, 'backslashreplace' on the standard error)
    so = SimStream(name="<stdout>", fail_write=stdout_fail,
                   encoding=stdio_encoding)
    se = SimStream(name="<stderr>", encoding=stdio_encoding,
                   errors="backslashreplace")
    # (the interpreter opens the standard input of a POSIX process with
    # newline="\n": a lone CR does not end a line there)
    si = text_reader(stdin, name="<stdin>", plan=stdin_plan, newline="\n")
    saved = (sys.argv, sys.stdin, sys.stdout, sys.stderr)
    reset_process_state()
    sys.argv = [tool] + [str(a) for a in argv]
    # (a process started with its standard input closed, 'cmd <&-', has
    # sys.stdin = None)
    sys.stdin, sys.stdout, sys.stderr = (
        None if stdin_closed else si, None if stdout_closed else so,
        None if stderr_closed else se)
    try:
        with open_router(fs):
            if sim is not None:
                with installed(sim):
                    _call_main(mod, out)
            else:
                _call_main(mod, out)
            # process exit: every file still open is flushed and closed
            fs.process_exit()
    finally:
        sys.argv, sys.stdin, sys.stdout, sys.stderr = saved
        reset_process_state()
    out.stdout = so.text()
    out.stderr = se.text()
    out.stderr_closed = se.closed_by_sut
    return out


def _call_main(mod, out):
    try:
        mod.main()
        out.status = 0
    except SystemExit as e:
        c = e.code
        if c is None:
            out.status = 0
        elif isinstance(c, int):
            out.status = c & 0xFF
        else:
            out.status = 1
    except Exception as e:              # noqa: BLE001
        out.exc = e
        out.status = 1
