"""C11 - variable groups map indices to identifiers bijectively, names aligned.

Histories interleaving group creation (every group kind, valid and refused),
clause insertion that raises the variable count and explicit raises of the
count; after every step the new group and the whole name table are compared
with the reference model (detsim/refmodels/varsref.py).
"""
import copy
import io
import itertools
import pickle

import networkx

from cnfgen import CNF
from cnfgen.formula.basecnf import BaseCNF
from cnfgen.formula.opb import OPB
from cnfgen.formula.variables import VariablesManager
from cnfgen.graphs import (BipartiteGraph, CompleteBipartiteGraph,
                           DirectedGraph, Graph)

from checks import registry
from detsim.core import Violation, call, exc_signature
from detsim.refmodels import varsref
from detsim.runner import REPO

ID = "C11"
LEVEL = "exploration"
RULE = ("one run = one history of <= 25 operations (group creations of all "
        "11 kinds with valid and refused shapes, clause insertions and "
        "explicit raises of the variable count) on a CNF, OPB or "
        "BaseCNF+VariablesManager; after every step the new group (ids, "
        "index enumeration, index<->id in both directions for +/- literals, "
        "wildcard patterns, out-of-domain indices and wildcard patterns "
        "with an out-of-domain coordinate) and the complete name "
        "table are compared with the reference model. Non-trivial: at least "
        "two non-empty groups and at least one anonymous gap or refused "
        "creation; distinct = distinct (class, operation list).")
ASSUMPTIONS = ["group sizes <= ~130 variables; graphs <= 6 vertices",
               "labels without whitespace"]
COMPONENTS = {"real": ["cnfgen.formula.variables (all group classes, "
                       "VariablesManager)", "BaseCNF/BaseOPB count handling",
                       "to_file(export_varnames=True)", "to_latex()"],
              "stub": []}
MANIFEST = {
    "text": "Seeded histories interleaving creation of every variable-group "
            "kind (valid, empty and refused shapes) with clause insertion "
            "and count raises; after every step ids, enumeration order, "
            "index<->identifier maps, wildcard patterns, rejections and the "
            "full name table (all_variable_labels, 'c varname' lines, LaTeX "
            "literal texts) are compared with a naive reference model. "
            "Exploration by sampling.",
    "design_ref": "DESIGN.md 4.5",
    "note": "Small shapes only (<=130 variables per group); the graph behind "
            "a group is not mutated after creation (documented as "
            "unsupported). Trusted: detsim/refmodels/varsref.py.",
    "technique": "deterministic simulation: seeded operation histories with "
                 "refused operations, step-wise model-based oracle, ddmin "
                 "replay",
}
CONFIGS = {
    "quick": [("cnf", 30000), ("opb", 12000), ("base", 12000)],
    "thorough": [("cnf", 5), ("opb", 2), ("base", 2)],
}
CHUNK = 200

LABELS2 = ["e({},{})", "E[{},{}]", "z_{{{},{}}}", "q{}{}", "w", None]
LABELS1 = ["p_{{{}}}", "S({})", "c", None]


def _gen_bip(rng):
    L = rng.choice([0, 1, 2, 3, 4, 4, 10, 11])
    R = rng.choice([0, 1, 2, 3, 4, 4, 10, 12])
    if rng.random() < 0.15:
        return {"L": L, "R": R, "complete": True, "edges": []}
    es = [[u, v] for u in range(1, L + 1) for v in range(1, R + 1)
          if rng.random() < rng.choice([0.0, 0.3, 0.6, 1.0])]
    rng.shuffle(es)
    return {"L": L, "R": R, "edges": es}


def _gen_graph(rng, directed):
    n = rng.choice([0, 1, 2, 3, 4, 5, 6, 6, 10, 11, 12])
    p = rng.choice([0.0, 0.3, 0.6, 1.0])
    es = []
    for u in range(1, n + 1):
        for v in range(1, n + 1):
            if directed:
                if (u != v or rng.random() < 0.2) and rng.random() < p / 1.5:
                    es.append([u, v])
            elif u < v and rng.random() < p:
                es.append([v, u] if rng.random() < 0.5 else [u, v])
    rng.shuffle(es)
    return {"n": n, "edges": es}


def _gen_op(rng, config):
    r = rng.random()
    if rng.random() < 0.04:
        return {"op": "copy", "how": rng.choice(["deepcopy", "deepcopy",
                                                 "pickle"])}
    if r < 0.13:
        return {"op": "new_variable",
                "label": rng.choice(["X", "Y", "x_1", "z^2", "a{b}", None,
                                     "Q"])}
    if r < 0.27:
        k = rng.choice([0, 1, 1, 2, 2, 3, 4])
        ranges = [rng.choice([0, 1, 2, 3, 4, -1]) if rng.random() < 0.85
                  else rng.choice([5, -2, 10, 11]) for _ in range(k)]
        if len([r for r in ranges if r >= 10]) > 1:
            ranges = [min(r, 4) for r in ranges[:-1]] + ranges[-1:]
        label = rng.choice([None, "b(" + ",".join(["{}"] * k) + ")",
                            "m", "t{}{}{}", "u[{}]"])
        return {"op": "new_block", "ranges": ranges, "label": label}
    if r < 0.43:
        kind = rng.choice(["new_combinations", "new_permutations",
                           "new_words", "new_combinations_with_replacement"])
        n = rng.choice([0, 1, 2, 3, 4, 5, -1])
        k = rng.choice([0, 1, 2, 3, -1]) if kind != "new_permutations" \
            else rng.choice([0, 1, 2, 3, None])
        if kind == "new_permutations" and k is None and n > 4:
            n = 4
        return {"op": kind, "n": n, "k": k,
                "label": rng.choice(LABELS1 + ["r{}{}"])}
    if r < 0.52:
        op = {"op": "new_bipartite_edges", "graph": _gen_bip(rng),
              "label": rng.choice(LABELS2 + ["t{}{}{}"])}
        if rng.random() < 0.06:
            op["wrong_type"] = True
        return op
    if r < 0.61:
        op = {"op": "new_graph_edges", "graph": _gen_graph(rng, False),
              "label": rng.choice(LABELS2), "nx": rng.random() < 0.25}
        if rng.random() < 0.06:
            op["wrong_type"] = True
        return op
    if r < 0.70:
        op = {"op": "new_digraph_edges", "graph": _gen_graph(rng, True),
              "label": rng.choice(LABELS2),
              "sortby": rng.choice(["pred", "succ", "succ", "x"])}
        if rng.random() < 0.06:
            op["wrong_type"] = True
        return op
    if r < 0.77:
        return {"op": "new_mapping", "n": rng.choice([0, 1, 2, 3, 4, -1]),
                "m": rng.choice([0, 1, 2, 3, 5, -1]),
                "label": rng.choice(["f({})={}", "g{}_{}", None])}
    if r < 0.83:
        return {"op": "new_sparse_mapping", "graph": _gen_bip(rng),
                "label": rng.choice(["f({})={}", "h({},{})", None])}
    if r < 0.90:
        return {"op": "new_binary_mapping",
                "n": rng.choice([0, 1, 2, 3, 5, -1]),
                "m": rng.choice([0, 1, 2, 3, 4, 5, 7, 8, 9, 16, 17, 32, 33,
                                 64, -1]),
                "label": rng.choice(["v({},{})", "bit_{{{},{}}}", None])}
    if r < 0.96:
        return {"op": "add_clause", "delta": rng.choice([0, 1, 1, 2, 3]),
                "neg": rng.random() < 0.5}
    return {"op": "raise_count", "delta": rng.choice([-2, 0, 1, 2, 4])}


def generate(rng, config):
    nops = rng.choice([1, 2, 3, 4, 6, 8, 12, 18, 25])
    case = {"class": config, "ops": [_gen_op(rng, config)
                                     for _ in range(nops)]}
    if config in ("cnf", "opb") and rng.random() < 0.15:
        # the history starts from a formula read from a DIMACS text whose
        # last declared variables occur in no clause
        n = rng.randint(0, 8)
        used = rng.randint(0, n)
        case["start"] = {"n": n, "clauses": [
            [rng.choice([1, -1]) * rng.randint(1, used)
             for _ in range(rng.randint(1, 3))]
            for _ in range(rng.randint(0, 3))] if used else []}
    return case


# ---------------------------------------------------------------------------

def _placeholders_ok(label, nargs):
    if label is None:
        return True
    try:
        label.format(*([1] * nargs))
        return True
    except (IndexError, KeyError, ValueError):
        return False


def validity(op):
    """'ok' | 'refuse' (ValueError/TypeError expected) for a creation op."""
    kind = op["op"]
    label = op.get("label")
    if op.get("wrong_type"):
        return "refuse"
    if kind == "new_variable":
        return "ok"
    if kind == "new_block":
        rs = op["ranges"]
        if len(rs) == 0 or any(x < 0 for x in rs):
            return "refuse"
        return "ok" if _placeholders_ok(label, len(rs)) else "refuse"
    if kind in ("new_combinations", "new_permutations", "new_words",
                "new_combinations_with_replacement"):
        n, k = op["n"], op["k"]
        if n < 0 or (k is not None and k < 0):
            return "refuse"
        return "ok" if _placeholders_ok(label, 1) else "refuse"
    if kind in ("new_bipartite_edges", "new_sparse_mapping",
                "new_graph_edges"):
        return "ok" if _placeholders_ok(label, 2) else "refuse"
    if kind == "new_digraph_edges":
        if op.get("sortby") not in ("pred", "succ"):
            return "refuse"
        return "ok" if _placeholders_ok(label, 2) else "refuse"
    if kind == "new_mapping":
        if op["n"] < 0 or op["m"] < 0:
            return "refuse"
        return "ok" if _placeholders_ok(label, 2) else "refuse"
    if kind == "new_binary_mapping":
        if op["n"] < 1 or op["m"] < 1:
            return "refuse"
        return "ok" if _placeholders_ok(label, 2) else "refuse"
    raise KeyError(kind)


def _mk_bip(g):
    if g.get("complete"):
        return CompleteBipartiteGraph(g["L"], g["R"])
    B = BipartiteGraph(g["L"], g["R"])
    return registry.with_history(B, g["edges"], g["L"] + g["R"])


def _mk_graph(g, nx=False):
    if nx:
        G = networkx.Graph()
        G.add_nodes_from(range(1, g["n"] + 1))
        G.add_edges_from(tuple(e) for e in g["edges"])
        return G
    G = registry.grown(Graph, g["n"])
    return registry.with_history(G, g["edges"], g["n"])


def _mk_digraph(g):
    D = registry.grown(DirectedGraph, g["n"])
    return registry.with_history(D, g["edges"], g["n"])


def _create(V, op):
    kind = op["op"]
    kw = {}
    if op.get("label") is not None:
        kw["label"] = op["label"]
    if kind == "new_variable":
        return V.new_variable(**kw) if "label" in kw else V.new_variable()
    if kind == "new_block":
        return V.new_block(*op["ranges"], **kw)
    if kind in ("new_combinations", "new_words",
                "new_combinations_with_replacement"):
        return getattr(V, kind)(op["n"], op["k"], **kw)
    if kind == "new_permutations":
        if op["k"] is None:
            return V.new_permutations(op["n"], **kw)
        return V.new_permutations(op["n"], op["k"], **kw)
    if kind == "new_bipartite_edges":
        G = _mk_graph({"n": 2, "edges": [[1, 2]]}) if op.get("wrong_type") \
            else _mk_bip(op["graph"])
        return V.new_bipartite_edges(G, **kw)
    if kind == "new_sparse_mapping":
        return V.new_sparse_mapping(_mk_bip(op["graph"]), **kw)
    if kind == "new_graph_edges":
        G = _mk_digraph({"n": 2, "edges": [[1, 2]]}) if op.get("wrong_type") \
            else _mk_graph(op["graph"], op.get("nx"))
        return V.new_graph_edges(G, **kw)
    if kind == "new_digraph_edges":
        G = _mk_graph({"n": 2, "edges": [[1, 2]]}) if op.get("wrong_type") \
            else _mk_digraph(op["graph"])
        return V.new_digraph_edges(G, sortby=op["sortby"], **kw)
    if kind == "new_mapping":
        return V.new_mapping(op["n"], op["m"], **kw)
    if kind == "new_binary_mapping":
        return V.new_binary_mapping(op["n"], op["m"], **kw)
    raise KeyError(kind)


def _patterns(kind, idxs, arity, op):
    """Wildcard patterns to try: (pattern, must_be_legal)."""
    if arity == 0 or arity > 3:
        return
    if kind in ("new_combinations", "new_permutations", "new_words",
                "new_combinations_with_replacement"):
        return                      # no wildcard support is documented
    vals = [sorted(set(t[i] for t in idxs)) for i in range(arity)]
    pools = [[None] + v[:4] for v in vals]
    for pat in itertools.product(*pools):
        if None in pat:
            yield pat


def _patterns_outside(kind, idxs, arity, op):
    """Patterns with one wildcard-free coordinate far outside the domain."""
    if arity < 2 or arity > 3 or not idxs:
        return
    if kind in ("new_combinations", "new_permutations", "new_words",
                "new_combinations_with_replacement"):
        return
    top = max(max(t) for t in idxs)
    for i in range(arity):
        for val in (0, -1, top + 7):
            if kind == "new_binary_mapping" and i == 1 and val == 0:
                continue
            pat = [None] * arity
            pat[i] = val
            yield tuple(pat)


def execute(case, ctx):
    klass = case["class"]
    if klass == "cnf":
        F = CNF()
        V = F
    elif klass == "opb":
        F = OPB()
        V = F
    else:
        F = BaseCNF()
        V = VariablesManager(F)
    names = []                  # reference name table, names[i-1]; None=gray
    if case.get("start"):
        st = case["start"]
        text = "p cnf %d %d\n" % (st["n"], len(st["clauses"])) + "".join(
            " ".join(map(str, c)) + " 0\n" for c in st["clauses"])
        from cnfgen.utils.parsedimacs import from_dimacs_file
        r = call(from_dimacs_file, CNF if klass == "cnf" else OPB,
                 io.StringIO(text))
        if r[0] == "exc":
            raise Violation("C11/start-from-dimacs/%s" %
                            exc_signature(r[1], REPO), repr(r[1]))
        F = V = r[1]
        names = ["x%d" % i for i in range(1, st["n"] + 1)]
        ctx.probe("history starts from a DIMACS-read formula")
    step = [0, None]
    nonempty = 0
    gaps = refusals = 0

    def bad(clause, detail):
        raise Violation("C11/%s" % clause, "step %d %r: %s" %
                        (step[0], step[1], detail))

    def bad_exc(clause, e):
        raise Violation("C11/%s/%s" % (clause, exc_signature(e, REPO)),
                        "step %d %r: %r" % (step[0], step[1], e))

    def check_table(when):
        n = F.number_of_variables()
        if n != len(names):
            bad("variable-count/" + when, "number_of_variables()=%r, model "
                "%d" % (n, len(names)))
        r = call(lambda: list(V.all_variable_labels()))
        if r[0] == "exc":
            bad_exc("all_variable_labels", r[1])
        got = r[1]
        if len(got) != len(names):
            bad("name-table-length", "%d labels for %d variables: %r" %
                (len(got), len(names), got[:20]))
        for i, (g, w) in enumerate(zip(got, names), start=1):
            if w is not None and g != w:
                bad("name-misaligned", "variable %d is reported as %r, "
                    "expected %r; table=%r" % (i, g, w, got[:30]))

    created = []            # (group, op, idxs, first, n0) of live groups

    def verify(g, op, idxs, first, n0):
        kind = op["op"]
        size = len(idxs)
        gnames = names[n0:n0 + size]
        # ---- ids ---------------------------------------------------------
        ids = call(list, g)
        if ids[0] == "exc":
            bad_exc("group-iteration/%s" % kind, ids[1])
        want_ids = list(range(first, first + size))
        if ids[1] != want_ids or len(g) != size:
            bad("fresh-contiguous-ids/%s" % kind, "ids %r, expected %r" %
                (ids[1][:20], want_ids[:20]))
        # ---- enumeration order --------------------------------------------
        en = call(lambda: [tuple(t) for t in g.indices()])
        if en[0] == "exc":
            bad_exc("indices/%s" % kind, en[1])
        if en[1] != idxs:
            bad("index-enumeration/%s" % kind, "indices() = %r, expected %r"
                % (en[1][:20], idxs[:20]))
        # for a group of arity 0 the empty pattern is also the full index
        allids = call(lambda: _force(g()))
        if allids[0] == "exc":
            bad_exc("call-no-args/%s" % kind, allids[1])
        scalar_call = idxs == [()] and allids[1] == want_ids[0]
        if scalar_call:
            allids = ("ok", want_ids)
        if allids[1] != want_ids:
            bad("index-enumeration/%s" % kind, "g() = %r, expected %r" %
                (allids[1][:20], want_ids[:20]))
        labs = call(lambda: _force(g.label()))
        if labs[0] == "exc":
            bad_exc("label-no-args/%s" % kind, labs[1])
        scalar_label = idxs == [()] and labs[1] == gnames[0]
        if scalar_label:
            labs = ("ok", gnames)
        if idxs == [()] and scalar_call != scalar_label:
            # the empty pattern is either the index of the only variable
            # (as for a single variable) or the pattern that matches every
            # index: identifiers and names must be asked in the same way
            bad("empty-pattern-read-in-two-ways/%s" % kind,
                "g() is %s but g.label() is %s" % (
                    "one identifier" if scalar_call else "an enumeration",
                    "one name" if scalar_label else "an enumeration"))
        if labs[1] != gnames:
            bad("group-labels/%s" % kind, "label() = %r, expected %r" %
                (labs[1][:20], gnames[:20]))
        # ---- index <-> id --------------------------------------------------
        for t, vid in zip(idxs, want_ids):
            a = call(g, *t)
            if a[0] == "exc":
                bad_exc("index-to-id/%s" % kind, a[1])
            if t == () and not isinstance(a[1], int):
                # arity 0: the empty pattern also means "all identifiers"
                forced = _force(a[1])
                if isinstance(forced, list) and len(forced) == 1:
                    a = ("ok", forced[0])
            if a[1] != vid:
                bad("index-to-id/%s" % kind, "g%r = %r, expected %d" %
                    (t, a[1], vid))
            for lit in (vid, -vid):
                b = call(g.to_index, lit)
                if b[0] == "exc":
                    bad_exc("id-to-index/%s" % kind, b[1])
                if tuple(b[1]) != t:
                    bad("id-to-index/%s" % kind, "to_index(%d) = %r, "
                        "expected %r" % (lit, b[1], t))
                if lit not in g:
                    bad("membership/%s" % kind, "%d not in group" % lit)
            lb = call(g.label, *t)
            if lb[0] == "exc":
                bad_exc("label/%s" % kind, lb[1])
            if t == () and not isinstance(lb[1], str):
                # arity 0: the empty pattern also means "all labels"
                forced = _force(lb[1])
                if isinstance(forced, list) and len(forced) == 1:
                    lb = ("ok", forced[0])
            if lb[1] != names[vid - 1]:
                bad("group-labels/%s" % kind, "label%r = %r, expected %r" %
                    (t, lb[1], names[vid - 1]))
        if kind == "new_graph_edges":
            for t, vid in zip(idxs, want_ids):
                a = call(g, t[1], t[0])
                if a[0] == "exc" or a[1] != vid:
                    bad("index-to-id/new_graph_edges-reversed",
                        "g(%d,%d) -> %r, expected %d" % (t[1], t[0], a[1],
                                                         vid))
        # ---- out of the domain ----------------------------------------------
        for lit in (first - 1, -(first - 1), first + size, -(first + size),
                    0):
            if lit != 0 and lit in g:
                bad("membership/%s" % kind, "%d claimed by the group" % lit)
            b = call(g.to_index, lit)
            if b[0] == "ok" or not isinstance(b[1], ValueError):
                bad("foreign-id-accepted/%s" % kind, "to_index(%d) -> %r" %
                    (lit, b[1]))
        arity = len(idxs[0]) if idxs else _arity(op)
        legal = set(idxs)
        for t in _outside(op, idxs, arity):
            if kind == "new_graph_edges" and tuple(sorted(t)) in legal:
                continue
            if tuple(t) in legal:
                continue
            a = call(lambda: _force(g(*t)))
            if a[0] == "ok":
                bad("illegal-index-accepted/%s" % kind, "g%r -> %r" %
                    (tuple(t), a[1]))
            if not isinstance(a[1], ValueError):
                if isinstance(a[1], TypeError):
                    ctx.note("TypeError for an index of wrong arity (%s)" %
                             kind)
                else:
                    bad_exc("illegal-index-wrong-error/%s" % kind, a[1])
        # ---- wildcard patterns ------------------------------------------------
        for pat in _patterns(kind, idxs, arity, op):
            want = [vid for t, vid in zip(idxs, want_ids)
                    if varsref.matches(kind, pat, t)]
            a = call(lambda: list(g(*pat)))
            if a[0] == "exc":
                bad_exc("wildcard/%s" % kind, a[1])
            if a[1] != want:
                bad("wildcard/%s" % kind, "g%r = %r, expected %r" %
                    (pat, a[1], want))
            ctx.probe("wildcard pattern checked")
        # a wildcard pattern whose fixed coordinate is outside the domain
        # matches no variable: it is refused (or enumerates nothing), it
        # never answers with identifiers
        for pat in _patterns_outside(kind, idxs, arity, op):
            a = call(lambda: list(g(*pat)))
            if a[0] == "ok" and a[1]:
                bad("illegal-pattern-accepted/%s" % kind,
                    "g%r -> %r" % (pat, a[1]))
            if a[0] == "exc" and not isinstance(a[1], ValueError):
                bad_exc("illegal-pattern-wrong-error/%s" % kind, a[1])
            b = call(lambda: list(g.label(*pat)))
            if b[0] == "ok" and b[1]:
                bad("illegal-pattern-accepted/%s" % kind,
                    "label%r -> %r" % (pat, b[1]))
            if b[0] == "exc" and not isinstance(b[1], ValueError):
                bad_exc("illegal-pattern-wrong-error/%s" % kind, b[1])
            ctx.probe("out-of-domain wildcard pattern refused")


    for i, op in enumerate(case["ops"], start=1):
        step[0], step[1] = i, op
        kind = op["op"]
        n0 = len(names)
        if kind == "copy":
            # the formula (with its manager and groups) is copied and the
            # history goes on with the copy: a copy of a formula is a formula
            bundle = (F, V, [c[0] for c in created])
            if op["how"] == "pickle":
                r = call(lambda: pickle.loads(pickle.dumps(bundle)))
            else:
                r = call(copy.deepcopy, bundle)
            ctx.log(i, kind, op["how"], r[0])
            if r[0] == "exc":
                ctx.note("formula cannot be copied with %s (%s)" %
                         (op["how"], type(r[1]).__name__))
                continue
            F, V, gs = r[1]
            created = [(g2,) + c[1:] for g2, c in zip(gs, created)]
            ctx.fault("formula_replaced_by_its_copy:" + op["how"])
            check_table("after-copy")
            for c in created:
                verify(*c)
            ctx.probe("groups re-verified on a copy of the formula")
            continue
        if kind == "add_clause":
            v = n0 + op["delta"]
            if v >= 1:
                r = call(F.add_clause, [-v if op["neg"] else v])
                if r[0] == "exc":
                    bad_exc("add_clause", r[1])
                if v > n0:
                    gaps += 1
                    ctx.probe("anonymous gap created by a clause")
                for j in range(n0 + 1, v + 1):
                    names.append("x%d" % j)
            ctx.log(i, kind, v)
            check_table("after-clause")
            continue
        if kind == "raise_count":
            v = n0 + op["delta"]
            r = call(F.update_variable_number, v)
            if v < 0:
                if r[0] == "ok":
                    bad("negative-count-accepted", "%r" % v)
            else:
                if r[0] == "exc":
                    bad_exc("update_variable_number", r[1])
                if v > n0:
                    gaps += 1
                    ctx.probe("anonymous gap created by a count raise")
                for j in range(n0 + 1, v + 1):
                    names.append("x%d" % j)
            ctx.log(i, kind, v)
            check_table("after-raise")
            continue

        verdict = validity(op)
        r = call(_create, V, op)
        ctx.log(i, kind, verdict, r[0])
        if verdict == "refuse":
            refusals += 1
            ctx.fault("refused_creation")
            if r[0] == "ok":
                bad("invalid-creation-accepted/%s" % kind, "returned %r" %
                    (r[1],))
            if not isinstance(r[1], (ValueError, TypeError)):
                bad_exc("invalid-creation-wrong-error/%s" % kind, r[1])
            check_table("after-refusal")
            continue
        if r[0] == "exc":
            bad_exc("creation-failed/%s" % kind, r[1])
        g = r[1]
        idxs = [tuple(t) for t in varsref.expected_indices(op)]
        size = len(idxs)
        first = n0 + 1
        for t in idxs:
            lab = varsref.expected_label(op, t)
            if lab is None:
                # a single variable created without a label has no name of
                # its own: like every unnamed variable it is reported under
                # the standard name
                lab = "x%d" % (len(names) + 1)
            names.append(lab)
        check_table("after-creation")
        if kind == "new_variable":
            if g != first:
                bad("fresh-contiguous-ids/new_variable", "got id %r, "
                    "expected %d" % (g, first))
            nonempty += 1
            continue
        if size:
            nonempty += 1
        else:
            ctx.probe("empty group created")
        created.append((g, op, idxs, first, n0))
        verify(g, op, idxs, first, n0)

    # ---- renderings use the same table ------------------------------------
    if klass == "cnf":
        out = io.StringIO()
        r = call(F.to_file, out, export_varnames=True, export_header=False)
        if r[0] == "exc":
            bad_exc("varnames-output", r[1])
        got = {}
        for line in out.getvalue().split("\n"):
            if line.startswith("c varname "):
                _, _, num, name = line.split(" ", 3)
                got[int(num)] = name
        for i, w in enumerate(names, start=1):
            if w is not None and got.get(i) != w:
                bad("varname-comment-misaligned", "c varname %d %r, expected "
                    "%r" % (i, got.get(i), w))
        if len(got) != len(names):
            bad("varname-comment-count", "%d lines for %d variables" %
                (len(got), len(names)))
    if klass == "opb":
        out = io.StringIO()
        r = call(F.to_file, out, fileformat="opb", export_varnames=True,
                 export_header=False)
        if r[0] == "exc":
            bad_exc("opb-varnames-output", r[1])
        got = {}
        for line in out.getvalue().split("\n"):
            if line.startswith("* varname x"):
                num, _, name = line[len("* varname x"):].partition(" ")
                got[int(num)] = name
        for i, w in enumerate(names, start=1):
            if w is not None and got.get(i) != w:
                bad("opb-varname-comment-misaligned", "* varname x%d %r, "
                    "expected %r" % (i, got.get(i), w))
        if len(got) != len(names):
            bad("opb-varname-comment-count", "%d lines for %d variables" %
                (len(got), len(names)))
    if klass in ("cnf", "base") and 0 < len(names) <= 60 and \
            all(w is not None for w in names):
        G2 = CNF() if klass == "cnf" else None
        # literal texts: one unit clause per variable on a copy of the table
        if klass == "cnf":
            before = len(F)
            for v in range(1, len(names) + 1):
                F.add_clause([v])
            tex = call(F.to_latex)
            if tex[0] == "exc":
                bad_exc("latex", tex[1])
            rows = tex[1].split("\n")[1:-1][before:]
            lnames = [w if not w.startswith("x") or not w[1:].isdigit()
                      else "x_" + w[1:] for w in names]
            for v, (row, w) in enumerate(zip(rows, lnames), start=1):
                if "{" + w + "}" not in row:
                    bad("latex-name-misaligned", "row of variable %d is %r, "
                        "expected name %r" % (v, row, w))
    ctx.shape = (klass, case["ops"])
    ctx.nontrivial = nonempty >= 2 and (gaps + refusals) >= 1


def _force(x):
    if hasattr(x, "__next__") or hasattr(x, "__iter__") and \
            not isinstance(x, (int, str, tuple, list)):
        return list(x)
    return x


def _arity(op):
    kind = op["op"]
    if kind == "new_block":
        return len(op["ranges"])
    if kind in ("new_combinations", "new_permutations", "new_words",
                "new_combinations_with_replacement"):
        k = op["k"]
        return op["n"] if k is None else k
    return 2


def _outside(op, idxs, arity):
    """Indices just outside the domain (0, max+1, wrong arity, non-member)."""
    if arity == 0:
        yield (1,)
        return
    if idxs:
        hi = [max(t[i] for t in idxs) for i in range(arity)]
        lo = [min(t[i] for t in idxs) for i in range(arity)]
        base = list(idxs[0])
    else:
        hi = [1] * arity
        lo = [1] * arity
        base = [1] * arity
    kind = op["op"]
    for i in range(arity):
        for val in (lo[i] - 1, hi[i] + 1, -1):
            if kind == "new_binary_mapping" and i == 1 and val == 0:
                continue
            t = list(base)
            t[i] = val
            yield tuple(t)
    yield tuple(base) + (1,)
    if arity > 1:
        yield tuple(base[:-1])
    # a non-member inside the bounding box
    seen = set(idxs)
    for t in itertools.product(*[range(lo[i], hi[i] + 1)
                                 for i in range(arity)]):
        if t not in seen:
            yield t
            break
