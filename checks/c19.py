"""C19 - transformations leave their inputs untouched and record provenance.

Histories over a *pool* of objects (formulas of both classes, graphs of the
three kinds incl. networkx inputs, lists of literals, charges, patterns).
Every operation may alias its result with its arguments; aliasing shows only
when one of the two parties is changed later, so the histories interleave
transformations / generator calls with later mutations of pool members.
After every operation every pool member other than the declared target must
equal its deep snapshot.
"""
import copy
import random as _random

import networkx

import cnfgen
from cnfgen import CNF
from cnfgen.formula.opb import OPB
from cnfgen.graphs import (BipartiteGraph, DirectedGraph, Graph,
                           bipartite_shift)

from detsim.core import canon, Violation, call, exc_signature
from detsim.refmodels import cnfref
from detsim.runner import REPO
from detsim.simrandom import SimRandom, installed
from checks import registry

ID = "C19"
LEVEL = "exploration"
RULE = ("one run = one history of <= 14 operations over a pool that starts "
        "with 2-3 formulas, 3 graphs (cnfgen objects or networkx Graph / "
        "DiGraph / bipartite graphs with integer or string sides) and 3 "
        "lists: transformations (results "
        "join the pool), Shuffle with explicit lists from the pool, families "
        "called on pool graphs/lists, constraint builders called with pool "
        "lists (all operators incl. '!=', valid and raising), and later "
        "mutations of arbitrary pool members (incl. editing, deleting and "
        "reordering standard header entries); deep snapshots of all members "
        "are compared after every step. Non-trivial: >= 1 transformation "
        "result was mutated later or >= 2 chained transformations; distinct "
        "= distinct case.")
ASSUMPTIONS = ["in-place modifiers documented as such "
               "(add_random_missing_edges, split_random_edges) are not "
               "considered", "formulas <= 8 variables / 10 clauses so that "
               "substitutions stay small"]
COMPONENTS = {"real": ["all exported transformations, Shuffle, "
                       "VariableCompression", "families taking graphs or "
                       "lists", "constraint builders of CNF and OPB",
                       "BaseCNF/BaseOPB clause access (copy on insertion and "
                       "access)"],
              "stub": ["PRNG (SimRandom) for Shuffle and random families"]}
MANIFEST = {
    "text": "Seeded histories over a pool of possibly aliased objects: "
            "transformations, generator calls on pool graphs/lists, "
            "constraint builders on pool lists and later mutations of any "
            "member; after every step deep snapshots of all members other "
            "than the declared target are compared (clauses, count, names, "
            "header items in order; graph views; list contents), and the "
            "result header is checked for exactly one new numbered "
            "'transformation' entry in order, also along chains of 11-16 "
            "transformations. Exploration by sampling.",
    "design_ref": "DESIGN.md 4.11",
    "note": "Aliasing can only be observed through a later change of one of "
            "the parties, which is why histories (not single calls) are "
            "explored; small formulas only.",
    "technique": "deterministic simulation: seeded operation histories over "
                 "a pool of objects with deep-snapshot invariants after "
                 "every step",
}
CONFIGS = {
    "quick": [("pool", 40000), ("chain", 2500)],
    "thorough": [("pool", 6), ("chain", 1)],
}
CHEAP = ["flip", "shuffle", "or", "xor", "maj", "eq", "one", "atleast",
         "exact", "atmost", "xorcomp", "majcomp"]
CHUNK = 150

TRANSFORMS = sorted(registry.TRANSFORMS)
GRAPH_FAMILIES = {
    "simple": ["matching", "tseitin", "kcolor", "tiling", "domset", "kclique",
               "ramlb", "gop", "auto", "iso", "subgraph", "ec"],
    "dag": ["peb", "stone"],
    "bipartite": ["gphp", "subsetcard"],
}


# transformations that differ by one word only
SIBLING = {"eq": "neq", "neq": "eq", "atleast": "atmost",
           "atmost": "atleast", "exact": "anybut", "anybut": "exact",
           "or": "xor", "xor": "or", "xorcomp": "majcomp",
           "majcomp": "xorcomp"}


def _gen_formula(rng):
    n, clauses = cnfref.random_cnf(rng, max_vars=6, max_clauses=7)
    clauses = [c[:3] for c in clauses]
    return {"n": n, "clauses": clauses, "class": rng.choice(["CNF", "CNF",
                                                             "OPB"]),
            "named": rng.random() < 0.4,
            "description": rng.choice([None, "my formula"])}


def _gen_op(rng):
    r = rng.random()
    if r < 0.30:
        return {"op": "transform", "name": rng.choice(TRANSFORMS),
                "src": rng.randrange(8), "seed": rng.randrange(2 ** 30)}
    if r < 0.36:
        return {"op": "shuffle_explicit", "src": rng.randrange(8),
                "seed": rng.randrange(2 ** 30),
                "as_tuple": rng.random() < 0.3,
                # each component explicit, kept ('fixed') or random
                "modes": [rng.choice(["explicit", "explicit", "fixed",
                                      "shuffle"]) for _ in range(3)]
                if rng.random() < 0.6 else ["fixed"] * 3}
    if r < 0.50:
        return {"op": "family", "gtype": rng.choice(["simple", "simple",
                                                     "dag", "bipartite"]),
                "which": rng.randrange(12), "g": rng.randrange(4),
                "g2": rng.randrange(4), "klass": rng.choice(["CNF", "OPB"]),
                "lst": rng.randrange(4), "k": rng.randint(1, 3)}
    if r < 0.56:
        return {"op": "shift", "lst": rng.randrange(4),
                "L": rng.randint(1, 4), "R": rng.randint(3, 5)}
    if r < 0.74:
        return {"op": "constraint",
                "kind": rng.choice(["linear", "linear", "cardinality_eq",
                                    "cardinality_leq", "cardinality_geq",
                                    "cardinality_neq", "parity",
                                    "add_loose_majority",
                                    "add_strict_minority", "add_clause",
                                    "add_clauses_from"]),
                "rel": rng.choice(["<=", ">=", "<", ">", "==", "!=", "!="]),
                "value": rng.randint(-1, 4), "dst": rng.randrange(8),
                "lst": rng.randrange(4), "check": rng.random() < 0.7,
                "as_tuple": rng.random() < 0.15,
                # a one-shot iterator: served like the list, or refused
                "as_iter": rng.random() < 0.1}
    if r < 0.84:
        return {"op": "mutate_formula", "dst": rng.randrange(8),
                "how": rng.choice(["add_clause", "header", "header_new",
                                   "getitem_append", "view_index_append",
                                   "grow", "new_variable", "header_std",
                                   "header_delete", "header_replace"]),
                "key": rng.choice(["description", "generator", "copyright",
                                   "url"])}
    if r < 0.92:
        return {"op": "mutate_list", "lst": rng.randrange(4),
                "how": rng.choice(["append", "negate", "reverse", "pop"])}
    return {"op": "mutate_graph", "gtype": rng.choice(["simple", "dag",
                                                       "bipartite"]),
            "g": rng.randrange(4)}


def _gen_chain(rng):
    """A tiny formula and a chain of 11-16 arity-1 transformations (the
    provenance numbering must keep counting past 9)."""
    n = rng.randint(1, 3)
    clauses = [[rng.choice([1, -1]) * rng.randint(1, n)
                for _ in range(rng.randint(1, 2))]
               for _ in range(rng.randint(1, 3))]
    ops = []
    for _ in range(rng.choice([3, 9, 10, 11, 12, 13, 16])):
        ops.append({"op": "transform", "name": rng.choice(CHEAP),
                    "src": 0, "src_last": True, "arity1": True,
                    "seed": rng.randrange(2 ** 30)})
        if rng.random() < 0.15:
            ops.append({"op": "mutate_formula", "dst": rng.randrange(8),
                        "how": rng.choice(["header_new", "add_clause",
                                           "header_std", "header_delete",
                                           "header_replace"]),
                        "key": rng.choice(["description", "generator",
                                           "copyright", "url"])})
    return {"formulas": [{"n": n, "clauses": clauses, "class": "CNF",
                          "named": rng.random() < 0.3,
                          "description": rng.choice([None, "chain base"])}],
            "graphs": {"simple": [{"n": 1, "edges": []}],
                       "dag": [{"n": 1, "edges": []}],
                       "bipartite": [{"L": 1, "R": 1, "edges": []}]},
            "nx": False, "lists": [[1], [0], [0]], "ops": ops}


def generate(rng, config):
    if config == "chain":
        return _gen_chain(rng)
    return {"formulas": [_gen_formula(rng)
                         for _ in range(rng.choice([2, 3]))],
            "graphs": {"simple": [registry.g_simple(rng, 5, nmin=1),
                                  registry.g_even(rng, 6)],
                       "dag": [registry.g_dag(rng, 5)],
                       "bipartite": [registry.g_bip(rng, 4, 4, lmin=1)]},
            "nx": rng.random() < 0.3,
            "nx_loop": rng.random() < 0.25,
            "nxd": rng.random() < 0.25,
            "nxb": rng.choice([None, None, None, "int", "str"]),
            "lists": [[rng.choice([1, -1]) * rng.randint(1, 5)
                       for _ in range(rng.randint(0, 4))],
                      # charges: "any non-boolean value is interpreted as
                      # boolean", "excessive values will be ignored"
                      [rng.choice([0, 1, 0, 1, 0, 1, 2, True, False])
                       for _ in range(rng.randint(0, 7))],
                      sorted(rng.sample(range(0, 5), rng.randint(0, 3)),
                             reverse=rng.random() < 0.7)],
            "ops": [_gen_op(rng)
                    for _ in range(rng.choice([2, 4, 6, 9, 14]))]}


# ---------------------------------------------------------------------------
# snapshots

def snap_formula(F):
    try:
        labels = list(F.all_variable_labels())
    except Exception as e:          # noqa: BLE001 - a broken name table is
        labels = ["<all_variable_labels raises %s>" % type(e).__name__]
    return (type(F).__name__, F.number_of_variables(),
            [copy.deepcopy(c) for c in F], labels,
            [(k, copy.deepcopy(v)) for k, v in F.header.items()])


def snap_graph(G):
    if isinstance(G, networkx.Graph):
        return ("nx", G.is_directed(),
                copy.deepcopy(sorted(G.nodes(data=True),
                                     key=lambda x: repr(x))),
                copy.deepcopy(sorted(G.edges(data=True),
                                     key=lambda x: repr(x))),
                copy.deepcopy(dict(G.graph)), list(G.nodes()),
                [type(d.get("bipartite")).__name__
                 for _, d in G.nodes(data=True)])
    if G.is_bipartite():
        return ("bip", G.left_order(), G.right_order(),
                [tuple(e) for e in G.edges()], G.name,
                [list(G.right_neighbors(u))
                 for u in range(1, G.left_order() + 1)])
    if G.is_directed():
        return ("dir", G.number_of_vertices(), [tuple(e) for e in G.edges()],
                G.name, G.is_dag(),
                [list(G.predecessors(v))
                 for v in range(1, G.number_of_vertices() + 1)])
    return ("simple", G.number_of_vertices(), [tuple(e) for e in G.edges()],
            G.name, [list(G.neighbors(v))
                     for v in range(1, G.number_of_vertices() + 1)])


class Pool:
    def __init__(self):
        self.items = []      # [kind, obj, snapshot, label]

    def add(self, kind, obj, label):
        self.items.append([kind, obj, self._snap(kind, obj), label])
        return len(self.items) - 1

    @staticmethod
    def _snap(kind, obj):
        if kind == "formula":
            return snap_formula(obj)
        if kind == "graph":
            return snap_graph(obj)
        return (type(obj).__name__, copy.deepcopy(list(obj)))

    def resnap(self, i):
        it = self.items[i]
        it[2] = self._snap(it[0], it[1])

    def of(self, kind):
        return [i for i, it in enumerate(self.items) if it[0] == kind]

    def check(self, except_for, bad, what):
        for i, (kind, obj, snap, label) in enumerate(self.items):
            if i in except_for:
                continue
            now = self._snap(kind, obj)
            if now != snap:
                bad(kind, label, what, snap, now)


def _mk_formula(f):
    cls = CNF if f["class"] == "CNF" else OPB
    F = cls() if f["description"] is None else cls(
        description=f["description"])
    if f["named"] and f["n"]:
        F.new_block(f["n"], label="v_{{{}}}")
    else:
        F.update_variable_number(f["n"])
    for c in f["clauses"]:
        F.add_clause(list(c))
    return F


def execute(case, ctx):
    pool = Pool()
    for i, f in enumerate(case["formulas"]):
        pool.add("formula", _mk_formula(f), "formula#%d" % i)
    gidx = {"simple": [], "dag": [], "bipartite": []}
    for g in case["graphs"]["simple"]:
        gidx["simple"].append(pool.add(
            "graph", registry.mk_simple(g, nx=case["nx"]), "simple graph"))
    for g in case["graphs"]["dag"]:
        gidx["dag"].append(pool.add(
            "graph", registry.mk_dag(g, nx=case.get("nxd", False)), "dag"))
    if case.get("nx_loop") and case["nx"]:
        # a networkx graph with a loop: no simple graph, refused (or served
        # without the loop) - and left alone
        G0 = pool.items[gidx["simple"][0]][1]
        if hasattr(G0, "add_edge") and not hasattr(G0, "number_of_vertices") \
                and G0.number_of_nodes() > 0:
            v0 = sorted(G0.nodes(), key=str)[0]
            G0.add_edge(v0, v0, weight=3)
            pool.resnap(gidx["simple"][0])
            ctx.fault("networkx_graph_with_a_loop")
    for g in case["graphs"]["bipartite"]:
        gidx["bipartite"].append(pool.add(
            "graph", registry.mk_bip(g, nx=case.get("nxb")),
            "bipartite graph"))
    lidx = [pool.add("list", list(l), "list#%d" % i)
            for i, l in enumerate(case["lists"])]
    step = [0, None]
    said = {}               # provenance text -> the step it recorded
    chained = mutated_results = 0
    results = set()
    built_from = {}

    def bad(kind, label, what, before, now):
        raise Violation("C19/%s-changed-by/%s" % (kind, what),
                        "step %d %r: %s was changed.\nbefore: %r\nafter:  %r"
                        % (step[0], step[1], label, _short(before),
                           _short(now)))

    for si, op in enumerate(case["ops"], start=1):
        step[0], step[1] = si, op
        kind = op["op"]
        target = set()
        what = kind
        forms = pool.of("formula")
        if kind == "transform":
            small = [i for i in forms
                     if isinstance(pool.items[i][1], CNF)
                     and len(pool.items[i][1]) <= 40
                     and pool.items[i][1].number_of_variables() <= 30
                     and max([len(c) for c in pool.items[i][1]] or [0]) <= 4]
            if not small:
                ctx.note("transformation skipped (no small CNF in the pool)")
                continue
            src = small[op["src"] % len(small)]
            if op.get("src_last"):
                src = small[-1]
            F = pool.items[src][1]
            tname = op["name"]
            tgen, tapply, tcount = registry.TRANSFORMS[tname]
            tp = tgen(_random.Random(op["seed"]), F.number_of_variables())
            if op.get("arity1"):
                # keep the chain small: arity 1, identity-like compression
                for key in ("k", "N"):
                    if key in tp:
                        tp[key] = 1
                if "B" in tp:
                    nv = F.number_of_variables()
                    tp["B"] = {"L": nv, "R": max(1, nv),
                               "edges": [[u, u] for u in range(1, nv + 1)]}
            what = "transform:" + tname
            if "B" in tp:
                # the compression graph is an argument too: it joins the
                # pool and must come back unchanged
                B = registry.mk_bip(tp["B"], nx=case.get("nxb"))
                pool.add("graph", B, "compression graph@%d" % si)
                fn = "xor" if tname == "xorcomp" else "maj"
                with installed(SimRandom(op["seed"])):
                    r = call(cnfgen.VariableCompression, F, B, fn)
            else:
                with installed(SimRandom(op["seed"])):
                    r = call(tapply, F, tp)
            if r[0] == "exc":
                if isinstance(r[1], ValueError):
                    ctx.note("transformation refused its arguments")
                else:
                    raise Violation("C19/exception/%s/%s" %
                                    (tname, exc_signature(r[1], REPO)),
                                    "step %d %r: %r" % (si, op, r[1]))
            else:
                G = r[1]
                if G is F:
                    raise Violation("C19/result-is-the-input/%s" % tname,
                                    "step %d %r" % (si, op))
                _check_provenance(pool.items[src][2], G, tname, si, op)
                # "the header tells how the formula was produced": two
                # different transformations cannot be recorded by the same
                # words
                nsrc = sum(1 for k in F.header
                           if k.startswith("transformation "))
                text = G.header.get("transformation %d" % (nsrc + 1))
                what_it_was = (tname, canon(tp) if "B" not in tp else "B")
                other = said.setdefault(text, what_it_was)
                if other != what_it_was and other[0] != tname:
                    raise Violation(
                        "C19/provenance/same-words-for-different-steps/%s" %
                        "+".join(sorted([tname, other[0]])),
                        "step %d %r: %r is recorded as %r, the words that "
                        "also record %r" % (si, op, what_it_was, text,
                                            other))
                sib = SIBLING.get(tname)
                if sib:
                    _, sapply, _ = registry.TRANSFORMS[sib]
                    with installed(SimRandom(op["seed"])):
                        rs = call(sapply, F, tp)
                    if rs[0] == "ok" and rs[1].header.get(
                            "transformation %d" % (nsrc + 1)) == text:
                        raise Violation(
                            "C19/provenance/same-words-for-different-steps/"
                            "%s" % "+".join(sorted([tname, sib])),
                            "step %d %r: %s and %s of the same formula are "
                            "both recorded as %r" % (si, op, tname, sib,
                                                     text))
                j = pool.add("formula", G, "result of %s@%d" % (tname, si))
                results.add(j)
                if src in results:
                    chained += 1
                nt = sum(1 for k in G.header if k.startswith(
                    "transformation "))
                if nt >= 10:
                    ctx.probe("chain of >= 10 transformations")
                ctx.probe("transform:" + tname)
        elif kind == "shuffle_explicit":
            src = forms[op["src"] % len(forms)]
            F = pool.items[src][1]
            if not isinstance(F, CNF):
                continue
            rr = _random.Random(op["seed"])
            N, M = F.number_of_variables(), len(F)
            flips = [rr.choice([-1, 1]) for _ in range(N)]
            perm = list(range(1, N + 1))
            rr.shuffle(perm)
            cperm = list(range(M))
            rr.shuffle(cperm)
            if op["as_tuple"]:
                flips, perm, cperm = tuple(flips), tuple(perm), tuple(cperm)
            ia = pool.add("list", flips, "explicit flips")
            ib = pool.add("list", perm, "explicit variable permutation")
            ic = pool.add("list", cperm, "explicit clause permutation")
            what = "Shuffle-explicit"
            modes = op.get("modes") or ["explicit"] * 3
            args = [a if m == "explicit" else m
                    for a, m in zip((flips, perm, cperm), modes)]
            if modes == ["fixed"] * 3:
                ctx.probe("Shuffle with nothing to shuffle")
            with installed(SimRandom(op["seed"])):
                r = call(cnfgen.Shuffle, F, *args)
            if r[0] == "ok" and r[1] is F:
                raise Violation("C19/result-is-the-input/shuffle",
                                "step %d %r" % (si, op))
            if r[0] == "exc":
                raise Violation("C19/exception/shuffle/%s" %
                                exc_signature(r[1], REPO),
                                "step %d %r: %r" % (si, op, r[1]))
            _check_provenance(pool.items[src][2], r[1], "shuffle", si, op)
            j = pool.add("formula", r[1], "result of shuffle@%d" % si)
            results.add(j)
        elif kind == "family":
            gt = op["gtype"]
            gi = gidx[gt][op["g"] % len(gidx[gt])]
            G = pool.items[gi][1]
            fams = GRAPH_FAMILIES[gt]
            fam = fams[op["which"] % len(fams)]
            cls = CNF if op["klass"] == "CNF" else OPB
            lst = pool.items[lidx[1]][1]       # the charge vector
            if op["k"] == 3 and fam == "tseitin":
                lst = None                     # the default: one odd vertex
            what = "family:" + fam
            with installed(SimRandom(7)):
                r = call(_call_family, fam, G, cls, op, pool, gidx, lst)
            if r[0] == "exc":
                if isinstance(r[1], (ValueError, TypeError)):
                    ctx.note("family refused its arguments")
                else:
                    raise Violation("C19/exception/family-%s/%s" %
                                    (fam, exc_signature(r[1], REPO)),
                                    "step %d %r: %r" % (si, op, r[1]))
            else:
                if fam == "tseitin":
                    # the header tells how the formula was produced: the
                    # parity of the charges the clauses were built with
                    # (cast to boolean, one per vertex, the rest ignored)
                    nv = G.number_of_nodes() if hasattr(G, "number_of_nodes") \
                        else G.number_of_vertices()
                    eff = [bool(c) for c in (lst if lst is not None else
                                             [True])][:nv]
                    descr = r[1].header.get("description", "")
                    want = "odd" if sum(eff) % 2 else "even"
                    other = "even" if want == "odd" else "odd"
                    if ("%s charge" % other) in descr and \
                            ("%s charge" % want) not in descr:
                        raise Violation(
                            "C19/header-tells-otherwise/tseitin",
                            "step %d: charges %r on %d vertices are %s, the "
                            "description says %r" % (si, lst, nv, want, descr))
                    ctx.probe("tseitin: parity in the description checked")
                j = pool.add("formula", r[1], "%s@%d" % (fam, si))
                # variable groups keep a reference to their graph (this
                # sharing is documented): the formula follows its graphs
                built_from.setdefault(gi, []).append(j)
                if fam in ("iso", "subgraph"):
                    g2i = gidx["simple"][op["g2"] % len(gidx["simple"])]
                    built_from.setdefault(g2i, []).append(j)
                ctx.probe("family:" + fam)
        elif kind == "shift":
            pat = pool.items[lidx[2]][1]
            what = "bipartite_shift"
            r = call(bipartite_shift, op["L"], op["R"],
                     pat)
            if r[0] == "exc" and not isinstance(r[1], (ValueError,
                                                      TypeError)):
                raise Violation("C19/exception/bipartite_shift/%s" %
                                exc_signature(r[1], REPO),
                                "step %d %r: %r" % (si, op, r[1]))
        elif kind == "constraint":
            di = forms[op["dst"] % len(forms)]
            F = pool.items[di][1]
            li = lidx[op["lst"] % 1]           # the literal list
            lits = pool.items[li][1]
            arg = tuple(lits) if op["as_tuple"] else lits
            one_shot = op.get("as_iter") and not op["as_tuple"]
            if one_shot:
                arg = iter(list(lits))
            target = {di}
            k = op["kind"]
            what = "constraint:%s%s" % (k, op["rel"] if k == "linear"
                                        else "")
            twin = None
            if op["as_tuple"] or one_shot:
                tw = call(copy.deepcopy, F)
                if tw[0] == "ok":
                    twin = (tw[1], None)
            r = call(_constraint_call, F, k, op, arg)
            if r[0] == "exc" and isinstance(r[1], Violation):
                raise r[1]
            if (op["as_tuple"] or one_shot) and twin is not None:
                # the container of the literals must not matter: the same
                # call with a list on a copy of the formula (a one-shot
                # iterator may be refused, it may not be served otherwise)
                Fc, before_c = twin
                rl = call(_constraint_call, Fc, k, op, list(lits))
                if one_shot and r[0] == "exc" and isinstance(
                        r[1], (ValueError, TypeError)) and \
                        snap_formula(F)[:3] == snap_formula(twin[0])[:3] \
                        and rl[0] == "exc":
                    pass
                elif one_shot and r[0] == "exc" and isinstance(
                        r[1], (ValueError, TypeError)):
                    ctx.probe("one-shot iterator of literals refused")
                elif (r[0] == "ok") != (rl[0] == "ok") or (
                        r[0] == "ok" and snap_formula(F)[:3] !=
                        snap_formula(Fc)[:3]):
                    raise Violation(
                        "C19/container-of-the-literals-matters/%s" % k,
                        "step %d %r: with %s %s, with a list %s" %
                        (si, op, "an iterator" if one_shot else "a tuple",
                         _short(r), _short(rl)))
            if r[0] == "exc":
                if isinstance(r[1], (ValueError, TypeError)):
                    ctx.note("constraint builder refused its arguments")
                    ctx.fault("refused_constraint")
                else:
                    raise Violation("C19/exception/%s/%s" %
                                    (k, exc_signature(r[1], REPO)),
                                    "step %d %r: %r" % (si, op, r[1]))
            # the formula was deliberately changed; its unchecked literals
            # may exceed the count: keep the pool formula well formed
            mx = max([abs(l) for l in lits] or [0])
            if mx > F.number_of_variables():
                F.update_variable_number(mx)
            pool.resnap(di)
            ctx.probe("constraint:" + k)
        elif kind == "mutate_formula":
            di = forms[op["dst"] % len(forms)]
            F = pool.items[di][1]
            how = op["how"]
            what = "later-mutation:" + how
            target = {di}
            n = F.number_of_variables()
            if how == "add_clause":
                F.add_clause([n + 1, -1] if n else [1])
            elif how == "header":
                F.header["description"] = "edited at step %d" % si
            elif how == "header_new":
                F.header["note %d" % si] = "x"
            elif how == "header_std":
                # the header is the caller's: a standard entry is edited
                F.header[op.get("key", "generator")] = "by hand %d" % si
            elif how == "header_delete":
                F.header.pop(op.get("key", "url"), None)
            elif how == "header_replace":
                items = list(F.header.items())
                F.header = type(F.header)(reversed(items))
            elif how == "getitem_append":
                if len(F):
                    c = F[0]
                    c.append(99)
                    target = set()      # F[0] must be a copy
            elif how == "view_index_append":
                if len(F) and isinstance(F, CNF):
                    c = F.clauses()[0]
                    c.append(99)
                    target = set()
            elif how == "grow":
                F.update_variable_number(n + 2)
            else:
                F.new_variable("extra%d" % si)
            if di in results and target:
                mutated_results += 1
                ctx.probe("transformation result mutated later")
            if target:
                pool.resnap(di)
        elif kind == "mutate_list":
            li = lidx[op["lst"] % len(lidx)]
            L = pool.items[li][1]
            what = "later-mutation:list-" + op["how"]
            target = {li}
            if op["how"] == "append":
                L.append(3)
            elif op["how"] == "negate":
                for i in range(len(L)):
                    L[i] = -L[i]
            elif op["how"] == "reverse":
                L.reverse()
            elif L:
                L.pop()
            pool.resnap(li)
        elif kind == "mutate_graph":
            gt = op["gtype"]
            gi = gidx[gt][op["g"] % len(gidx[gt])]
            G = pool.items[gi][1]
            what = "later-mutation:graph"
            target = {gi}
            try:
                if isinstance(G, networkx.Graph):
                    if len(G) >= 2:
                        G.add_edge(1, max(G.nodes()))
                    G.remove_edges_from(networkx.selfloop_edges(G))
                elif G.is_bipartite():
                    G.add_edge(1, G.right_order())
                elif G.is_directed():
                    G.add_edge(1, G.number_of_vertices())
                else:
                    if G.number_of_vertices() >= 2:
                        G.add_edge(1, G.number_of_vertices())
            except ValueError:
                pass
            pool.resnap(gi)
            for j in built_from.get(gi, []):
                target.add(j)
                pool.resnap(j)
        ctx.log(si, kind, what, len(pool.items))
        pool.check(target, bad, what)
    ctx.shape = case
    ctx.nontrivial = mutated_results >= 1 or chained >= 1


def _constraint_call(F, k, op, arg):
    if k == "linear" and isinstance(F, CNF):
        return F.add_linear(arg, op["rel"], op["value"], check=op["check"])
    if k == "linear":
        terms = [(1 if i % 3 else -2, l) for i, l in enumerate(arg)]
        rel = op["rel"] if op["rel"] != "!=" else "=="
        # the constraint is the caller's list: it comes back as it went
        cons = terms + [rel, op["value"]]
        before = list(cons)
        try:
            if op["value"] % 2:
                return F.add_constraints_from([cons], check=op["check"])
            return F.add_constraint(cons, check=op["check"])
        finally:
            if cons != before:
                raise Violation(
                    "C19/list-changed-by/constraint:add_constraint",
                    "the constraint %r came back as %r" % (before, cons))
    if k.startswith("cardinality"):
        return getattr(F, k)(arg, op["value"], check=op["check"])
    if k == "parity":
        return F.add_parity(arg, op["value"] % 2, check=op["check"])
    if k in ("add_loose_majority", "add_strict_minority"):
        return getattr(F, k)(arg, check=op["check"])
    if k == "add_clause":
        return F.add_clause(arg, check=op["check"])
    if hasattr(arg, "__next__"):
        # two clauses, each in an iterator of its own
        both = list(arg)
        return F.add_clauses_from([iter(both), iter(both)],
                                  check=op["check"])
    return F.add_clauses_from([arg, arg], check=op["check"])


def _call_family(fam, G, cls, op, pool, gidx, charges):
    k = op["k"]
    if fam == "matching":
        return cnfgen.PerfectMatchingPrinciple(G, formula_class=cls)
    if fam == "tseitin":
        return cnfgen.TseitinFormula(G, charges, formula_class=cls)
    if fam == "kcolor":
        return cnfgen.GraphColoringFormula(G, k, formula_class=cls)
    if fam == "tiling":
        return cnfgen.Tiling(G, formula_class=cls)
    if fam == "domset":
        return cnfgen.DominatingSet(G, k, formula_class=cls)
    if fam == "kclique":
        return cnfgen.CliqueFormula(G, k, formula_class=cls)
    if fam == "ramlb":
        return cnfgen.RamseyWitnessFormula(G, k, 2, formula_class=cls)
    if fam == "gop":
        return cnfgen.GraphOrderingPrinciple(G, formula_class=cls)
    if fam == "auto":
        return cnfgen.GraphAutomorphism(G, formula_class=cls)
    if fam in ("iso", "subgraph"):
        g2 = pool.items[gidx["simple"][op["g2"] % len(gidx["simple"])]][1]
        if fam == "iso":
            return cnfgen.GraphIsomorphism(G, g2, formula_class=cls)
        return cnfgen.SubgraphFormula(G, g2, formula_class=cls)
    if fam == "ec":
        return cnfgen.EvenColoringFormula(G, formula_class=cls)
    if fam == "peb":
        return cnfgen.PebblingFormula(G, formula_class=cls)
    if fam == "stone":
        return cnfgen.StoneFormula(G, min(k, 2), formula_class=cls)
    if fam == "gphp":
        return cnfgen.GraphPigeonholePrinciple(G, formula_class=cls)
    if fam == "subsetcard":
        return cnfgen.SubsetCardinalityFormula(G, formula_class=cls)
    raise KeyError(fam)


def _check_provenance(src_snap, G, tname, si, op):
    src_header = src_snap[4]
    got = list(G.header.items())

    def bad(clause, detail):
        raise Violation("C19/provenance/%s/%s" % (clause, tname),
                        "step %d %r: %s\ninput header: %r\nresult header: %r"
                        % (si, op, detail, src_header, got))

    nsrc = sum(1 for k, _ in src_header if k.startswith("transformation "))
    new = [(k, v) for k, v in got if (k, v) not in src_header]
    new_keys = [k for k, _ in got if k not in dict(src_header)]
    want_key = "transformation %d" % (nsrc + 1)
    if new_keys != [want_key]:
        bad("numbered-entry", "expected exactly one new key %r, got %r" %
            (want_key, new_keys))
    # earlier entries kept, in order
    old_keys = [k for k, _ in src_header]
    kept = [k for k, _ in got if k in dict(src_header)]
    if kept != old_keys:
        bad("earlier-entries", "keys %r, expected %r (in order)" %
            (kept, old_keys))
    for (k, v) in src_header:
        gv = dict(got)[k]
        if k == "description":
            if str(v) not in str(gv):
                bad("description-lost", "%r became %r" % (v, gv))
        elif gv != v:
            bad("earlier-entry-changed", "%r: %r became %r" % (k, v, gv))
    ts = [k for k, _ in got if k.startswith("transformation ")]
    src_ts = [k for k, _ in src_header if k.startswith("transformation ")]
    if ts != src_ts + [want_key]:
        bad("order", "transformation entries %r" % ts)
    if G.header is None or not isinstance(dict(got)[want_key], str):
        bad("entry-type", "%r" % dict(got)[want_key])


def _short(x):
    s = repr(x)
    return s if len(s) < 500 else s[:500] + "..."


SHRINK_SKIP = {"seed"}
