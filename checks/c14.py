"""C14 - graph files round-trip in every supported format; bad files rejected.

One run = one store/load history of a graph over the simulated disk:
writeGraph (by name / stream, explicit format or extension), optional
stored-byte or device faults, readGraph / <Class>.from_file; the in-house
formats are compared with three-valued reference readers, gml/dot with the
exception contract only.
"""
import re
import sys

import cnfgen
from cnfgen.graphs import (BipartiteGraph, DirectedGraph, Graph, readGraph,
                           writeGraph)
from cnfgen.clitools.graph_args import make_graph_from_spec

from checks import registry
from detsim.core import Violation, call, exc_signature
from detsim.refmodels import graphref
from detsim.refmodels.graphref import (RefBipartite, RefDirected, RefSimple)
from detsim.runner import REPO
from detsim.simio import (DAMAGE_KINDS, SimFS, SimStream, damage,
                          open_router, text_reader, text_writer)
from checks import graphviews

ID = "C14"
LEVEL = "fault_enumeration"
RULE = ("one run = one graph (type simple/digraph/dag/bipartite, 0..34 "
        "vertices with sizes 9-11 over-represented, complete-graph objects, isolated vertices, empty "
        "and complete graphs), stored in one supported format (by name or "
        "stream, explicit format or extension), optionally damaged (stored "
        "bytes: 12 kinds incl. blank and comment lines; device: short reads, "
        "EIO), loaded back (readGraph / from_file) and compared; the graph "
        "just read may be converted into 1-2 further formats (write, read, "
        "write, read) and graph names may span several lines; config "
        "'truncate' enumerates truncation at every byte offset for the "
        "in-house formats; config 'text' feeds assembled texts. Non-trivial: "
        "graph has >= 1 edge; distinct = distinct (stored bytes, type, "
        "format, faults).")
ASSUMPTIONS = [
    "in-house formats (kthlist, dimacs, matrix): the reference readers of "
    "detsim/refmodels/graphref.py define what a text denotes; unknown line "
    "types, duplicate edge lines and exotic integer spellings are gray",
    "gml and dot are parsed by third-party code: for damaged gml/dot text "
    "only 'nothing but ValueError escapes' is checked",
]
COMPONENTS = {
    "real": ["cnfgen.graphs readers/writers for kthlist, dimacs, matrix, gml,"
             " dot; readGraph/writeGraph/from_file; normalize_networkx_labels",
             "networkx gml reader/writer, pydot"],
    "stub": ["raw block device (SimRaw)", "file system (SimFS)",
             "stdout capture for pydot diagnostics"],
}
MANIFEST = {
    "text": "Seeded store/load simulation of graph files over a simulated "
            "disk for all four graph types and all supported formats; "
            "stored-byte faults (incl. inserted blank/comment lines), device "
            "faults (short reads, EIO) and per-file enumeration of every "
            "truncation offset; oracle: exact round trip when fault free, "
            "three-valued reference readers for damaged in-house formats, "
            "exception contract for gml/dot; files are also loaded through "
            "the command-line graph argument (incl. cyclic files offered as "
            "dag).",
    "design_ref": "DESIGN.md 4.7",
    "note": "Sampling plus per-file truncation enumeration; third-party "
            "gml/dot parsers are only held to the exception contract.",
    "technique": "deterministic simulation with fault injection (simulated "
                 "block device, stored-byte/device faults, enumerated "
                 "truncation, reference-reader oracle)",
}
CONFIGS = {
    "quick": [("roundtrip", 9000), ("damage", 12000), ("truncate", 600),
              ("text", 8000)],
    "thorough": [("roundtrip", 3), ("damage", 5), ("truncate", 1),
                 ("text", 3)],
}
CHUNK = 100

FORMATS = {"simple": ["kthlist", "gml", "dot", "dimacs"],
           "digraph": ["kthlist", "gml", "dot", "dimacs"],
           "dag": ["kthlist", "gml", "dot", "dimacs"],
           "bipartite": ["kthlist", "gml", "dot", "matrix"]}
NAMES = [None, "my graph", "graph with newline\n", "c 3", "café", "",
         "p edge 1 0", "two\nlines", "x\n2\ne 1 2", "a\rb", "t\n1 : 2 0\n",
         'quo"te', "back\\", '"', "semi;colon {brace}", "<html>", "%d"]


def _gen_graph(rng, gtype):
    size = rng.choice([0, 1, 2, 3, 5, 7, 9, 10, 10, 11, 11, 12, 14, 21, 34])
    p = rng.choice([0.0, 0.15, 0.4, 0.8, 1.0])
    if size > 14:
        p = min(p, 0.15)
    if gtype == "bipartite":
        L = rng.choice([0, 1, 2, 3, 5, 9, 10, 11])
        R = rng.choice([0, 1, 2, 3, 5, 9, 10, 11])
        es = [[u, v] for u in range(1, L + 1) for v in range(1, R + 1)
              if rng.random() < p]
        if rng.random() < 0.1:
            # the class that stores no edges (command line 'complete L R')
            return {"L": min(L, 6), "R": min(R, 6), "edges": [],
                    "complete": True}
        return {"L": L, "R": R, "edges": es}
    n = size
    es = []
    for u in range(1, n + 1):
        for v in range(1, n + 1):
            if gtype == "simple":
                if u < v and rng.random() < p:
                    es.append([u, v])
            elif gtype == "dag":
                if u < v and rng.random() < p:
                    es.append([u, v])
            else:
                if (u != v or rng.random() < 0.1) and rng.random() < p / 2:
                    es.append([u, v])
    rng.shuffle(es)
    if gtype == "simple" and rng.random() < 0.05:
        return {"n": min(n, 9), "edges": [], "complete": True}
    return {"n": n, "edges": es}


PORTS = ["n", "s", "sw", "f0", "f0:sw", "_", "c"]
ATTRS = ["node [color=red]", "edge [style=dashed]", "graph [rankdir=LR]",
         "node [shape=record]", "rankdir=LR"]


def _gen_dot(rng, directed):
    """A dot text from a small grammar whose meaning is known: node and edge
    statements, some of them inside (nested, anonymous, cluster) subgraphs;
    edge endpoints may carry a port ('2:n' is vertex 2) or be a subgraph
    ('1 -> { 2 3 }' is an edge to every vertex mentioned inside);
    default-attribute statements mean nothing.  The graph denoted is the
    union of everything mentioned."""
    ids = rng.sample([1, 2, 3, 4, 5, 7, 10, 11, 12], rng.randint(1, 6))
    fancy = rng.random() < 0.4

    def endpoint(depth):
        r = rng.random()
        if not fancy or r < 0.6:
            return rng.choice(ids)
        if r < 0.8 or depth >= 2:
            return ["port", rng.choice(ids), rng.choice(PORTS),
                    rng.random() < 0.3]
        inner = stmts(depth + 1)
        if rng.random() < 0.3:
            inner.insert(0, ["pnode", rng.choice(ids), rng.choice(PORTS),
                             True])
        return ["subep", rng.choice(["", "", "subgraph", "subgraph e%d" %
                                     depth]), inner]

    def stmts(depth):
        out = []
        for _ in range(rng.randint(0, 4)):
            r = rng.random()
            if r < 0.35:
                if fancy and depth > 0 and rng.random() < 0.3:
                    # a vertex declared with a port ('"2":n' is vertex 2)
                    out.append(["pnode", rng.choice(ids), rng.choice(PORTS),
                                rng.random() < 0.5])
                else:
                    out.append(["node", rng.choice(ids)])
            elif fancy and r < 0.42:
                out.append(["attr", rng.choice(ATTRS)])
            elif fancy and r < 0.47:
                # a comment up to the end of the line (whatever ends it)
                out.append(["comment", rng.choice(["a note", "1 -- 2",
                                                   "2 -> 1;", "}"])])
            elif r < 0.8 or depth >= 2:
                a, b = endpoint(depth), endpoint(depth)
                if a != b:
                    out.append(["edge", a, b])
            else:
                out.append(["sub", rng.choice(["subgraph s%d" % depth,
                                               "subgraph cluster_%d" % depth,
                                               "", "subgraph"]),
                            stmts(depth + 1)])
        return out

    d = {"directed": directed, "stmts": stmts(0),
         "strict": rng.random() < 0.5}
    if fancy:
        d["eol"] = rng.choice(["\n", "\n", "\r\n", "\r"])
    if rng.random() < 0.06:
        # '01' and '1' are two vertices (identifiers are strings)
        d["stmts"].insert(0, ["rawnode", "0%d" % rng.choice(ids)])
    return d


def _dot_text(d):
    arrow = " -> " if d["directed"] else " -- "

    def ep(x, ind):
        if isinstance(x, int):
            return "%d" % x
        if x[0] == "port":
            return ('"%d":%s' if len(x) > 3 and x[3] else "%d:%s") % (
                x[1], x[2])
        return "%s {\n%s\n%s}" % (x[1], "\n".join(render(x[2], ind + "  ")),
                                  ind)

    def render(st, ind):
        lines = []
        for x in st:
            if x[0] == "node":
                lines.append("%s%d;" % (ind, x[1]))
            elif x[0] == "attr":
                lines.append("%s%s;" % (ind, x[1]))
            elif x[0] == "comment":
                lines.append("%s// %s" % (ind, x[1]))
            elif x[0] == "rawnode":
                lines.append("%s%s;" % (ind, x[1]))
            elif x[0] == "pnode":
                lines.append(('%s"%d":%s;' if x[3] else "%s%d:%s;") % (
                    ind, x[1], x[2]))
            elif x[0] == "edge":
                lines.append("%s%s%s%s;" % (ind, ep(x[1], ind), arrow,
                                            ep(x[2], ind)))
            else:
                lines.append("%s%s {" % (ind, x[1]))
                lines += render(x[2], ind + "  ")
                lines.append("%s}" % ind)
        return lines

    head = ("strict " if d["strict"] else "") + (
        "digraph" if d["directed"] else "graph")
    text = "\n".join([head + " G {"] + render(d["stmts"], "  ") + ["}"]) + \
        "\n"
    return text.replace("\n", d.get("eol", "\n"))


def _dot_reference(d, gtype):
    nodes, edges = set(), set()
    unusual = []
    raw = []

    def members(x):
        """The vertices an edge endpoint stands for."""
        if isinstance(x, int):
            return {x}
        if x[0] == "port":
            unusual.append("port")
            return {x[1]}
        unusual.append("subgraph")
        return walk(x[2])

    def walk(st):
        """All the vertices mentioned in the statements (nested ones too)."""
        mine = set()
        for x in st:
            if x[0] == "node":
                mine.add(x[1])
            elif x[0] == "pnode":
                unusual.append("port")
                mine.add(x[1])
            elif x[0] in ("attr", "comment"):
                pass
            elif x[0] == "rawnode":
                raw.append(x[1])
            elif x[0] == "edge":
                A, B = members(x[1]), members(x[2])
                mine.update(A | B)
                edges.update((a, b) for a in A for b in B)
            else:
                unusual.append("subgraph")
                mine.update(walk(x[2]))
        nodes.update(mine)
        return mine

    walk(d["stmts"])
    if any(a == b for a, b in edges):
        return graphref.Gray("a loop")
    rank = {v: i for i, v in enumerate(sorted(nodes), start=1)}
    extra = len(set(raw))
    if extra and gtype == "dag":
        # which of '02', '12' and '2' is the lower vertex?
        return graphref.Gray("the place of '01' in the order")
    if d["directed"]:
        ref = RefDirected(len(nodes) + extra)
        for a, b in edges:
            ref.add(rank[a], rank[b])
        if gtype == "dag" and not ref.is_dag():
            return graphref.Invalid("not topologically ordered")
    else:
        if len(set(frozenset(e) for e in edges)) != len(edges):
            return graphref.Gray("the same edge written in both directions")
        ref = RefSimple(len(nodes) + extra)
        for a, b in edges:
            ref.add(rank[a], rank[b])
    v = graphref.Valid(ref)
    # where '01' goes in the numbering is the reader's business: only the
    # numbers of vertices and edges are compared
    v.loose = bool(extra)
    # "a graph consistent with the text or ValueError": the reader may
    # decline subgraphs and ports, it must not misread them
    v.may_refuse = bool(unusual)
    return v


def _nest_text(nest, fmt):
    """Deeply nested text (a few hundred bytes are enough to exhaust the
    stack of a recursive descent parser)."""
    k = nest["depth"]
    if fmt == "dot":
        return "graph { " + "{ " * k + (" }" * k + " }"
                                        if nest["closed"] else "")
    return "graph [ " + "a [ " * k + (" ]" * k + " ]"
                                      if nest["closed"] else "")


def _gen_gml(rng, gtype):
    """A well-formed gml text whose node lines come in any order and whose
    identifiers have gaps: vertices are numbered 1..n in the order of their
    identifiers (for a bipartite graph: within each side)."""
    ids = rng.sample([1, 2, 3, 4, 5, 7, 10, 11, 12, 20, 100],
                     rng.randint(1, 6))
    side = {v: rng.randint(0, 1) for v in ids}
    pairs = [(a, b) for a in ids for b in ids if a < b]
    if gtype == "bipartite":
        pairs = [(a, b) if side[a] == 0 else (b, a) for a, b in pairs
                 if side[a] != side[b]]
    edges = [e for e in pairs if rng.random() < 0.5]
    if gtype == "digraph":
        edges = [e if rng.random() < 0.6 else (e[1], e[0]) for e in edges]
    if gtype != "bipartite" and gtype != "dag" and rng.random() < 0.3:
        rng.shuffle(edges)
    order = list(ids)
    rng.shuffle(order)
    if rng.random() < 0.3:
        edges = [(b, a) if gtype in ("simple", "bipartite") and
                 rng.random() < 0.5 else (a, b) for a, b in edges]
    return {"ids": order, "side": {str(v): side[v] for v in ids},
            "edges": [list(e) for e in edges]}


def _gml_text(g, gtype):
    lines = ["graph ["]
    if gtype in ("digraph", "dag"):
        lines.append("  directed 1")
    for v in g["ids"]:
        extra = " bipartite %d" % g["side"][str(v)] if gtype == "bipartite" \
            else ""
        lines.append('  node [ id %d label "%d"%s ]' % (v, v, extra))
    for a, b in g["edges"]:
        lines.append("  edge [ source %d target %d ]" % (a, b))
    lines.append("]")
    return "\n".join(lines) + "\n"


def _gml_reference(g, gtype):
    ids = sorted(g["ids"])
    if gtype == "bipartite":
        left = [v for v in ids if g["side"][str(v)] == 0]
        right = [v for v in ids if g["side"][str(v)] == 1]
        lrank = {v: i for i, v in enumerate(left, start=1)}
        rrank = {v: i for i, v in enumerate(right, start=1)}
        ref = RefBipartite(len(left), len(right))
        for a, b in g["edges"]:
            if a in rrank:
                a, b = b, a
            ref.add(lrank[a], rrank[b])
        return graphref.Valid(ref)
    rank = {v: i for i, v in enumerate(ids, start=1)}
    if gtype == "simple":
        ref = RefSimple(len(ids))
    else:
        ref = RefDirected(len(ids))
    for a, b in g["edges"]:
        ref.add(rank[a], rank[b])
    if gtype == "dag" and not ref.is_dag():
        return graphref.Invalid("not topologically ordered")
    return graphref.Valid(ref)


def generate(rng, config):
    gtype = rng.choice(["simple", "digraph", "dag", "bipartite"])
    if config == "text" and rng.random() < 0.08:
        g = _gen_gml(rng, gtype)
        return {"type": gtype, "format": "gml", "gml": g,
                "text": _gml_text(g, gtype), "load": _gen_load(rng, "gml"),
                "faults": []}
    if config == "text" and rng.random() < 0.15:
        gtype = rng.choice(["simple", "digraph", "dag"])
        d = _gen_dot(rng, gtype != "simple")
        return {"type": gtype, "format": "dot", "dot": d,
                "text": _dot_text(d), "load": _gen_load(rng, "dot"),
                "faults": []}
    if config == "text" and rng.random() < 0.02:
        gtype = rng.choice(["simple", "digraph", "dag"])
        fmt = rng.choice(["dot", "gml"])
        if fmt == "dot" and gtype != "simple":
            gtype = "simple"
        return {"type": gtype, "format": fmt,
                # (pydot needs time exponential in the depth until, from
                # about 45 levels on, the stack is exhausted first: 20 levels
                # take an hour; speed is not what this check decides)
                "nest": {"depth": rng.choice([3, 6, 60, 300, 3000]
                                             if fmt == "dot" else
                                             [3, 30, 300, 600, 3000]),
                         "closed": rng.random() < 0.6},
                "load": _gen_load(rng, fmt), "faults": []}
    if config == "text":
        fmt = rng.choice(["kthlist", "kthlist", "dimacs", "matrix"])
        if fmt == "matrix":
            gtype = "bipartite"
        elif fmt == "dimacs" and gtype == "bipartite":
            gtype = "simple"
        case = {"type": gtype, "format": fmt,
                "text": _gen_text(rng, fmt, gtype),
                "load": _gen_load(rng, fmt), "faults": []}
        if rng.random() < 0.3:
            case["hops"] = [rng.choice(FORMATS[gtype])]
        return case
    fmt = rng.choice(FORMATS[gtype])
    if config == "truncate":
        fmt = rng.choice([f for f in FORMATS[gtype]
                          if f in ("kthlist", "dimacs", "matrix")])
    case = {"type": gtype, "format": fmt, "graph": _gen_graph(rng, gtype),
            "name": rng.choice(NAMES),
            "store": {"how": rng.choice(["file", "file", "stream"]),
                      "explicit": rng.random() < 0.5,
                      "write_chunk": rng.choice([None, None, 1, 5])},
            "load": _gen_load(rng, fmt), "faults": []}
    if config == "roundtrip":
        # the locale of the process (what open() without an encoding uses)
        case["locale"] = rng.choice([None, None, None, "ascii", "latin-1",
                                     "cp1252"])
        case["k2p"] = fmt == "kthlist" and gtype in ("dag", "digraph")
    if config == "roundtrip" and rng.random() < 0.35:
        # the graph that was read is written again, possibly in another
        # format, and read again (files are converted between tools)
        case["hops"] = [rng.choice(FORMATS[gtype])
                        for _ in range(rng.choice([1, 1, 2]))]
    if config == "damage":
        case["faults"] = [{"kind": "stored", "seed": rng.randrange(2 ** 30),
                           "which": rng.choice(DAMAGE_KINDS)}
                          for _ in range(rng.choice([1, 1, 1, 2, 3]))]
        if rng.random() < 0.12:
            case["faults"].append({"kind": "eio",
                                   "at": rng.choice([0, 1, 5, 20, 60])})
    elif config == "truncate":
        case["faults"] = [{"kind": "truncate_all"}]
        g = case["graph"]
        # keep files short
        if g.get("complete"):
            g.pop("complete")
        if "n" in g and g["n"] > 7:
            g["n"] = 7
            g["edges"] = [e for e in g["edges"] if max(e) <= 7]
        if "L" in g and (g["L"] > 5 or g["R"] > 5):
            g["L"], g["R"] = min(g["L"], 5), min(g["R"], 5)
            g["edges"] = [e for e in g["edges"]
                          if e[0] <= g["L"] and e[1] <= g["R"]]
    return case


def _gen_load(rng, fmt):
    how = rng.choice(["file", "file", "stream", "from_file",
                      "from_file_stream", "spec", "spec"])
    if fmt in ("kthlist", "dimacs", "matrix") and rng.random() < 0.04:
        how = "bytes_stream"       # open(name, 'rb'), io.BytesIO
    return {"how": how,
            "explicit": rng.random() < 0.5,
            "newline": rng.choice([None, None, "\n", ""]),
            "stream_name": rng.choice(["str", "str", "str", "int", "none"]),
            "chunk": rng.choice([None, None, 1, 2, 3, 7]),
            "as_dag": rng.random() < 0.3}


KTOK = ["3", "4", "0", "1 : 0", "2 : 1 0", "3 : 1 2 0", "1 :", ": 0", "c x",
        "", " ", "2 : 3 0", "1 : 2 3 0", "1 : 3 0", "3 : 2 0", "2 : 2 0",
        "4 : 1 0", "1 : 4 0", "x", "1 : x 0", "-1", "2 : 1", "1 : 0 0",
        "1 : 2 0 3 0", " c y", "1 : 2 : 0", "+3", "3 3", "2 : 1 1 0",
        "1_2", "2 : 1_0 0", "1_2 : 1 0", "\u0663", "2 : \u0661 0",
        "2 :\x1c1 0", "3\x1c", "2 : 1\u20280"]
DTOK = ["p edge 3 2", "p edge 3 1", "p edge 2 0", "e 1 2", "e 2 3", "e 2 1",
        "e 3 1", "e 1 1", "e 1 4", "e 0 1", "c x", "", " ", "p col 3 1",
        "e 1", "e 1 2 3", "x 1 2", "edge 1 2", "e a b", "p edge x 1",
        "p edge 3", "p edge -1 0", "n 1 1", "e 1 2", "e +1 2",
        "e 1_0 2", "p edge 1_2 1", "pq edge 3 1", "exx 1 2", "e \u0661 2",
        "e\x1c1 2", "p edge 3\x1c1", "e 1 2\u2028"]
MTOK = ["2 2", "1 1", "0 0", "2 3", "1 0", "0 1", "1", "0", "1 1 0", "# c",
        "", " ", "2", "x", "1 # c", "-1 2", "0 1 1", "3", "1 0 1 0",
        "0_1 1", "\u0661 0", "1\x1c0", "1_0 1"]


def _valid_lines(rng, fmt, gtype):
    """The lines of a small well-formed file, comments included."""
    if fmt == "matrix":
        L, R = rng.randint(1, 3), rng.randint(1, 3)
        lines = ["%d %d" % (L, R)] + [
            " ".join(rng.choice("01") for _ in range(R)) for _ in range(L)]
    elif fmt == "dimacs":
        n = rng.randint(1, 4)
        es = [(u, v) for u in range(1, n + 1) for v in range(u + 1, n + 1)
              if rng.random() < 0.5]
        lines = ["p edge %d %d" % (n, len(es))] + ["e %d %d" % e for e in es]
    elif gtype == "bipartite":
        L, R = rng.randint(1, 3), rng.randint(1, 3)
        lines = ["%d" % (L + R)] + [
            "%d : %s0" % (u, "".join("%d " % (L + v) for v in range(1, R + 1)
                                     if rng.random() < 0.5))
            for u in range(1, L + 1)]
    else:
        n = rng.randint(1, 4)
        es = [(u, v) for u in range(1, n + 1) for v in range(u + 1, n + 1)
              if rng.random() < 0.5]
        lines = ["%d" % n]
        for v in range(1, n + 1):
            nb = [a for a, b in es if b == v]
            if gtype == "simple":
                nb += [b for a, b in es if a == v]
            lines.append("%d : %s0" % (v, "".join("%d " % x
                                                  for x in sorted(nb))))
    for _ in range(rng.choice([0, 1, 1, 2])):
        lines.insert(rng.randrange(1, len(lines) + 1),
                     rng.choice(["c a note", "c", "c 1 : 2 0"]
                                if fmt != "matrix" else [""]))
    return lines


def _gen_text(rng, fmt, gtype="simple"):
    if rng.random() < 0.3:
        lines = _valid_lines(rng, fmt, gtype)
        r = rng.random()
        eol = "\n" if r < 0.5 else "\r\n" if r < 0.65 else "\r" if r < 0.8 \
            else None
        return "".join(l + (eol or rng.choice(["\n", "\r\n", "\r"]))
                       for l in lines)
    toks = {"kthlist": KTOK, "dimacs": DTOK, "matrix": MTOK}[fmt]
    k = rng.choice([0, 1, 2, 3, 4, 6, 9])
    lines = [rng.choice(toks) for _ in range(k)]
    if fmt == "kthlist" and rng.random() < 0.7:
        lines.insert(rng.randrange(min(2, len(lines)) + 1),
                     rng.choice(["3", "4", "2"]))
    if fmt == "dimacs" and rng.random() < 0.6:
        lines.insert(0, rng.choice(["p edge 3 2", "p edge 3 1",
                                    "p edge 3 0"]))
    end = rng.choice(["\n", "\n", ""])
    r = rng.random()
    if r < 0.8:
        return "\n".join(lines) + end
    # line ends of another convention (dos, old mac), or a mixture
    eol = "\r\n" if r < 0.87 else "\r" if r < 0.94 else None
    return "".join(l + (eol or rng.choice(["\n", "\r\n", "\r"]))
                   for l in lines)


# ---------------------------------------------------------------------------

def _mk(case):
    g = case["graph"]
    t = case["type"]
    name = case.get("name")
    if t == "bipartite" and g.get("complete"):
        from cnfgen.graphs import CompleteBipartiteGraph
        G = CompleteBipartiteGraph(g["L"], g["R"])
        ref = RefBipartite(g["L"], g["R"])
        for u in range(1, g["L"] + 1):
            for v in range(1, g["R"] + 1):
                ref.add(u, v)
        return G, ref
    if t == "simple" and g.get("complete"):
        G = Graph.complete_graph(g["n"])
        ref = RefSimple(g["n"])
        for u in range(1, g["n"] + 1):
            for v in range(u + 1, g["n"] + 1):
                ref.add(u, v)
        return G, ref
    if t == "bipartite":
        G = BipartiteGraph(g["L"], g["R"]) if name is None else \
            BipartiteGraph(g["L"], g["R"], name)
        ref = RefBipartite(g["L"], g["R"])
    elif t == "simple":
        G = registry.grown(Graph, g["n"], name)
        ref = RefSimple(g["n"])
    else:
        G = registry.grown(DirectedGraph, g["n"], name)
        ref = RefDirected(g["n"])
    # the graph object has a history (batches, a refused batch, growth,
    # removal and re-insertion): what is written is its final state
    registry.with_history(G, g["edges"], len(g["edges"]))
    for u, v in g["edges"]:
        ref.add(u, v)
    return G, ref


def _equal(G, ref):
    """None if G equals the reference graph, else a description."""
    try:
        if ref.kind == "bipartite":
            if not G.is_bipartite():
                return "not a bipartite graph object"
            if (G.left_order(), G.right_order()) != (ref.L, ref.R):
                return "sides (%d,%d), expected (%d,%d)" % (
                    G.left_order(), G.right_order(), ref.L, ref.R)
        else:
            if G.is_bipartite() or \
                    G.is_directed() != (ref.kind == "digraph"):
                return "wrong graph class %s" % type(G).__name__
            if G.number_of_vertices() != ref.n:
                return "%d vertices, expected %d" % (G.number_of_vertices(),
                                                     ref.n)
        got = [tuple(e) for e in G.edges()]
        if got != ref.edges():
            return "edges %r, expected %r" % (got[:15], ref.edges()[:15])
    except Exception as e:          # noqa: BLE001
        return "graph object is broken: %r" % (e,)
    return None


def _load(data, case, fs, ctx, gtype, plan_extra=None):
    ld = case["load"]
    fmt = case["format"]
    plan = {}
    if ld["chunk"]:
        plan["chunk"] = ld["chunk"]
    if plan_extra:
        plan.update(plan_extra)
    name = "in." + fmt if not ld["explicit"] else \
        "in." + ("dat" if fmt != "dat" else "x")
    # (the name of an open file is a number for os.fdopen, pipes and
    # tempfile.TemporaryFile, None for a SpooledTemporaryFile)
    sname = {"int": 3, "none": None}.get(ld.get("stream_name"), name)
    ffmt = fmt if ld["explicit"] else "autodetect"
    klass = {"simple": Graph, "digraph": DirectedGraph, "dag": DirectedGraph,
             "bipartite": BipartiteGraph}[gtype]
    out = SimStream(name="<stdout>")
    saved = sys.stdout
    sys.stdout = out          # pydot prints parse diagnostics on stdout
    try:
        how = ld["how"]
        if how in ("from_file", "from_file_stream") and gtype == "dag":
            how = "file" if how == "from_file" else "stream"
        if how == "spec":
            # the graph argument '<file>' / '<format> <file>' of the tools
            if gtype == "digraph":
                how = "file"
            else:
                fs.put(name, data, plan=plan)
                spec = [fmt, name] if ld["explicit"] else [name]
                r = call(make_graph_from_spec, gtype, spec)
                if r[0] == "exc" and isinstance(r[1], FileNotFoundError):
                    raise RuntimeError("harness: file not found %r" % name)
                return r
        if how == "file":
            fs.put(name, data, plan=plan)
            return call(readGraph, name, gtype, ffmt)
        # (which characters end a line is a property of the stream:
        # universal newlines for open(), LF alone for the standard input
        # of a POSIX process and for io.StringIO)
        newline = ld.get("newline")
        if how in ("stream", "from_file_stream") and newline is not None:
            ctx.fault("stream_without_universal_newlines")
        if how == "bytes_stream" and "eio_at" in plan:
            how = "stream"         # (a BytesIO has no device that can fail)
        if how == "bytes_stream":
            import io
            ctx.fault("binary_stream")
            return call(readGraph, io.BytesIO(data), gtype, fmt)
        if how == "stream":
            st = text_reader(data, name=sname, plan=plan, on_fire=ctx.fault,
                             newline=newline)
            return call(readGraph, st, gtype, ffmt)
        if how == "from_file":
            fs.put(name, data, plan=plan)
            return call(klass.from_file, name,
                        fmt if ld["explicit"] else None)
        st = text_reader(data, name=sname, plan=plan, on_fire=ctx.fault,
                         newline=newline)
        return call(klass.from_file, st, fmt if ld["explicit"] else None)
    finally:
        sys.stdout = saved
        if out.text():
            ctx.note("third-party diagnostics printed on stdout")


def _hops(G, ref, case, fs, ctx, gtype, where):
    """The graph just read is written in another format and read again:
    every conversion must preserve it (write/read/write/read history)."""
    for i, fmt2 in enumerate(case.get("hops") or []):
        name = "hop%d.%s" % (i, fmt2)
        out = SimStream(name="<stdout>")
        saved = sys.stdout
        sys.stdout = out
        try:
            fs.put(name, b"")
            r = call(writeGraph, G, name, gtype, "autodetect")
            data = fs.data(name)
            if r[0] == "exc":
                raise Violation("C14/writer-failed-after-read/%s/%s" %
                                (fmt2, exc_signature(r[1], REPO)),
                                "%s hop %d\n%r" % (where, i, r[1]))
            r = call(readGraph, name, gtype, "autodetect")
        finally:
            sys.stdout = saved
        ctx.fault("converted_to:" + fmt2)
        if r[0] == "exc":
            raise Violation("C14/roundtrip-load-failed/%s/%s/%s" %
                            (fmt2, gtype, exc_signature(r[1], REPO)),
                            "%s\nafter conversion %d to %s: %r\nstored=%r" %
                            (where, i, fmt2, r[1], data[:500]))
        diff = _equal(r[1], ref)
        if diff:
            raise Violation("C14/roundtrip-differs/%s/%s" % (fmt2, gtype),
                            "%s\nafter conversion %d to %s: %s\nstored=%r" %
                            (where, i, fmt2, diff, data[:600]))
        G = r[1]
        ctx.probe("graph converted between formats after reading")


def _k2p(data, case, fs, ctx, ref, where):
    """The stored kthlist file goes through the tool that exists to read
    such files, 'kthlist2pebbling -i <file>': same graph, hence the pebbling
    formula of the reference graph."""
    from checks import clirun
    from detsim.refmodels import cnfref
    fs.put("k2p.kthlist", data)
    tofile = case["load"]["explicit"]
    argv = ["-i", "k2p.kthlist"] + (["-o", "k2p.cnf"] if tofile else ["-q"])
    out = clirun.run_tool("kthlist2pebbling", argv, fs)
    if tofile and out.exc is None and out.status == 0:
        # (with the header, which carries the name of the graph)
        out.stdout = fs.data("k2p.cnf").decode("utf-8", "replace")
    ctx.fault("read_by:kthlist2pebbling")
    ctx.log("k2p", out.status)
    if out.exc is not None or out.status != 0:
        raise Violation("C14/roundtrip-load-failed/kthlist2pebbling/%s" % (
            exc_signature(out.exc, REPO) if out.exc is not None
            else "status-%d" % out.status),
            "%s\nlocale=%r\nstderr=%r\nstored=%r" % (
                where, case.get("locale"), out.stderr[:300], data[:400]))
    got = cnfref.read_dimacs(out.stdout)
    if not isinstance(got, cnfref.Valid):
        raise Violation("C14/roundtrip-differs/kthlist2pebbling/output",
                        "%s\n%r" % (where, out.stdout[:400]))
    want = [(v,) for v in range(1, ref.n + 1) if not ref.pred(v)]
    want += [tuple([-u for u in sorted(ref.pred(v))] + [v])
             for v in range(1, ref.n + 1) if ref.pred(v)]
    want += [(-v,) for v in range(1, ref.n + 1) if not ref.succ(v)]
    norm = lambda cls: sorted(tuple(sorted(c)) for c in cls)   # noqa: E731
    if got.n != ref.n or norm(got.clauses) != norm(want):
        raise Violation("C14/roundtrip-differs/kthlist2pebbling",
                        "%s\npebbling formula of another graph: %d vars %r" %
                        (where, got.n, got.clauses[:12]))
    ctx.probe("kthlist file read by kthlist2pebbling")


def _reference(data, fmt, gtype, case=None):
    if fmt == "dot" and case is not None and "dot" in case:
        return _dot_reference(case["dot"], gtype)
    if fmt == "gml" and case is not None and "gml" in case:
        return _gml_reference(case["gml"], gtype)
    if case is not None and "nest" in case:
        if not case["nest"]["closed"]:
            return graphref.Invalid("truncated")
        v = graphref.Valid(RefSimple(0) if gtype == "simple"
                           else RefDirected(0))
        v.may_refuse = True
        return v
    try:
        text = data.decode("utf-8")
    except UnicodeDecodeError:
        return graphref.Invalid("not UTF-8")
    if fmt == "kthlist":
        return graphref.read_kthlist(text, gtype)
    if fmt == "dimacs":
        return graphref.read_dimacs_edge(text, gtype)
    if fmt == "matrix":
        return graphref.read_matrix(text)
    return None


_LONE_CR = re.compile(rb"\r(?!\n)")


def _nameless(ld):
    return ld["how"] in ("stream", "from_file_stream") and \
        not ld["explicit"] and ld.get("stream_name") in ("int", "none")


def _judge(data, res, ctx, fmt, gtype, where, eio=False, case=None):
    def bad(clause, detail):
        raise Violation("C14/%s/%s/%s" % (clause, fmt, gtype),
                        "%s\n%s\nstored=%r" % (where, detail, data[:500]))

    if res[0] == "exc" and not isinstance(res[1], ValueError):
        if eio and isinstance(res[1], OSError):
            ctx.probe("EIO propagated as OSError")
            return
        raise Violation("C14/reader-fails-otherwise/%s/%s" %
                        (fmt, exc_signature(res[1], REPO)),
                        "%s\n%r\nstored=%r" % (where, res[1], data[:500]))
    if eio:
        if res[0] == "ok":
            bad("graph-despite-device-error", "a graph came back although "
                "the device raised EIO")
        return
    ref = _reference(data, fmt, gtype, case)
    if ref is None:
        # gml / dot: exception contract only (+ sanity of a returned graph)
        if res[0] == "ok":
            G = res[1]
            r = call(lambda: [tuple(e) for e in G.edges()])
            if r[0] == "exc":
                bad("returned-graph-broken", repr(r[1]))
            ctx.probe("third-party format: graph returned")
        else:
            ctx.probe("third-party format: ValueError")
        return
    if isinstance(ref, graphref.Gray):
        ctx.note("gray: " + ref.why)
        return
    if isinstance(ref, graphref.Invalid):
        ctx.probe("reference: invalid (%s)" % ref.why)
        if res[0] == "ok":
            G = res[1]
            bad("invalid-text-accepted/" + ref.why, "reference reader says "
                "invalid (%s) but a graph with %d vertices, edges %r came "
                "back" % (ref.why, G.number_of_vertices(),
                          list(G.edges())[:12]))
        return
    ctx.probe("reference: valid")
    if res[0] == "exc" and getattr(ref, "may_refuse", False):
        # dot with subgraphs: "a graph consistent with the text or
        # ValueError" - the reader may decline what it does not support
        ctx.probe("dot text with subgraphs declined")
        return
    if res[0] == "exc" and case is not None and \
            case["load"]["how"] == "bytes_stream":
        # binary streams are admitted, not promised: a ValueError is fine
        ctx.probe("binary stream declined")
        return
    if res[0] == "exc" and case is not None and _nameless(case["load"]):
        # no file name to guess the format from: a ValueError says so
        ctx.probe("format cannot be guessed from a stream without a name")
        return
    if res[0] == "exc" and _LONE_CR.search(data):
        # a line ended by CR alone (old Mac): a reader may decline it, it
        # must not read it in two ways
        ctx.probe("text with a lone CR declined")
        return
    if res[0] == "exc":
        bad("valid-text-rejected", "reference reader accepts %r but %r was "
            "raised" % (ref.graph.state(), res[1]))
    if getattr(ref, "loose", False):
        G = res[1]
        got = (G.number_of_vertices(), len(list(G.edges())))
        want = (ref.graph.n, len(ref.graph.edges()))
        if got != want:
            bad("text-misread", "%d vertices and %d edges, the text has %d "
                "and %d ('01' and '1' are two vertices)" % (got + want))
        ctx.probe("dot: identifiers that differ only by a leading zero")
        return
    diff = _equal(res[1], ref.graph)
    if diff:
        bad("text-misread", diff)


def execute(case, ctx):
    fs = SimFS(on_fire=ctx.fault)
    if case.get("locale"):
        fs.locale_encoding = case["locale"]
    gtype = case["type"]
    fmt = case["format"]
    ld = case["load"]
    with open_router(fs):
        if "nest" in case:
            case = dict(case, text=_nest_text(case["nest"], fmt))
            ctx.fault("deep_nesting")
        # (the text is always derived from the structure it stands for: a
        # minimised case cannot pair a text with another structure)
        if "dot" in case:
            case = dict(case, text=_dot_text(case["dot"]))
        if "gml" in case:
            case = dict(case, text=_gml_text(case["gml"], gtype))
        if "text" in case:
            data = case["text"].encode("utf-8")
            res = _load(data, case, fs, ctx, gtype)
            ctx.log("text", fmt, gtype, len(data), res[0])
            ctx.shape = (case["text"], fmt, gtype)
            ctx.nontrivial = len(data) > 6
            _judge(data, res, ctx, fmt, gtype, "assembled text load=%r" %
                   (ld,), case=case)
            if "dot" in case and res[0] == "ok":
                if '":' in case["text"]:
                    ctx.probe("dot: quoted endpoint with a port read")
                elif ":" in case["text"]:
                    ctx.probe("dot: endpoint with a port read")
            rr = _reference(data, fmt, gtype, case)
            if isinstance(rr, graphref.Valid) and res[0] == "ok":
                _hops(res[1], rr.graph, case, fs, ctx, gtype,
                      "assembled text %r load=%r" % (case["text"], ld))
            return
        G, ref = _mk(case)
        st = case["store"]
        wtype = gtype
        name = "out." + fmt if not st["explicit"] else "out.bin"
        wfmt = fmt if st["explicit"] else "autodetect"
        plan = {"write_chunk": st["write_chunk"]} if st["write_chunk"] else {}
        out = SimStream(name="<stdout>")
        saved = sys.stdout
        sys.stdout = out
        try:
            if st["how"] == "file":
                fs.put(name, b"", plan=plan)
                r = call(writeGraph, G, name, wtype, wfmt)
                data = fs.data(name)
            else:
                w, raw = text_writer(name=name, plan=plan, on_fire=ctx.fault)
                r = call(writeGraph, G, w, wtype, wfmt)
                if r[0] == "ok":
                    w.flush()
                data = bytes(raw.buf)
        finally:
            sys.stdout = saved
        where = "type=%s format=%s graph=%r name=%r store=%r load=%r" % (
            gtype, fmt, ref.state(), case.get("name"), st, ld)
        ctx.log("store", gtype, fmt, st["how"], r[0], len(data))
        if r[0] == "exc":
            raise Violation("C14/writer-failed/%s/%s" %
                            (fmt, exc_signature(r[1], REPO)),
                            "%s\n%r" % (where, r[1]))
        ctx.shape = (data, gtype, fmt, case["faults"], ld["how"])
        ctx.nontrivial = len(ref.E) > 0
        # a digraph file may be loaded as 'dag' (accepted iff topological)
        ltype = gtype
        if gtype == "digraph" and ld["as_dag"]:
            ltype = "dag"
        faults = case["faults"]
        if not faults:
            res = _load(data, case, fs, ctx, ltype)
            ctx.log("load", ltype, ld["how"], ld["chunk"], res[0])
            if ltype == "dag" and not ref.is_dag():
                ctx.probe("cyclic file offered as dag")
                if res[0] == "ok":
                    raise Violation("C14/cyclic-file-accepted-as-dag/%s" %
                                    fmt, "%s" % where)
                if not isinstance(res[1], ValueError):
                    raise Violation("C14/reader-fails-otherwise/%s/%s" %
                                    (fmt, exc_signature(res[1], REPO)),
                                    "%s\n%r" % (where, res[1]))
                return
            if res[0] == "exc" and ld["how"] == "bytes_stream" and \
                    isinstance(res[1], ValueError):
                ctx.probe("binary stream declined")
                return
            if res[0] == "exc" and _nameless(ld) and \
                    isinstance(res[1], ValueError):
                ctx.probe("format cannot be guessed from a stream without "
                          "a name")
                return
            if res[0] == "exc":
                raise Violation("C14/roundtrip-load-failed/%s/%s/%s" %
                                (fmt, gtype, exc_signature(res[1], REPO)),
                                "%s\n%r\nstored=%r" % (where, res[1],
                                                       data[:500]))
            diff = _equal(res[1], ref)
            if diff:
                raise Violation("C14/roundtrip-differs/%s/%s" % (fmt, gtype),
                                "%s\n%s\nstored=%r" % (where, diff,
                                                       data[:600]))
            if ltype == "dag" and not res[1].is_dag():
                raise Violation("C14/roundtrip-differs/%s/dag-flag" % fmt,
                                where)
            if ref.kind != "bipartite" and ref.n >= 10 or \
                    ref.kind == "bipartite" and ref.L + ref.R >= 10:
                ctx.probe("round trip with >= 10 vertices")
            if ltype == gtype or gtype != "digraph":
                _hops(res[1], ref, case, fs, ctx, ltype, where)
            if case.get("k2p") and fmt == "kthlist" and \
                    ref.kind == "digraph" and ref.is_dag():
                _k2p(data, case, fs, ctx, ref, where)
            # the in-house writers must also satisfy the reference reader
            rr = _reference(data, fmt, gtype)
            if rr is not None and not isinstance(rr, graphref.Valid):
                if isinstance(rr, graphref.Gray):
                    ctx.note("writer output is gray for the reference: " +
                             rr.why)
                else:
                    raise Violation("C14/writer-output-invalid/%s/%s" %
                                    (fmt, gtype), "%s\nreference: %s\n"
                                    "stored=%r" % (where, rr.why,
                                                   data[:500]))
            return
        if faults[0]["kind"] == "truncate_all":
            if len(data) > 300:
                ctx.note("file too long for truncation enumeration")
                return
            for k in range(len(data) + 1):
                ctx.fault("truncate")
                res = _load(data[:k], case, fs, ctx, ltype)
                _judge(data[:k], res, ctx, fmt, ltype,
                       "%s truncated at %d/%d" % (where, k, len(data)),
                       case=case)
            ctx.log("truncate_all", len(data))
            return
        import random as _r
        eio = None
        applied = []
        for f in faults:
            if f["kind"] == "stored":
                data, what = damage(data, _r.Random(f["seed"]),
                                    kinds=(f["which"],))
                if what[0] != "none":
                    ctx.fault("stored:" + what[0])
                applied.append(what)
            else:
                eio = f["at"]
        extra = {"eio_at": eio} if eio is not None and eio < len(data) \
            else None
        res = _load(data, case, fs, ctx, ltype, plan_extra=extra)
        ctx.log("load-damaged", applied, eio, ld["how"], res[0])
        _judge(data, res, ctx, fmt, ltype, "%s faults=%r eio=%r" %
               (where, applied, eio), eio=extra is not None, case=case)


SHRINK_SKIP = {"seed"}
