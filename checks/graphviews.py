"""Comparison of every view of a cnfgen graph object with a reference model.

``compare(G, ref, bad)`` calls ``bad(view_name, detail)`` on the first
disagreement; exceptions raised by a view are reported through
``bad_exc(view_name, exc)``.
"""
import networkx

from detsim.core import call


def _probe_vertices(n):
    if n > 12:
        # large graphs: boundary vertices and a spread of inner ones
        inner = sorted(set([1, 2, 9, 10, 11, n - 1, n] +
                           list(range(3, n, max(1, n // 6)))))
        return [0, -1] + [v for v in inner if 1 <= v <= n] + [n + 1]
    return [0, -1] + list(range(1, n + 1)) + [n + 1]


def _force_list(x):
    try:
        return list(x)
    except TypeError:
        return x


def snapshot(G):
    """Deep, comparable snapshot of a cnfgen graph object (all storage)."""
    if G.is_bipartite():
        return ("bipartite", G.left_order(), G.right_order(),
                list(G.edges()), G.name)
    return ("digraph" if G.is_directed() else "simple",
            G.number_of_vertices(), list(G.edges()), G.name)


def compare_simple(G, ref, bad, bad_exc, deep=True):
    n = ref.n
    E = ref.edges()

    def get(view, fn, *a):
        r = call(fn, *a)
        if r[0] == "exc":
            bad_exc(view, r[1])
        return r[1]

    if get("number_of_vertices", G.number_of_vertices) != n:
        bad("number_of_vertices", "%r != %d" % (G.number_of_vertices(), n))
    if get("order", G.order) != n or get("len", len, G) != n:
        bad("order", "order/len disagree with %d" % n)
    if list(get("vertices", G.vertices)) != list(range(1, n + 1)):
        bad("vertices", "%r" % (list(G.vertices()),))
    if get("number_of_edges", G.number_of_edges) != len(E):
        bad("number_of_edges", "%r != %d" % (G.number_of_edges(), len(E)))
    el = get("edges", G.edges)
    if get("len(edges)", len, el) != len(E):
        bad("len(edges)", "%r != %d" % (len(el), len(E)))
    listing = [tuple(e) for e in get("edges-listing", list, el)]
    if listing != E:
        bad("edges-listing", "listing %r, inserted %r" % (listing, E))
    if G.is_directed() or G.is_dag() or G.is_bipartite():
        bad("type-predicates", "simple graph claims to be directed/dag/bip")
    for u in _probe_vertices(n):
        for v in _probe_vertices(n):
            want = ref.has(u, v)
            if bool(get("has_edge", G.has_edge, u, v)) != want:
                bad("has_edge", "has_edge(%d,%d) != %r" % (u, v, want))
            if bool(get("edges-membership", el.__contains__, (u, v))) != want:
                bad("edges-membership", "(%d,%d) in edges() != %r" %
                    (u, v, want))
    for u in _probe_vertices(n):
        r = call(lambda: list(G.neighbors(u)))
        d = call(G.degree, u)
        if 1 <= u <= n:
            if r[0] == "exc":
                bad_exc("neighbors", r[1])
            if d[0] == "exc":
                bad_exc("degree", d[1])
            if r[1] != ref.neighbors(u):
                bad("neighbors", "neighbors(%d)=%r, expected %r" %
                    (u, r[1], ref.neighbors(u)))
            if d[1] != len(ref.neighbors(u)):
                bad("degree", "degree(%d)=%r, expected %d" %
                    (u, d[1], len(ref.neighbors(u))))
        else:
            if r[0] == "ok" or not isinstance(r[1], ValueError):
                bad("neighbors-out-of-range", "neighbors(%d) -> %r" %
                    (u, r[1]))
            if d[0] == "ok" or not isinstance(d[1], ValueError):
                bad("degree-out-of-range", "degree(%d) -> %r" % (u, d[1]))
    if deep:
        N = get("to_networkx", G.to_networkx)
        if sorted(N.nodes()) != list(range(1, n + 1)) or \
                sorted((min(a, b), max(a, b)) for a, b in N.edges()) != E \
                or N.is_directed() or N.is_multigraph():
            bad("to_networkx", "nodes %r edges %r" %
                (sorted(N.nodes()), sorted(N.edges())))
        B = get("from_networkx", type(G).from_networkx, N)
        if B.number_of_vertices() != n or [tuple(e) for e in B.edges()] != E:
            bad("from_networkx", "round trip gives %d vertices, edges %r" %
                (B.number_of_vertices(), list(B.edges())))


def compare_directed(G, ref, bad, bad_exc, deep=True):
    n = ref.n
    E = ref.edges()

    def get(view, fn, *a):
        r = call(fn, *a)
        if r[0] == "exc":
            bad_exc(view, r[1])
        return r[1]

    if get("number_of_vertices", G.number_of_vertices) != n or \
            get("order", G.order) != n or get("len", len, G) != n:
        bad("number_of_vertices", "%r != %d" % (G.number_of_vertices(), n))
    if list(get("vertices", G.vertices)) != list(range(1, n + 1)):
        bad("vertices", "%r" % (list(G.vertices()),))
    if get("number_of_edges", G.number_of_edges) != len(E):
        bad("number_of_edges", "%r != %d" % (G.number_of_edges(), len(E)))
    el = get("edges", G.edges)
    if get("len(edges)", len, el) != len(E):
        bad("len(edges)", "%r != %d" % (len(el), len(E)))
    listing = [tuple(e) for e in get("edges-listing", list, el)]
    if listing != E:
        bad("edges-listing", "listing %r, inserted %r" % (listing, E))
    el2 = get("edges_ordered_by_successors", G.edges_ordered_by_successors)
    listing2 = [tuple(e) for e in get("edges-listing-by-dest", list, el2)]
    if listing2 != ref.edges_by_dest():
        bad("edges-listing-by-dest", "listing %r, expected %r" %
            (listing2, ref.edges_by_dest()))
    if not G.is_directed() or G.is_bipartite():
        bad("type-predicates", "directed graph denies being directed")
    if bool(get("is_dag", G.is_dag)) != ref.is_dag():
        bad("is_dag", "is_dag()=%r but edges %r" % (G.is_dag(), E))
    for u in _probe_vertices(n):
        for v in _probe_vertices(n):
            want = ref.has(u, v)
            if bool(get("has_edge", G.has_edge, u, v)) != want:
                bad("has_edge", "has_edge(%d,%d) != %r" % (u, v, want))
            if bool(get("edges-membership", el.__contains__, (u, v))) != want:
                bad("edges-membership", "(%d,%d) in edges() != %r" %
                    (u, v, want))
    for u in _probe_vertices(n):
        views = [("predecessors", lambda: list(G.predecessors(u)),
                  ref.pred(u)),
                 ("successors", lambda: list(G.successors(u)), ref.succ(u)),
                 ("in_degree", lambda: G.in_degree(u), len(ref.pred(u))),
                 ("out_degree", lambda: G.out_degree(u), len(ref.succ(u)))]
        for name, fn, want in views:
            r = call(fn)
            if 1 <= u <= n:
                if r[0] == "exc":
                    bad_exc(name, r[1])
                if r[1] != want:
                    bad(name, "%s(%d)=%r, expected %r" % (name, u, r[1],
                                                         want))
            elif r[0] == "ok" or not isinstance(r[1], ValueError):
                bad(name + "-out-of-range", "%s(%d) -> %r" % (name, u, r[1]))
    if deep:
        N = get("to_networkx", G.to_networkx)
        if sorted(N.nodes()) != list(range(1, n + 1)) or \
                sorted(N.edges()) != E or not N.is_directed() or \
                N.is_multigraph():
            bad("to_networkx", "nodes %r edges %r" %
                (sorted(N.nodes()), sorted(N.edges())))
        B = get("from_networkx", type(G).from_networkx, N)
        if B.number_of_vertices() != n or \
                [tuple(e) for e in B.edges()] != E or \
                bool(B.is_dag()) != ref.is_dag():
            bad("from_networkx", "round trip gives %d vertices, edges %r" %
                (B.number_of_vertices(), list(B.edges())))


def compare_bipartite(G, ref, bad, bad_exc, deep=True):
    L, R = ref.L, ref.R
    E = ref.edges()

    def get(view, fn, *a):
        r = call(fn, *a)
        if r[0] == "exc":
            bad_exc(view, r[1])
        return r[1]

    if get("left_order", G.left_order) != L or \
            get("right_order", G.right_order) != R:
        bad("left/right_order", "(%r,%r) != (%d,%d)" %
            (G.left_order(), G.right_order(), L, R))
    if get("number_of_vertices", G.number_of_vertices) != L + R or \
            get("order", G.order) != L + R or get("len", len, G) != L + R:
        bad("number_of_vertices", "%r != %d" % (G.number_of_vertices(),
                                                L + R))
    parts = get("parts", G.parts)
    if [list(p) for p in parts] != [list(range(1, L + 1)),
                                   list(range(1, R + 1))]:
        bad("parts", "%r" % (parts,))
    if get("number_of_edges", G.number_of_edges) != len(E):
        bad("number_of_edges", "%r != %d" % (G.number_of_edges(), len(E)))
    el = get("edges", G.edges)
    if get("len(edges)", len, el) != len(E):
        bad("len(edges)", "%r != %d" % (len(el), len(E)))
    listing = [tuple(e) for e in get("edges-listing", list, el)]
    if listing != E:
        bad("edges-listing", "listing %r, inserted %r" % (listing, E))
    if not G.is_bipartite():
        bad("type-predicates", "bipartite graph denies being bipartite")
    for u in _probe_vertices(L):
        for v in _probe_vertices(R):
            want = ref.has(u, v)
            if bool(get("has_edge", G.has_edge, u, v)) != want:
                bad("has_edge", "has_edge(%d,%d) != %r" % (u, v, want))
            if bool(get("edges-membership", el.__contains__, (u, v))) != want:
                bad("edges-membership", "(%d,%d) in edges() != %r" %
                    (u, v, want))
    for u in range(1, L + 1):
        rn = list(get("right_neighbors", G.right_neighbors, u))
        if rn != ref.right_neighbors(u):
            bad("right_neighbors", "right_neighbors(%d)=%r expected %r" %
                (u, rn, ref.right_neighbors(u)))
        if get("right_degree", G.right_degree, u) != len(rn):
            bad("right_degree", "right_degree(%d)" % u)
    for v in range(1, R + 1):
        ln = list(get("left_neighbors", G.left_neighbors, v))
        if ln != ref.left_neighbors(v):
            bad("left_neighbors", "left_neighbors(%d)=%r expected %r" %
                (v, ln, ref.left_neighbors(v)))
        if get("left_degree", G.left_degree, v) != len(ln):
            bad("left_degree", "left_degree(%d)" % v)
    # vertices that are not in the graph have no neighbours to report
    for name, fn, top in (("right_neighbors", G.right_neighbors, L),
                          ("left_neighbors", G.left_neighbors, R),
                          ("right_degree", G.right_degree, L),
                          ("left_degree", G.left_degree, R)):
        for x in (0, -1, top + 1, top + 50):
            r = call(lambda: _force_list(fn(x)))
            if r[0] == "ok" or not isinstance(r[1], ValueError):
                bad(name + "-out-of-range", "%s(%d) -> %r" % (name, x, r[1]))
    if deep:
        N = get("to_networkx", G.to_networkx)
        want_nodes = list(range(1, L + R + 1))
        got_e = sorted((min(a, b), max(a, b) - L) for a, b in N.edges())
        sides = [N.nodes[x].get("bipartite") for x in sorted(N.nodes())]
        if sorted(N.nodes()) != want_nodes or got_e != E or \
                sides != [0] * L + [1] * R:
            bad("to_networkx", "nodes %r edges %r sides %r" %
                (sorted(N.nodes()), sorted(N.edges()), sides))
        from cnfgen.graphs import BipartiteGraph
        B = get("from_networkx", BipartiteGraph.from_networkx, N)
        if (B.left_order(), B.right_order()) != (L, R) or \
                [tuple(e) for e in B.edges()] != E:
            bad("from_networkx", "round trip gives (%d,%d), edges %r" %
                (B.left_order(), B.right_order(), list(B.edges())))


def compare(G, ref, bad, bad_exc, deep=True):
    if ref.kind == "simple":
        compare_simple(G, ref, bad, bad_exc, deep)
    elif ref.kind == "digraph":
        compare_directed(G, ref, bad, bad_exc, deep)
    else:
        compare_bipartite(G, ref, bad, bad_exc, deep)
