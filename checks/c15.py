"""C15 - graph constructions on the command line deliver what they name.

Graph specifications from a grammar (every construction, arguments inside,
at and just outside the legal range, every modifier combination, 'save')
are built by the real code on the simulated PRNG (fair or bounded
adversary).  The state *before* each modifier is obtained by replaying the
specification prefix under the same PRNG seed.
"""
import itertools
import json
import os
import sys

import networkx

import cnfgen
from cnfgen.clitools.graph_args import make_graph_from_spec
from cnfgen.clitools.cmdline import CLIError
from cnfgen.clitools.cnfgen import cli as cnfgen_cli
import cnfgen.clitools.msg as climsg
from cnfgen.graphs import readGraph

from detsim.core import Violation, call, canon, exc_signature
from detsim.refmodels import graphref
from detsim.runner import REPO
from detsim.simio import SimFS, open_router, text_reader
from detsim.simrandom import SimRandom, adversary_from, installed

ID = "C15"
LEVEL = "exploration"
RULE = ("one run = one graph specification (construction + arguments around "
        "the legal boundaries + any combination of modifiers + optional "
        "save) built through make_graph_from_spec (config lib) or through "
        "'cnfgen kcolor|php|peb <spec> save <file>' (config cli) on a fair "
        "or adversarial PRNG; the result is compared with the promised "
        "structure and, for modifiers, with the graph obtained by replaying "
        "the prefix of the specification under the same seed; a saved file "
        "may be continued by two further commands on the same simulated "
        "disk ('<file> [addedges k] save <file2>', then '<file2>'); 3% of "
        "the lib runs build lazily stored bipartite constructions with a "
        "right side of 2^53+1 .. 3^35 vertices; 8% of the 'regular' "
        "requests are dense with 12-24 vertices per side; config "
        "'optimized': the request is served by two fresh interpreters, one "
        "of them under 'python -O', and the outcomes are compared. "
        "Non-trivial: "
        "the request was valid and used a random construction or a modifier;"
        " distinct = distinct (type, spec, PRNG seed, adversary).")
ASSUMPTIONS = ["sizes <= ~12 vertices (isomorphism and clique search are "
               "brute force / networkx)",
               "non-integer spellings of integer arguments (1e1, 2.0) and "
               "degenerate torus dimensions (<= 2) are a gray zone"]
COMPONENTS = {"real": ["cnfgen.clitools.graph_args / graph_build",
                       "samplers in cnfgen.graphs", "networkx generators "
                       "(gnp, gnm, random_regular, grid) through "
                       "random._inst", "writeGraph for 'save'",
                       "cnfgen cli() for the cli config"],
              "stub": ["PRNG: SimRandom (fair / bounded adversary)",
                       "file system (SimFS) for 'save'"]}
MANIFEST = {
    "text": "Deterministic simulation of every command-line graph "
            "construction and modifier on a PRNG seam (fair streams and a "
            "bounded adversary that forces retry loops, recursive restarts "
            "and dense fallbacks), with arguments at and beyond their legal "
            "boundaries; oracle: independent structural checks per "
            "construction, prefix replay for modifiers, reference reader "
            "for the saved file, and ValueError for unmeetable requests. "
            "Exploration by sampling.",
    "design_ref": "DESIGN.md 4.8",
    "note": "Adversarial draws are positive-probability outcomes of the real "
            "samplers; graphs <= ~12 vertices.",
    "technique": "deterministic simulation with fault injection on the PRNG "
                 "seam, prefix replay under the same seed, structural oracle",
}
CONFIGS = {
    "quick": [("lib", 24000), ("cli", 700), ("optimized", 80)],
    "thorough": [("lib", 12), ("cli", 1), ("optimized", 1)],
}
RUN_TIMEOUT_S = 180
CHUNK = 150


# ---------------------------------------------------------------------------
# generation

def _n(rng, lo, hi):
    return rng.randint(lo, hi)


def _weird(rng):
    return rng.choice(["0", "-1", "2.5", "1e1", "nan", "x", "", "1.0"])


def _gen_simple(rng):
    c = rng.choice(["gnp", "gnm", "gnd", "grid", "torus", "complete",
                    "empty"])
    if c == "gnp":
        n = _n(rng, 1, 8)
        args = [n, rng.choice([0, 0.0, 0.3, 0.5, 1, 1.0, 0.999, 1.5, -0.1])]
        if rng.random() < 0.3:
            args.append(rng.choice([1, 2, 3, 0]))
            args[0] = _n(rng, 1, 3)
    elif c == "gnm":
        n = _n(rng, 1, 7)
        mx = n * (n - 1) // 2
        args = [n, rng.choice([0, 1, mx // 2, mx - 1, mx, mx + 1])]
    elif c == "gnd":
        n = _n(rng, 1, 9)
        args = [n, rng.choice([0, 1, 2, 3, n - 1, n, n + 1])]
    elif c in ("grid", "torus"):
        args = [rng.choice([1, 2, 3, 4, 3, 0]) for _ in range(
            rng.choice([1, 2, 2, 3]))]
    elif c == "complete":
        args = [_n(rng, 0, 7)]
        if rng.random() < 0.3:
            args = [_n(rng, 1, 3), rng.choice([0, 1, 2, 3])]
    else:
        args = [_n(rng, 0, 8)]
    return c, args


def _gen_bip(rng):
    c = rng.choice(["glrp", "glrm", "glrm", "glrd", "regular", "regular",
                    "shift", "complete", "empty"])
    L, R = _n(rng, 1, 6), _n(rng, 1, 6)
    if rng.random() < 0.05:
        L = 0
    if rng.random() < 0.05:
        R = 0
    if c == "glrp":
        args = [L, R, rng.choice([0, 0.0, 0.4, 1, 1.0, 2])]
    elif c == "glrm":
        mx = L * R
        args = [L, R, rng.choice([0, 1, mx // 3, mx // 3 + 1, mx // 2,
                                  mx - 1, mx, mx + 1])]
    elif c == "glrd":
        args = [L, R, rng.choice([0, 1, 2, R - 1, R, R + 1])]
    elif c == "regular":
        d = rng.choice([0, 1, 2, 3, R, R + 1])
        if rng.random() < 0.7 and R > 0:
            # make it likely that R divides L*d
            cands = [x for x in range(0, R + 1) if (L * x) % R == 0]
            d = rng.choice(cands)
        if rng.random() < 0.08:
            # dense and not so small: the stub-matching sampler gets stuck
            # again and again unless it is clever about it
            L = R = rng.choice([12, 16, 20, 22, 24])
            d = R - rng.choice([1, 1, 2, 3])
        args = [L, R, d]
    elif c == "shift":
        k = rng.choice([0, 1, 2, 3])
        args = [L, R] + [rng.choice([0, 1, 2, R - 1, R, R + 1])
                         for _ in range(k)]
    else:
        args = [L, R]
    return c, args


def _gen_dag(rng):
    c = rng.choice(["path", "tree", "pyramid"])
    return c, [rng.choice([0, 1, 2, 3, 4, -1])]


HUGE = [2 ** 53 + 1, 2 ** 53 + 3, 2 ** 60 + 1, 10 ** 17 + 1, 3 ** 35]


def _gen_huge(rng):
    """Bipartite constructions are stored lazily: a right side far beyond
    2**53 is within reach, and sizes are exact integers there too."""
    c = rng.choice(["complete", "empty", "shift", "glrd", "glrm"])
    L, R = rng.randint(1, 3), rng.choice(HUGE)
    if c == "shift":
        args = [L, R] + rng.sample([0, 1, 2, R - 1, R - 2, R // 2],
                                   rng.randint(0, 3))
    elif c == "glrd":
        args = [L, R, rng.randint(0, 3)]
    elif c == "glrm":
        args = [L, R, rng.randint(0, 5)]
    else:
        args = [L, R]
    strategy, budget = adversary_from(rng, p_none=0.6)
    return {"type": "bipartite", "construction": c,
            "args": [str(a) for a in args], "mods": [], "save": None,
            "cli": False, "save_pos": None, "huge": True,
            "prng": {"seed": rng.randrange(2 ** 32), "strategy": strategy,
                     "budget": budget}}


def generate(rng, config):
    if config == "optimized":
        # the interpreter may run with -O / PYTHONOPTIMIZE (no 'assert'
        # statements): requests are judged as in the default mode
        case = generate(rng, "plain")
        case["save"] = case["resave"] = case["save_pos"] = None
        case["optimized"] = True
        case["prng"] = {"seed": rng.randrange(2 ** 32), "strategy": None,
                        "budget": 0}
        return case
    if config == "lib" and rng.random() < 0.03:
        return _gen_huge(rng)
    gtype = rng.choice(["simple", "simple", "bipartite", "bipartite", "dag"])
    if gtype == "simple":
        c, args = _gen_simple(rng)
    elif gtype == "bipartite":
        c, args = _gen_bip(rng)
    else:
        c, args = _gen_dag(rng)
    args = [str(a) for a in args]
    r = rng.random()
    COUNTS = {"gnm": [1], "gnd": [1], "glrm": [2], "glrd": [2],
              "regular": [2], "shift": [2, 3]}
    if r > 0.97 and c in COUNTS:
        # a count far beyond anything the graph has room for: a refusal,
        # and within a bounded number of steps
        i = rng.choice(COUNTS[c])
        if i < len(args):
            args[i] = str(rng.choice([10 ** 6, 10 ** 9, 10 ** 20]))
    if r < 0.04 and args:
        args[rng.randrange(len(args))] = _weird(rng)
    elif r < 0.07 and args:
        args.pop()
    elif r < 0.10:
        args.append(str(rng.choice([1, 2, 0])))
    mods = []
    if gtype == "simple":
        pool = ["plantclique", "addedges", "splitedges"]
    elif gtype == "bipartite":
        pool = ["plantbiclique", "addedges"]
    else:
        pool = []
    rng.shuffle(pool)
    for m in pool[:rng.choice([0, 0, 1, 1, 2, 3])]:
        if m == "plantclique":
            mods.append([m, str(rng.choice([0, 1, 2, 3, 4, 9, 10 ** 20]))])
        elif m == "plantbiclique":
            mods.append([m, str(rng.choice([0, 1, 2, 3, 7])),
                         str(rng.choice([0, 1, 2, 3, 7]))])
        elif m == "addedges":
            mods.append([m, str(rng.choice([0, 1, 2, 5, 40, 10 ** 9,
                                            10 ** 20]))])
        else:
            mods.append([m, str(rng.choice([0, 1, 2, 3, 30, 10 ** 20]))])
    save = None
    if rng.random() < 0.3 or config == "cli":
        fmts = {"simple": ["kthlist", "dimacs", "gml", "dot"],
                "bipartite": ["kthlist", "matrix", "gml", "dot"],
                "dag": ["kthlist", "dimacs", "gml", "dot"]}[gtype]
        f = rng.choice(fmts[:2] * 3 + fmts[2:])
        # file names are the user's: braces, blanks, percent signs
        base = rng.choice(["g", "g", "g", "g{}", "set{a,b}", "half{open",
                           "with blank", "100%s", "g{0}", "}{"])
        save = [base + "." + f] if rng.random() < 0.5 else [f, base + ".out"]
    strategy, budget = adversary_from(rng, p_none=0.45)
    resave = None
    if save and config != "cli" and rng.random() < 0.5:
        # the saved file is the input of a later command, which modifies
        # the graph and saves it again; a third command reads that file
        fmts = {"simple": ["kthlist", "dimacs", "gml", "dot"],
                "bipartite": ["kthlist", "matrix", "gml", "dot"],
                "dag": ["kthlist", "dimacs", "gml", "dot"]}[gtype]
        resave = {"add": rng.choice([None, 0, 1, 2]) if gtype != "dag"
                  else None,
                  "fmt": rng.choice(fmts[:2] * 3 + fmts[2:]),
                  "explicit": rng.random() < 0.5}
    position = None
    if config == "cli":
        position = rng.choice({
            "simple": ["kcolor", "iso", "iso2", "iso2", "kclique", "domset"],
            "bipartite": ["php", "subsetcard", "xorcomp", "majcomp"],
            "dag": ["peb", "stone"]}[gtype])
    return {"type": gtype, "construction": c, "args": args, "mods": mods,
            "position": position,
            "earlier": config == "lib" and rng.random() < 0.15,
            "save": save, "cli": config == "cli", "resave": resave,
            "locale": rng.choice([None, None, None, "ascii", "latin-1"]),
            "save_pos": rng.randint(0, len(mods)) if save else None,
            "prng": {"seed": rng.randrange(2 ** 32), "strategy": strategy,
                     "budget": budget}}


def _spec(case, upto=None, with_save=True, order=None):
    toks = [case["construction"]] + list(case["args"])
    mods = order if order is not None else _canonical(case["mods"])
    if upto is not None:
        mods = mods[:upto]
    else:
        mods = case["mods"]
    pos = case.get("save_pos")
    for j, m in enumerate(mods):
        if with_save and upto is None and case["save"] and pos == j:
            toks += ["save"] + case["save"]     # 'save' before a modifier
        toks += m
    if with_save and upto is None and case["save"] and \
            (pos is None or pos >= len(mods)):
        toks += ["save"] + case["save"]
    return toks


ORDER = {"plantclique": 0, "plantbiclique": 0, "addedges": 1, "splitedges": 2}


def _canonical(mods):
    return sorted(mods, key=lambda m: ORDER[m[0]])


# ---------------------------------------------------------------------------
# reference validity / structure

def _plain_int(tok):
    try:
        return int(tok) if tok.strip() == tok and (
            tok.isdigit() or (tok[:1] == "-" and tok[1:].isdigit())) else None
    except ValueError:
        return None


def _ints(args):
    out = []
    for a in args:
        v = _plain_int(a)
        if v is None:
            return None
        out.append(v)
    return out


def _numberlike(tok):
    try:
        float(tok)
        return True
    except ValueError:
        return False


def classify(case):
    """('valid', info) | ('invalid',) | ('gray', why) for the construction."""
    c, args = case["construction"], case["args"]
    if any(not _numberlike(a) for a in args):
        # a non numeric token ends the argument list: what follows is read as
        # an option name -> certainly an error
        return ("invalid",)
    if c in ("gnp", "glrp"):
        ints = _ints(args[:1] if c == "gnp" else args[:2])
        rest = args[1:] if c == "gnp" else args[2:]
        if ints is None:
            return ("gray", "non-integer spelling")
        if c == "gnp":
            if len(rest) not in (1, 2):
                return ("invalid",)
            t = 1
            if len(rest) == 2:
                t = _plain_int(rest[1])
                if t is None:
                    return ("gray", "non-integer spelling")
            p = float(rest[0])
            if not (ints[0] > 0 and 0 <= p <= 1 and t > 0):
                return ("invalid",)
            return ("valid", {"n": ints[0], "p": p, "t": t})
        if len(rest) != 1:
            return ("invalid",)
        p = float(rest[0])
        if not (ints[0] > 0 and ints[1] > 0 and 0 <= p <= 1):
            return ("invalid",)
        return ("valid", {"L": ints[0], "R": ints[1], "p": p})
    ints = _ints(args)
    if ints is None:
        return ("gray", "non-integer spelling")
    a = ints
    if c == "gnm":
        if len(a) != 2 or not (a[0] > 0 and 0 <= a[1] <= a[0] * (a[0] - 1)
                               // 2):
            return ("invalid",)
        return ("valid", {"n": a[0], "m": a[1]})
    if c == "gnd":
        if len(a) != 2 or not (a[0] > 0 and a[1] > 0 and a[0] > a[1]
                               and (a[0] * a[1]) % 2 == 0):
            return ("invalid",)
        return ("valid", {"n": a[0], "d": a[1]})
    if c in ("grid", "torus"):
        if any(x <= 0 for x in a):
            return ("invalid",)
        if len(a) == 0:
            return ("invalid",)       # a grid needs at least one dimension
        if c == "torus" and any(x <= 2 for x in a):
            return ("gray", "degenerate torus dimension")
        return ("valid", {"dims": a})
    if c == "complete" and case["type"] == "simple":
        if len(a) == 1 and a[0] > 0:
            return ("valid", {"n": a[0], "b": None})
        if len(a) == 2 and a[0] > 0 and a[1] > 0:
            return ("valid", {"n": a[0], "b": a[1]})
        return ("invalid",)
    if c == "empty" and case["type"] == "simple":
        if len(a) == 1 and a[0] > 0:
            return ("valid", {"n": a[0]})
        return ("invalid",)
    if c == "glrm":
        if len(a) != 3 or not (a[0] > 0 and a[1] > 0 and
                               0 <= a[2] <= a[0] * a[1]):
            return ("invalid",)
        return ("valid", {"L": a[0], "R": a[1], "m": a[2]})
    if c in ("glrd", "regular"):
        if len(a) != 3 or not (a[0] > 0 and a[1] > 0 and 0 <= a[2] <= a[1]):
            return ("invalid",)
        if c == "regular" and (a[2] * a[0]) % a[1] != 0:
            return ("invalid",)
        return ("valid", {"L": a[0], "R": a[1], "d": a[2]})
    if c == "shift":
        if len(a) < 2 or not (a[0] > 0 and a[1] > 0):
            return ("invalid",)
        pat = a[2:]
        if len(set(pat)) != len(pat) or any(x < 0 or x > a[1] for x in pat):
            return ("invalid",)
        if 0 in pat and a[1] in pat:
            return ("gray", "offsets 0 and R coincide")
        return ("valid", {"L": a[0], "R": a[1], "pattern": pat})
    if c in ("complete", "empty"):
        if len(a) != 2 or not (a[0] > 0 and a[1] > 0):
            return ("invalid",)
        return ("valid", {"L": a[0], "R": a[1]})
    if c in ("path", "tree", "pyramid"):
        if len(a) != 1 or a[0] < 0:
            return ("invalid",)
        return ("valid", {"h": a[0]})
    raise KeyError(c)


def _edges(G):
    return set(tuple(e) for e in G.edges())


def _degrees_simple(n, E):
    d = [0] * (n + 1)
    for u, v in E:
        d[u] += 1
        d[v] += 1
    return d[1:]


def check_construction(case, info, G, bad, ctx):
    c = case["construction"]
    t = case["type"]
    if t == "simple":
        if G.is_directed() or G.is_bipartite():
            bad("wrong-graph-type", type(G).__name__)
        n = G.number_of_vertices()
        E = _edges(G)
        if any(not (1 <= u < v <= n) for u, v in E) or \
                len(E) != G.number_of_edges():
            bad("not-a-simple-graph", "%r" % sorted(E)[:10])
        if c == "gnp":
            N, p, tt = info["n"], info["p"], info["t"]
            if n != N * tt:
                bad("gnp-vertices", "%d vertices, expected %d" % (n, N * tt))
            blk = lambda v: (v - 1) // N
            if tt > 1 and any(blk(u) == blk(v) for u, v in E):
                bad("gnp-multipartite-edge-inside-block", "%r" % sorted(E))
            full = sum(1 for u in range(1, n + 1) for v in range(u + 1, n + 1)
                       if tt == 1 or blk(u) != blk(v))
            if p == 0 and E:
                bad("gnp-p0-has-edges", "%r" % sorted(E))
            if p == 1 and len(E) != full:
                bad("gnp-p1-not-complete", "%d of %d edges" % (len(E), full))
        elif c == "gnm":
            if n != info["n"] or len(E) != info["m"]:
                bad("gnm-edge-count", "%d vertices %d edges, asked %d %d" %
                    (n, len(E), info["n"], info["m"]))
        elif c == "gnd":
            if n != info["n"] or any(d != info["d"]
                                     for d in _degrees_simple(n, E)):
                bad("gnd-not-regular", "degrees %r, asked %d-regular on %d" %
                    (_degrees_simple(n, E), info["d"], info["n"]))
        elif c in ("grid", "torus"):
            ref = networkx.Graph()
            dims = info["dims"]
            nodes = list(itertools.product(*[range(d) for d in dims]))
            ref.add_nodes_from(nodes)
            for x in nodes:
                for i, d in enumerate(dims):
                    if x[i] + 1 < d:
                        y = x[:i] + (x[i] + 1,) + x[i + 1:]
                        ref.add_edge(x, y)
                    elif c == "torus" and d > 2:
                        y = x[:i] + (0,) + x[i + 1:]
                        ref.add_edge(x, y)
            if n != ref.number_of_nodes() or \
                    len(E) != ref.number_of_edges():
                bad("%s-size" % c, "%d vertices %d edges, expected %d %d" %
                    (n, len(E), ref.number_of_nodes(),
                     ref.number_of_edges()))
            if n <= 40:
                H = networkx.Graph()
                H.add_nodes_from(range(1, n + 1))
                H.add_edges_from(E)
                if not networkx.is_isomorphic(H, ref):
                    bad("%s-not-isomorphic" % c, "dims %r edges %r" %
                        (dims, sorted(E)))
        elif c == "complete":
            N, b = info["n"], info["b"]
            if b is None:
                if n != N or len(E) != N * (N - 1) // 2:
                    bad("complete-graph", "%d vertices %d edges" %
                        (n, len(E)))
            else:
                if n != N * b:
                    bad("complete-multipartite-vertices", "%d" % n)
                # non-adjacency must be an equivalence with classes of size N
                comp = networkx.Graph()
                comp.add_nodes_from(range(1, n + 1))
                comp.add_edges_from((u, v) for u in range(1, n + 1)
                                    for v in range(u + 1, n + 1)
                                    if (u, v) not in E)
                for cc in networkx.connected_components(comp):
                    sub = comp.subgraph(cc)
                    k = len(cc)
                    if k != N or sub.number_of_edges() != k * (k - 1) // 2:
                        bad("complete-multipartite-structure",
                            "block %r" % sorted(cc))
        elif c == "empty":
            if n != info["n"] or E:
                bad("empty-graph", "%d vertices %d edges" % (n, len(E)))
        return
    if t == "bipartite":
        if not G.is_bipartite():
            bad("wrong-graph-type", type(G).__name__)
        L, R = G.left_order(), G.right_order()
        E = _edges(G)
        if (L, R) != (info["L"], info["R"]):
            bad("bipartite-sides", "(%d,%d), asked (%d,%d)" %
                (L, R, info["L"], info["R"]))
        if any(not (1 <= u <= L and 1 <= v <= R) for u, v in E) or \
                len(E) != G.number_of_edges():
            bad("not-a-bipartite-graph", "%r" % sorted(E)[:10])
        ldeg = [sum(1 for u, v in E if u == x) for x in range(1, L + 1)]
        rdeg = [sum(1 for u, v in E if v == x) for x in range(1, R + 1)]
        if c == "glrp":
            if info["p"] == 0 and E:
                bad("glrp-p0-has-edges", "%r" % sorted(E))
            if info["p"] == 1 and len(E) != L * R:
                bad("glrp-p1-not-complete", "%d edges" % len(E))
        elif c == "glrm":
            if len(E) != info["m"]:
                bad("glrm-edge-count", "%d edges, asked %d" %
                    (len(E), info["m"]))
        elif c == "glrd":
            if any(d != info["d"] for d in ldeg):
                bad("glrd-not-left-regular", "left degrees %r, asked %d" %
                    (ldeg, info["d"]))
        elif c == "regular":
            rd = info["L"] * info["d"] // info["R"]
            if any(d != info["d"] for d in ldeg) or \
                    any(d != rd for d in rdeg):
                bad("regular-not-biregular", "left degrees %r right degrees "
                    "%r, asked left %d right %d" % (ldeg, rdeg, info["d"],
                                                    rd))
        elif c == "shift":
            want = set((u, 1 + (u - 1 + o) % R) for u in range(1, L + 1)
                       for o in info["pattern"])
            if E != want:
                bad("shift-edges", "%r, expected %r" % (sorted(E),
                                                        sorted(want)))
        elif c == "complete":
            if len(E) != L * R:
                bad("complete-bipartite", "%d edges" % len(E))
        elif c == "empty":
            if E:
                bad("empty-bipartite", "%d edges" % len(E))
        return
    # dag
    if not G.is_directed():
        bad("wrong-graph-type", type(G).__name__)
    h = info["h"]
    n = G.number_of_vertices()
    E = _edges(G)
    if not G.is_dag() or any(u >= v for u, v in E):
        bad("dag-not-topologically-sorted", "%r" % sorted(E))
    if c == "path":
        if n != h + 1 or E != set((i, i + 1) for i in range(1, h + 1)):
            bad("path-structure", "%d vertices, edges %r" % (n, sorted(E)))
    elif c == "tree":
        if n != 2 ** (h + 1) - 1 or len(E) != n - 1:
            bad("tree-size", "%d vertices %d edges" % (n, len(E)))
        indeg = {v: 0 for v in range(1, n + 1)}
        outdeg = dict(indeg)
        for u, v in E:
            indeg[v] += 1
            outdeg[u] += 1
        roots = [v for v in indeg if outdeg[v] == 0]
        if len(roots) != 1 or any(d not in (0, 2) for d in indeg.values()) \
                or any(outdeg[v] != 1 for v in indeg if v not in roots):
            bad("tree-structure", "edges %r" % sorted(E))
        D = networkx.DiGraph()
        D.add_nodes_from(indeg)
        D.add_edges_from(E)
        if networkx.dag_longest_path_length(D) != h:
            bad("tree-height", "edges %r" % sorted(E))
    else:
        if n != (h + 1) * (h + 2) // 2:
            bad("pyramid-size", "%d vertices" % n)
        want = set()
        start = 1
        for size in range(h + 1, 1, -1):
            nxt = start + size
            for i in range(size - 1):
                want.add((start + i, nxt + i))
                want.add((start + i + 1, nxt + i))
            start = nxt
        if E != want:
            bad("pyramid-edges", "%r, expected %r" % (sorted(E),
                                                      sorted(want)))


def _has_clique(n, E, k):
    if k <= 1:
        return True
    H = networkx.Graph()
    H.add_nodes_from(range(1, n + 1))
    H.add_edges_from(E)
    return any(len(c) >= k for c in networkx.find_cliques(H))


def _has_biclique(L, R, E, a, b):
    if a == 0 or b == 0:
        return True
    nb = {u: set(v for x, v in E if x == u) for u in range(1, L + 1)}
    for A in itertools.combinations(range(1, L + 1), a):
        common = set(range(1, R + 1))
        for u in A:
            common &= nb[u]
        if len(common) >= b:
            return True
    return False


# ---------------------------------------------------------------------------

def _build(case, toks):
    sim = SimRandom(case["prng"]["seed"], case["prng"]["strategy"],
                    case["prng"]["budget"], max_draws=60_000)
    with installed(sim):
        r = call(make_graph_from_spec, case["type"], list(toks))
    return r, sim


def _exec_huge(case, ctx):
    spec = _spec(case)
    res, sim = _build(case, spec)
    c = case["construction"]
    a = [int(x) for x in case["args"]]
    L, R = a[0], a[1]
    ctx.log("huge", spec, res[0], sim.draws)
    ctx.shape = ("huge", tuple(spec), case["prng"])
    ctx.nontrivial = True
    ctx.fault("size_beyond_2^53")
    where = "type=bipartite spec=%r prng=%r" % (" ".join(spec), case["prng"])

    def bad(clause, detail):
        raise Violation("C15/%s/%s" % (c, clause), "%s\n%s" % (where, detail))

    if res[0] == "exc":
        if isinstance(res[1], ValueError):
            bad("valid-request-refused", repr(res[1]))
        raise Violation("C15/%s/internal-failure/%s" %
                        (c, exc_signature(res[1], REPO)),
                        "%s\n%r" % (where, res[1]))
    G = res[1]
    if (G.left_order(), G.right_order()) != (L, R) or \
            G.number_of_vertices() != L + R:
        bad("wrong-sides", "sides (%d,%d), asked (%d,%d)" %
            (G.left_order(), G.right_order(), L, R))
    nb = {}
    for u in range(1, L + 1):
        rn = G.right_neighbors(u)
        if c == "complete":
            if len(rn) != R or rn[0] != 1 or rn[-1] != R:
                bad("complete-bipartite", "right_neighbors(%d) has %d "
                    "elements" % (u, len(rn)))
            continue
        nb[u] = list(rn)
        if nb[u] != sorted(set(nb[u])) or any(not 1 <= v <= R
                                              for v in nb[u]):
            bad("neighbours-out-of-range", "right_neighbors(%d)=%r" %
                (u, nb[u]))
    if c == "complete":
        if G.number_of_edges() != L * R or not G.has_edge(L, R):
            bad("complete-bipartite", "%d edges" % G.number_of_edges())
    elif c == "empty":
        if G.number_of_edges() != 0 or any(nb.values()):
            bad("empty-has-edges", "%d edges" % G.number_of_edges())
    elif c == "shift":
        pat = a[2:]
        for u in range(1, L + 1):
            want = sorted(set(1 + (u - 1 + o) % R for o in pat))
            if nb[u] != want:
                bad("shift-edges", "right_neighbors(%d)=%r, expected %r" %
                    (u, nb[u], want))
    elif c == "glrd":
        if any(len(nb[u]) != a[2] for u in nb):
            bad("glrd-not-left-regular", "left degrees %r, asked %d" %
                ([len(nb[u]) for u in sorted(nb)], a[2]))
    elif c == "glrm":
        if G.number_of_edges() != a[2] or \
                sum(len(x) for x in nb.values()) != a[2]:
            bad("glrm-edge-count", "%d edges, asked %d" %
                (G.number_of_edges(), a[2]))
    ctx.probe("lazy construction with a side beyond 2^53")


_OPT_DRIVER = """
import json, random, sys
from cnfgen.clitools.graph_args import make_graph_from_spec
spec = json.loads(sys.argv[1])
random.seed(spec["seed"])
try:
    G = make_graph_from_spec(spec["type"], spec["toks"])
    if G.is_bipartite():
        st = [G.left_order(), G.right_order()]
    else:
        st = [G.number_of_vertices()]
    print(json.dumps({"ok": True, "state": st,
                      "edges": sorted(list(e) for e in G.edges())}))
except ValueError as e:
    print(json.dumps({"ok": False, "exc": "ValueError"}))
except BaseException as e:
    print(json.dumps({"ok": False, "exc": type(e).__name__}))
"""


def _exec_optimized(case, ctx):
    """The same request in a fresh interpreter with and without -O: a
    request is met or refused independently of the optimisation level."""
    import subprocess
    toks = _spec(case)
    arg = canon({"type": case["type"], "toks": toks,
                 "seed": case["prng"]["seed"]})
    outs = []
    for flag in ([], ["-O"]):
        env = {"PATH": os.environ.get("PATH", "/usr/bin:/bin"),
               "PYTHONPATH": REPO, "PYTHONHASHSEED": "0",
               "PYTHONDONTWRITEBYTECODE": "1"}
        p = subprocess.run([sys.executable, "-W", "ignore"] + flag +
                           ["-c", _OPT_DRIVER, arg], capture_output=True,
                           env=env, timeout=80)
        line = p.stdout.decode("utf-8", "replace").strip().splitlines()
        outs.append(json.loads(line[-1]) if line else
                    {"ok": False, "exc": "no output: %r" % p.stderr[-200:]})
        ctx.fault("fresh_interpreter" + ("_python_-O" if flag else ""))
    ctx.log("optimized", toks, [o["ok"] for o in outs],
            [o.get("exc") for o in outs])
    ctx.shape = ("optimized", case["type"], tuple(toks))
    ctx.nontrivial = True
    where = "type=%s spec=%r seed=%r" % (case["type"], " ".join(toks),
                                         case["prng"]["seed"])
    plain, opt = outs
    if plain["ok"] != opt["ok"] or plain.get("exc") != opt.get("exc"):
        raise Violation(
            "C15/%s/outcome-depends-on-python-O" % case["construction"],
            "%s\ndefault mode: %r\nwith -O: %r" %
            (where, {k: plain[k] for k in plain if k != "edges"},
             {k: opt[k] for k in opt if k != "edges"}))
    if not plain["ok"] and plain["exc"] != "ValueError":
        ctx.note("request ends in %s in both modes (judged by the lib "
                 "configuration)" % plain["exc"])
    if plain["ok"] and (plain["state"] != opt["state"] or
                        plain["edges"] != opt["edges"]):
        raise Violation(
            "C15/%s/graph-depends-on-python-O" % case["construction"],
            "%s\ndefault mode: %r %r\nwith -O: %r %r" %
            (where, plain["state"], plain["edges"][:20], opt["state"],
             opt["edges"][:20]))
    ctx.probe("same outcome with and without -O")


def execute(case, ctx):
    if case.get("optimized"):
        return _exec_optimized(case, ctx)
    if case.get("cli"):
        return _exec_cli(case, ctx)
    if case.get("huge"):
        return _exec_huge(case, ctx)
    gtype = case["type"]
    fs = SimFS(on_fire=ctx.fault)
    if case.get("locale"):
        fs.locale_encoding = case["locale"]
    full = _spec(case)
    if case.get("earlier"):
        # an earlier request of the same process: the same construction
        # with a modifier that works in place (every request is served
        # with a graph of its own)
        toks = [case["construction"]] + list(case["args"]) + \
            {"simple": ["addedges", "1"], "bipartite": ["addedges", "1"],
             "dag": []}[gtype]
        with open_router(fs):
            _build(case, toks)
        ctx.fault("earlier_request_in_the_same_process")
    with open_router(fs):
        res, sim = _build(case, full)
    if sim.adversarial:
        ctx.fault("adversarial_draws", sim.adversarial)
        ctx.fault("adversary:%s" % case["prng"]["strategy"])
    ctx.log(gtype, full, case["prng"]["strategy"], case["prng"]["budget"],
            res[0], sim.draws)
    ctx.shape = (gtype, full, case["prng"])
    where = "type=%s spec=%r prng=%r" % (gtype, " ".join(full), case["prng"])

    def bad(clause, detail):
        raise Violation("C15/%s/%s" % (case["construction"], clause),
                        "%s\n%s" % (where, detail))

    def internal(e, what):
        raise Violation("C15/%s/internal-failure/%s" %
                        (what, exc_signature(e, REPO)),
                        "%s\n%r" % (where, e))

    cls = classify(case)
    mods = _canonical(case["mods"])
    # duplicates of a modifier are refused by the parser
    if len(set(m[0] for m in mods)) != len(mods):
        cls = ("invalid",)
    if cls[0] == "gray":
        ctx.note("gray: " + cls[1])
        if res[0] == "exc" and not isinstance(res[1], ValueError):
            internal(res[1], case["construction"])
        return
    if cls[0] == "invalid":
        ctx.probe("unmeetable request")
        if res[0] == "ok":
            bad("unmeetable-request-accepted", "a graph with %d vertices "
                "came back" % res[1].number_of_vertices())
        if not isinstance(res[1], ValueError):
            internal(res[1], case["construction"])
        ctx.nontrivial = True
        return
    info = cls[1]
    # ---- the construction itself (prefix replay with no modifiers) ---------
    r0, _ = _build(case, _spec(case, upto=0))
    if r0[0] == "exc":
        if isinstance(r0[1], ValueError):
            bad("valid-request-refused", repr(r0[1]))
        internal(r0[1], case["construction"])
    check_construction(case, info, r0[1], bad, ctx)
    cur = r0[1]
    randomised = case["construction"] in ("gnp", "gnm", "gnd", "glrp",
                                          "glrm", "glrd", "regular")
    # The statement does not say in which order several modifiers are
    # applied: the documented fixed order (plant, add, split) and the order
    # on the command line are both accepted - whichever explains the graph
    # the complete specification gives.
    order = mods
    if len(mods) >= 2 and list(case["mods"]) != list(mods) and \
            res[0] == "ok":
        rc, _ = _build(case, _spec(case, upto=len(mods), order=mods))
        if rc[0] != "ok" or graphviews.snapshot(rc[1])[:-1] != \
                graphviews.snapshot(res[1])[:-1]:
            order = list(case["mods"])
            ctx.note("modifiers applied in command-line order")
    mods = order
    # ---- modifiers, one prefix at a time ---------------------------------------
    for i, m in enumerate(mods, start=1):
        name = m[0]
        vals = _ints(m[1:])
        ri, _ = _build(case, _spec(case, upto=i, order=mods))
        before_n = cur.number_of_vertices()
        before_E = _edges(cur)
        if vals is None or any(v < 0 for v in vals):
            ok = None
        elif name == "plantclique":
            ok = len(vals) == 1 and vals[0] <= before_n
        elif name == "plantbiclique":
            ok = len(vals) == 2 and vals[0] <= cur.left_order() and \
                vals[1] <= cur.right_order()
        elif name == "addedges":
            if gtype == "simple":
                room = before_n * (before_n - 1) // 2 - len(before_E)
            else:
                room = cur.left_order() * cur.right_order() - len(before_E)
            ok = len(vals) == 1 and vals[0] <= room
        else:
            ok = len(vals) == 1 and vals[0] <= len(before_E)
        if ok is None:
            ctx.note("gray: modifier argument spelling")
            if ri[0] == "exc" and not isinstance(ri[1], ValueError):
                internal(ri[1], name)
            return
        if not ok:
            ctx.probe("unmeetable modifier request")
            if ri[0] == "ok" or res[0] == "ok":
                raise Violation("C15/%s/unmeetable-request-accepted" % name,
                                "%s\n%r on a graph with %d vertices and %d "
                                "edges" % (where, m, before_n,
                                           len(before_E)))
            if not isinstance(ri[1], ValueError):
                internal(ri[1], name)
            ctx.nontrivial = True
            return
        if ri[0] == "exc":
            if isinstance(ri[1], ValueError):
                raise Violation("C15/%s/valid-request-refused" % name,
                                "%s\n%r: %r" % (where, m, ri[1]))
            internal(ri[1], name)
        G = ri[1]
        E = _edges(G)
        n = G.number_of_vertices()

        def mbad(clause, detail):
            raise Violation("C15/%s/%s" % (name, clause),
                            "%s\nmodifier %r: %s\nbefore: %d vertices %r\n"
                            "after: %d vertices %r" %
                            (where, m, detail, before_n, sorted(before_E),
                             n, sorted(E)))

        if name == "plantclique":
            if n != before_n or not before_E <= E:
                mbad("base-graph-damaged", "")
            if not _has_clique(n, E, vals[0]):
                mbad("no-clique", "no %d-clique" % vals[0])
            new = E - before_E
            S = set(x for e in new for x in e)
            if len(S) > vals[0]:
                mbad("extra-edges", "new edges span %d vertices" % len(S))
        elif name == "plantbiclique":
            if not before_E <= E:
                mbad("base-graph-damaged", "")
            if not _has_biclique(G.left_order(), G.right_order(), E,
                                 vals[0], vals[1]):
                mbad("no-biclique", "no K_{%d,%d}" % tuple(vals))
            new = E - before_E
            if len(set(u for u, _ in new)) > vals[0] or \
                    len(set(v for _, v in new)) > vals[1]:
                mbad("extra-edges", "%r" % sorted(new))
        elif name == "addedges":
            if n != before_n or not before_E <= E:
                mbad("base-graph-damaged", "")
            if len(E) != len(before_E) + vals[0]:
                mbad("edge-count", "%d new edges, asked %d" %
                     (len(E) - len(before_E), vals[0]))
        else:
            k = vals[0]
            if n != before_n + k or len(E) != len(before_E) + k:
                mbad("size", "asked to split %d edges" % k)
            gone = set()
            for x in range(before_n + 1, n + 1):
                nb = sorted([v for u, v in E if u == x] +
                            [u for u, v in E if v == x])
                if len(nb) != 2 or (nb[0], nb[1]) not in before_E or \
                        (nb[0], nb[1]) in E or (nb[0], nb[1]) in gone:
                    mbad("new-vertex", "vertex %d has neighbours %r" %
                         (x, nb))
                gone.add((nb[0], nb[1]))
            old = set(e for e in E if e[1] <= before_n)
            if old != before_E - gone:
                mbad("base-graph-damaged", "")
        cur = G
        ctx.probe("modifier:%s" % name)
    # ---- the complete specification ---------------------------------------------
    if res[0] == "exc":
        if isinstance(res[1], ValueError):
            given = list(case["mods"])
            if given != list(mods):
                # meetable in the documented order; is it unmeetable in the
                # order written on the command line?  Then refusing it is a
                # legitimate reading of the specification.
                for i in range(1, len(given) + 1):
                    rg, _ = _build(case, _spec(case, upto=i, order=given))
                    if rg[0] == "exc" and isinstance(rg[1], ValueError):
                        ctx.note("refused: unmeetable in command-line order")
                        ctx.nontrivial = True
                        return
            bad("valid-request-refused", repr(res[1]))
        internal(res[1], "full-spec")
    G = res[1]
    if graphviews.snapshot(G)[:-1] != graphviews.snapshot(cur)[:-1]:
        bad("replay-diverged", "the complete specification gives a "
            "different graph than its own prefix replay")
    ctx.nontrivial = randomised or bool(mods)
    ctx.probe("construction:%s" % case["construction"])
    if case["save"]:
        fname = case["save"][-1]
        fmt = case["save"][0] if len(case["save"]) == 2 else \
            fname.rsplit(".", 1)[-1]
        data = fs.data(fname)
        if data is None:
            bad("save-missing", "no file %r was written" % fname)
        ref = _read_saved(data, fmt, gtype)
        if ref is None:
            bad("save-unreadable", "saved %s file is not valid: %r" %
                (fmt, data[:300]))
        want = (G.left_order(), G.right_order(), sorted(_edges(G))) \
            if gtype == "bipartite" else \
            (G.number_of_vertices(), sorted(_edges(G)))
        if ref != want:
            bad("save-differs", "saved %r, returned %r" % (ref, want))
        ctx.probe("save:%s" % fmt)
        if case.get("resave"):
            _resave(case, ctx, fs, fname, fmt, want, bad, internal)


def _state(G, gtype):
    if gtype == "bipartite":
        return (G.left_order(), G.right_order(), sorted(_edges(G)))
    return (G.number_of_vertices(), sorted(_edges(G)))


def _resave(case, ctx, fs, fname, fmt, want, bad, internal):
    """History of three commands sharing the simulated disk: the file saved
    by the first is read by the second ('<file> [addedges k] save <file2>'),
    whose saved file is read by the third."""
    gtype = case["type"]
    rs = case["resave"]
    src = [fname] if fname.endswith("." + fmt) else [fmt, fname]
    spec = list(src)
    E0 = set(want[-1])
    k = rs["add"]
    if k is not None:
        if gtype == "simple":
            room = want[0] * (want[0] - 1) // 2 - len(E0)
        else:
            room = want[0] * want[1] - len(E0)
        if k > room:
            k = None
    if k is not None:
        spec += ["addedges", str(k)]
    out2 = "h." + rs["fmt"] if not rs["explicit"] else "h.out"
    spec += ["save"] + ([rs["fmt"], out2] if rs["explicit"] else [out2])
    ctx.fault("saved_file_is_input_of_next_command")
    with open_router(fs):
        r2, _ = _build(case, spec)
    if r2[0] == "exc":
        if isinstance(r2[1], ValueError):
            bad("saved-file-refused-as-input", "%r: %r" % (spec, r2[1]))
        internal(r2[1], "resave")
    G2 = r2[1]
    st2 = _state(G2, gtype)
    if st2[:-1] != want[:-1] or not E0 <= set(st2[-1]) or \
            len(st2[-1]) != len(E0) + (k or 0):
        bad("saved-file-misread", "%r gives %r, the saved graph was %r" %
            (spec, st2, want))
    data2 = fs.data(out2)
    if data2 is None:
        bad("save-missing", "no file %r was written by %r" % (out2, spec))
    spec3 = [out2] if not rs["explicit"] else [rs["fmt"], out2]
    with open_router(fs):
        r3, _ = _build(case, spec3)
    if r3[0] == "exc":
        if isinstance(r3[1], ValueError):
            bad("save-unreadable", "%r written by %r is refused: %r\n%r" %
                (out2, spec, r3[1], data2[:300]))
        internal(r3[1], "resave")
    if _state(r3[1], gtype) != st2:
        bad("save-differs", "%r saved %r, reading it gives %r" %
            (spec, st2, _state(r3[1], gtype)))
    ctx.probe("saved file modified and saved again")


def _read_saved(data, fmt, gtype):
    """Graph stored in *data* as a comparable tuple, or None."""
    try:
        text = data.decode("utf-8")
    except UnicodeDecodeError:
        return None
    if fmt == "kthlist":
        r = graphref.read_kthlist(text, gtype)
    elif fmt == "dimacs":
        r = graphref.read_dimacs_edge(text, gtype)
    elif fmt == "matrix":
        r = graphref.read_matrix(text)
    else:
        # gml / dot: cnfgen's own reader (round trip is established by C14)
        st = text_reader(data, name="saved." + fmt)
        rr = call(readGraph, st, gtype, fmt)
        if rr[0] == "exc":
            return None
        g = rr[1]
        if gtype == "bipartite":
            return (g.left_order(), g.right_order(), sorted(_edges(g)))
        return (g.number_of_vertices(), sorted(_edges(g)))
    if not isinstance(r, graphref.Valid):
        return None
    return r.graph.state()


def _exec_cli(case, ctx):
    gtype = case["type"]
    fs = SimFS(on_fire=ctx.fault)
    if case.get("locale"):
        fs.locale_encoding = case["locale"]
    spec = _spec(case)
    # the places of a command line where a graph specification is read
    pos = case.get("position") or {"simple": "kcolor", "bipartite": "php",
                                   "dag": "peb"}[gtype]
    L = case["args"][0] if case["args"] else ""
    if pos in ("xorcomp", "majcomp") and not (_plain_int(L) and
                                              1 <= int(L) <= 8):
        pos = "php"
    if pos in ("subsetcard", "xorcomp", "majcomp", "kclique", "domset",
               "stone") and any(_plain_int(a) and int(a) > 8
                                for a in case["args"]):
        # (formulas whose size is exponential in a degree: the dense
        # 24 x 24 graphs of the 'regular' workload would need gigabytes)
        pos = {"simple": "kcolor", "bipartite": "php", "dag": "peb"}[gtype]
    fam = {"kcolor": ["kcolor", "1"], "iso": ["iso"],
           "iso2": ["iso", "complete", "3", "-e"], "kclique": ["kclique", "2"],
           "domset": ["domset", "1"], "php": ["php"],
           "subsetcard": ["subsetcard"],
           "xorcomp": ["and", L, "0", "-T", "xorcomp"],
           "majcomp": ["and", L, "0", "-T", "majcomp"],
           "peb": ["peb"], "stone": ["stone", "2"]}[pos]
    argv = ["cnfgen", "-q"] + fam + spec
    sim = SimRandom(case["prng"]["seed"], case["prng"]["strategy"],
                    case["prng"]["budget"], max_draws=60_000)
    climsg._prefix = ""
    with open_router(fs), installed(sim):
        res = call(cnfgen_cli, argv, mode="formula")
    climsg._prefix = ""
    ctx.log("cli", argv, res[0])
    ctx.shape = (argv, case["prng"])
    where = "argv=%r prng=%r" % (" ".join(argv), case["prng"])
    cls = classify(case)
    if res[0] == "exc":
        if not isinstance(res[1], (CLIError, ValueError)):
            raise Violation("C15/cli/internal-failure/%s" %
                            exc_signature(res[1], REPO),
                            "%s\n%r" % (where, res[1]))
        if cls[0] == "valid" and not case["mods"]:
            raise Violation("C15/cli/valid-request-refused",
                            "%s\n%r" % (where, res[1]))
        return
    if cls[0] == "invalid":
        raise Violation("C15/cli/unmeetable-request-accepted", where)
    F = res[1]
    fname = case["save"][-1]
    fmt = case["save"][0] if len(case["save"]) == 2 else \
        fname.rsplit(".", 1)[-1]
    data = fs.data(fname)
    if data is None:
        raise Violation("C15/cli/save-missing", where)
    st = text_reader(data, name="saved." + fmt)
    rr = call(readGraph, st, gtype, fmt)
    if rr[0] == "exc":
        raise Violation("C15/cli/save-unreadable", "%s\n%r\n%r" %
                        (where, rr[1], data[:300]))
    Gs = rr[1]
    if pos in ("xorcomp", "majcomp"):
        climsg._prefix = ""
        with open_router(fs):
            F0 = cnfgen_cli(["cnfgen", "-q", "and", L, "0"], mode="formula")
        climsg._prefix = ""
    F2 = {"kcolor": lambda: cnfgen.GraphColoringFormula(Gs, 1),
          "iso": lambda: cnfgen.GraphAutomorphism(Gs),
          "iso2": lambda: cnfgen.GraphIsomorphism(
              cnfgen.Graph.complete_graph(3), Gs),
          "kclique": lambda: cnfgen.CliqueFormula(Gs, 2),
          "domset": lambda: cnfgen.DominatingSet(Gs, 1),
          "php": lambda: cnfgen.GraphPigeonholePrinciple(Gs),
          "subsetcard": lambda: cnfgen.SubsetCardinalityFormula(Gs),
          "xorcomp": lambda: cnfgen.VariableCompression(F0, Gs, "xor"),
          "majcomp": lambda: cnfgen.VariableCompression(F0, Gs, "maj"),
          "peb": lambda: cnfgen.PebblingFormula(Gs),
          "stone": lambda: cnfgen.StoneFormula(Gs, 2)}[pos]
    r2 = call(F2)
    if r2[0] == "exc":
        raise Violation("C15/cli/save-is-not-the-graph-used",
                        "%s\nthe formula cannot even be built on the saved "
                        "graph: %r" % (where, r2[1]))
    F2 = r2[1]
    if F.number_of_variables() != F2.number_of_variables() or \
            list(F) != list(F2):
        raise Violation("C15/cli/save-is-not-the-graph-used",
                        "%s\nformula on the saved graph differs from the "
                        "formula produced: %d vs %d variables, %d vs %d "
                        "clauses" % (where, F2.number_of_variables(),
                                     F.number_of_variables(), len(F2),
                                     len(F)))
    ctx.nontrivial = True
    ctx.probe("cli save:%s" % fmt)
    ctx.probe("cli graph read at: %s" % pos)


from checks import graphviews  # noqa: E402  (after the definitions above)

SHRINK_SKIP = {"seed"}
