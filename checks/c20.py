"""C20 - solve() and is_satisfiable() report what the SAT solver found.

Real code: cnfgen.utils.solver (whole bridge), CNF.solve/is_satisfiable,
CNF.to_dimacs.  Stubs: the solver peers (detsim.simproc), fed through a fake
``subprocess`` namespace; temp files are real files in a private directory.
"""
import importlib
import os
import sys
import tempfile

import cnfgen
import cnfgen.utils.solver as solvermod
from cnfgen import CNF

from detsim.core import Violation, call, exc_signature
from detsim.refmodels import cnfref
from detsim import simproc
from detsim.simproc import (REFERENCE_CONVENTION, REFERENCE_ORDER,
                            SimSubprocess, random_shape)
from detsim.simio import SimStream
from detsim.runner import REPO

ID = "C20"
LEVEL = "fault_enumeration"
RULE = ("one run = one formula (<=12 variables), one set of installed fake "
        "solvers (which may change between two calls), 1-3 bridge calls, "
        "one fault plan, one name of the temporary directory (20% unusual: "
        "blanks, non-ASCII, dash, quote, tab, nested); solvers may print "
        "no model, print diagnostics on stderr, exit with 10/20, answer "
        "before reading all their input or delete their result file; in "
        "the 'cut' plans "
        "the "
        "death offset of the solver is enumerated over every byte of its "
        "output. A run is non-trivial if a solver process was actually "
        "started; distinct = distinct (formula, installed set, call "
        "arguments, output shape, fault plan).")
ASSUMPTIONS = [
    "solver peers are stubs that follow the documented table of wire "
    "conventions; real solver binaries, real pipes and zombie processes are "
    "not exercised",
    "brute-force reference verdict over <= 10 variables",
]
COMPONENTS = {
    "real": ["cnfgen.utils.solver (sat_solve, some_solver_installed, the "
             "three _satsolve_* bridges)", "CNF.solve / CNF.is_satisfiable",
             "CNF.to_dimacs", "tempfile / os.unlink on a private /dev/shm "
             "directory"],
    "stub": ["subprocess.Popen (fake peers: brute-force solver + output "
             "shaper + fault plan)"],
}
MANIFEST = {
    "text": "Seeded simulation of the solver bridge against fake solver "
            "peers: random formulas (<=10 variables), sets of installed "
            "solvers, call arguments and output shapes; faults of a failing "
            "solver are injected (exec failure after probe, no output, "
            "garbage, s UNKNOWN, non-ASCII, missing/empty/garbage result "
            "file) and the death of the solver is enumerated at every byte "
            "offset of its output for each sampled workload. Verdicts are "
            "compared with a brute-force reference; sampling plus "
            "per-workload fault enumeration, not proof. The set of "
            "installed solvers may change between two calls of one "
            "simulated process and the bridge's module state is re-created "
            "for every run.",
    "design_ref": "DESIGN.md 4.12",
    "note": "Peers are stubs following the documented convention table; "
            "real solver binaries, pipes and process reaping are outside "
            "the simulation. Trusted: the brute-force reference solver and "
            "the independent DIMACS reader in detsim/refmodels/cnfref.py.",
    "technique": "deterministic simulation with fault injection (fake "
                 "subprocess peers, seeded fault plans, enumerated kill "
                 "offsets)",
}
CONFIGS = {
    "quick": [("nofault", 18000), ("failing", 10000), ("extended", 2000)],
    "thorough": [("nofault", 5), ("failing", 4), ("extended", 1)],
}
CHUNK = 250
SUPPORTED = list(REFERENCE_ORDER)

_TMPROOT = None


def _tmpdir():
    global _TMPROOT
    if _TMPROOT is None or not os.path.isdir(_TMPROOT):
        from detsim.runner import scratch_dir
        _TMPROOT = scratch_dir("c20.")
        import atexit
        import shutil
        atexit.register(shutil.rmtree, _TMPROOT, True)
    return _TMPROOT


# ---------------------------------------------------------------------------
# generation

def generate(rng, config):
    n, clauses = cnfref.random_cnf(rng, max_vars=10, max_clauses=20)
    if rng.random() < 0.1:
        n = rng.choice([11, 12])
        clauses = [[rng.choice([1, -1]) * rng.randint(1, n)
                    for _ in range(rng.randint(1, 3))]
                   for _ in range(rng.randint(0, 14))]
    if rng.random() < 0.08:
        n, clauses = 0, [[]] * rng.choice([0, 0, 1, 2])
    # installed solvers
    r = rng.random()
    if r < 0.08:
        names = []
    elif r < 0.18:
        names = [SUPPORTED[-1]]
    elif r < 0.5:
        names = [rng.choice(SUPPORTED)]
    else:
        names = [s for s in SUPPORTED if rng.random() < 0.3]
    installed = {}
    for s in names:
        installed[s] = {"convention": REFERENCE_CONVENTION[s],
                        "shape": random_shape(rng),
                        "help_rc": rng.choice([0, 0, 1, 2])}
    foreign = []
    if rng.random() < 0.35:
        fname = rng.choice(["mysolver", "hacked-minisat", "solver2",
                            "/opt/bin/kissat-dev"])
        conv = rng.choice(["stdin_stdout", "filein_stdout",
                           "filein_fileout"])
        installed[fname] = {"convention": conv, "shape": random_shape(rng),
                            "help_rc": rng.choice([0, 0, 1])}
        foreign.append(fname)
    calls = []
    for _ in range(rng.choice([1, 1, 2, 3])):
        calls.append(_gen_call(rng, installed, foreign))
    case = {"config": config, "n": n, "clauses": clauses,
            "installed": installed, "calls": calls, "plan": {}}
    if rng.random() < 0.2:
        # the directory for temporary files is part of the environment
        # (TMPDIR, tempfile.tempdir): its name is not always /tmp
        case["tmpname"] = rng.choice(TMPNAMES)
    if len(calls) >= 2 and rng.random() < 0.5:
        # the set of installed solvers changes between two calls of the
        # same process (a solver is installed / removed meanwhile)
        names2 = [s for s in SUPPORTED if rng.random() < 0.3]
        if rng.random() < 0.3:
            names2 = []
        inst2 = {s: {"convention": REFERENCE_CONVENTION[s],
                     "shape": random_shape(rng),
                     "help_rc": rng.choice([0, 0, 1])} for s in names2}
        for f in foreign:
            if rng.random() < 0.5:
                inst2[f] = installed[f]
        case["installed_later"] = {"from_call": rng.randint(1, len(calls) - 1),
                                   "installed": inst2}
    if config == "failing":
        case["plan"] = _gen_plan(rng)
        if case["plan"].get("early_exit") and rng.random() < 0.85:
            clauses = [list(c) for c in clauses]
            clauses.insert(rng.randint(0, len(clauses)), [])
            case["clauses"] = clauses
    elif config == "extended":
        case["plan"] = {"extended": rng.choice(
            ["unlink_fails", "mktemp_fails", "unlink_fails_once"])}
    return case


def _gen_call(rng, installed, foreign):
    r = rng.random()
    sameas = None
    if r < 0.3:
        cmd = rng.choice([None, None, "", "   "])
    elif r < 0.65:
        name = rng.choice(sorted(installed) or SUPPORTED)
        cmd = name
    elif r < 0.8:
        cmd = rng.choice(SUPPORTED)
    elif r < 0.9:
        cmd = rng.choice(sorted(installed) or SUPPORTED) + \
            rng.choice([" --opt 3", " -no-pre", "  -v  -q "])
    else:
        cmd = rng.choice(["unknownsolver", "foo --bar"])
    if cmd and cmd.split() and cmd.split()[0] in foreign:
        # a drop-in replacement: tell the bridge whom it resembles
        conv = installed[cmd.split()[0]]["convention"]
        if rng.random() < 0.85:
            sameas = rng.choice([s for s in SUPPORTED
                                 if REFERENCE_CONVENTION[s] == conv])
    r2 = rng.random()
    if sameas is None and r2 < 0.12:
        sameas = rng.choice(SUPPORTED)
    elif sameas is None and r2 < 0.17:
        sameas = rng.choice(["zchaff", "", "Minisat", "foo"])
    method = rng.choice(["solve", "solve", "is_satisfiable", "sat_solve"])
    arg = "cnf"
    if rng.random() < 0.04:
        arg = rng.choice(["list", "none", "str"])
    return {"method": method, "cmd": cmd, "sameas": sameas,
            "verbose": rng.choice([0, 0, 0, 1, 2]), "arg": arg}


def _gen_plan(rng):
    r = rng.random()
    if r < 0.12:
        return {"exec_fails": rng.choice(["ENOENT", "EACCES", "ENOMEM",
                                          "ENOEXEC"])}
    if r < 0.22:
        return {"stdout": "empty", "result_file": "empty"}
    if r < 0.34:
        return {"stdout": "garbage", "result_file": "garbage",
                "garbage_id": rng.randrange(len(GARBAGE))}
    if r < 0.42:
        return {"stdout": "unknown", "result_file": "garbage"}
    if r < 0.50:
        return {"stdout": "nonascii"}
    if r < 0.55:
        return {"result_file": "missing", "stdout": "empty"}
    if r < 0.58:
        return {"result_file": "deleted", "stdout": "empty"}
    if r < 0.62:
        # not a failure either: the answer is complete, only the input
        # file has been removed by the time the solver returns
        return {"input_file": "deleted"}
    if r < 0.70:
        # not a failure at all: the solver answers as soon as it meets an
        # empty clause and exits without reading the rest of its input
        return {"early_exit": True,
                "pipe_capacity": rng.choice([0, 1, 7, 64, 4096])}
    # death mid-output, every offset enumerated in execute
    return {"stdout": "cut", "result_file": "cut", "cut_at": "all"}


TMPNAMES = ["John Doe", "a  b", " lead", "t\u00e9l\u00e9", "-dash", "it's",
            "x\ty", "deep/er dir"]

GARBAGE = [b"Segmentation fault\n", b"\n\n\n", b"ERROR: out of memory\n",
           b"c only comments\nc more\n", b"v 1 2 3 0\n", b"SATISFIABLE\n",
           b"s\n", b"s \n", b"sat\n", b"v\n", b"s SATISFIABLEX\n",
           b"c s SATISFIABLE\n", b" s SATISFIABLE\n", b"v x y 0\n",
           b"s UNSATISFIABLE extra\nv - 0\n"]


# ---------------------------------------------------------------------------
# reference for "which solver, how"

def expected_route(call_, installed):
    """('exc', ExcType) | ('run', name, bridge_convention)."""
    if call_["arg"] != "cnf":
        return ("exc", TypeError)
    sameas = call_["sameas"]
    cmd = call_["cmd"]
    if sameas is not None and sameas not in SUPPORTED:
        return ("exc", ValueError)
    if cmd is None or len(cmd.split()) == 0:
        for s in SUPPORTED:
            if s in installed:
                return ("run", s, REFERENCE_CONVENTION[s], [s])
        return ("exc", RuntimeError)
    name = cmd.split()[0]
    if name not in SUPPORTED and sameas is None:
        return ("exc", RuntimeError)
    if name not in installed:
        return ("exc", RuntimeError)
    return ("run", name, REFERENCE_CONVENTION[sameas or name], cmd.split())


# ---------------------------------------------------------------------------
# execution

class _OsProxy:
    """``os`` as seen by the bridge in the extended configuration."""

    def __init__(self, plan, ctx):
        self._plan = plan
        self._ctx = ctx
        self._count = 0

    def __getattr__(self, name):
        return getattr(os, name)

    def unlink(self, path):
        self._count += 1
        kind = self._plan.get("extended")
        if kind == "unlink_fails" or (kind == "unlink_fails_once"
                                      and self._count == 1):
            self._ctx.fault("unlink_fails")
            raise OSError(16, "Device or resource busy (simulated)")
        return os.unlink(path)


class _TempfileProxy:
    def __init__(self, plan, ctx):
        self._plan = plan
        self._ctx = ctx

    def __getattr__(self, name):
        return getattr(tempfile, name)

    def NamedTemporaryFile(self, *a, **kw):
        if self._plan.get("extended") == "mktemp_fails":
            self._ctx.fault("mktemp_fails")
            raise OSError(28, "No space left on device (simulated)")
        return tempfile.NamedTemporaryFile(*a, **kw)


def _build_formula(case):
    F = CNF()
    F.update_variable_number(case["n"])
    for c in case["clauses"]:
        F.add_clause(list(c))
    return F


def _invoke(F, c, arg):
    kw = {"cmd": c["cmd"], "sameas": c["sameas"]}
    if c["method"] == "solve":
        return call(F.solve, verbose=c["verbose"], **kw) \
            if arg is F else call(solvermod.sat_solve, arg,
                                  verbose=c["verbose"], **kw)
    if c["method"] == "is_satisfiable":
        return call(F.is_satisfiable, **kw) if arg is F else \
            call(solvermod.sat_solve, arg, **kw)
    return call(solvermod.sat_solve, arg, verbose=c["verbose"], **kw)


def execute(case, ctx):
    # canonical reset: no state of the bridge may survive from an earlier
    # run of this process (module-level caches are re-created)
    importlib.reload(solvermod)
    # the order in which solvers are tried is the order of the documented
    # public list; the wire convention of each name is the reference copy
    global SUPPORTED
    listed = call(solvermod.supported_satsolvers)
    if listed[0] == "ok" and sorted(listed[1]) == sorted(REFERENCE_ORDER):
        SUPPORTED = list(listed[1])
    else:
        SUPPORTED = list(REFERENCE_ORDER)
    F = _build_formula(case)
    n = case["n"]
    clauses = [tuple(c) for c in case["clauses"]]
    ref_models = cnfref.models(n, clauses)
    ref_verdict = bool(ref_models)
    installed = case["installed"]
    plan = dict(case.get("plan") or {})
    if "garbage_id" in plan:
        plan["garbage"] = GARBAGE[plan["garbage_id"] % len(GARBAGE)]
    tmp = _tmpdir()
    tmp = os.path.join(tmp, case.get("tmpname") or "plain")
    os.makedirs(tmp, exist_ok=True)
    if case.get("tmpname"):
        ctx.fault("tmpdir_unusual_name")
    for leftover in os.listdir(tmp):
        if not os.path.isdir(os.path.join(tmp, leftover)):
            os.unlink(os.path.join(tmp, leftover))
    ctx.shape = (n, case["clauses"], sorted(installed), case["calls"],
                 case.get("plan"), [installed[k]["shape"]
                                    for k in sorted(installed)])
    saved_mod = {a: getattr(solvermod, a) for a in ("subprocess", "os",
                                                    "tempfile")
                 if hasattr(solvermod, a)}
    saved = (tempfile.tempdir, sys.stderr, sys.stdout)
    tempfile.tempdir = tmp
    try:
        for ci, c in enumerate(case["calls"]):
            later = case.get("installed_later")
            if later and ci >= later["from_call"]:
                if installed is not later["installed"]:
                    ctx.fault("installed_set_changed_between_calls")
                installed = later["installed"]
                case = dict(case, installed=installed)
            route = expected_route(c, installed)
            enum_cut = (plan.get("cut_at") == "all" and route[0] == "run")
            if enum_cut:
                # learn the length of the complete output first
                p0 = {k: v for k, v in plan.items()
                      if k not in ("stdout", "result_file", "cut_at")}
                full = _one_call(case, ctx, F, c, ci, route, p0, tmp,
                                 ref_verdict, clauses, n, learn=True)
                if full is None:
                    continue
                for k in range(len(full) + 1):
                    pk = dict(plan)
                    pk["cut_at"] = k
                    pk["_full"] = full
                    _one_call(case, ctx, F, c, ci, route, pk, tmp,
                              ref_verdict, clauses, n)
            else:
                _one_call(case, ctx, F, c, ci, route, plan, tmp,
                          ref_verdict, clauses, n)
    finally:
        (tempfile.tempdir, sys.stderr, sys.stdout) = saved
        for a, v in saved_mod.items():
            setattr(solvermod, a, v)


def _one_call(case, ctx, F, c, ci, route, plan, tmp, ref_verdict, clauses, n,
              learn=False):
    sp = SimSubprocess(case["installed"], plan, ctx, open)
    rebound = simproc.rebind(solvermod, sp)
    if not rebound:
        solvermod.subprocess = sp
    if plan.get("extended") and hasattr(solvermod, "os") and \
            hasattr(solvermod, "tempfile"):
        solvermod.os = _OsProxy(plan, ctx)
        solvermod.tempfile = _TempfileProxy(plan, ctx)
    err = SimStream(name="<stderr>")
    out = SimStream(name="<stdout>")
    sys.stderr, sys.stdout = err, out
    arg = {"cnf": F, "list": [[1, 2]], "none": None, "str": "p cnf 0 0"}[
        c["arg"]]
    try:
        res = _invoke(F, c, arg)
    finally:
        sys.stderr, sys.stdout = sys.__stderr__, sys.__stdout__
        if hasattr(solvermod, "os"):
            solvermod.os = os
        if hasattr(solvermod, "tempfile"):
            solvermod.tempfile = tempfile
        for attr, val in rebound:
            setattr(solvermod, attr, val)
    leftovers = sorted(os.listdir(tmp))
    for f in leftovers:
        pth = os.path.join(tmp, f)
        if os.path.isdir(pth):
            import shutil
            shutil.rmtree(pth, True)
        else:
            os.unlink(pth)
    ctx.log("call", ci, c["method"], c["cmd"], c["sameas"],
            {k: v for k, v in plan.items() if not k.startswith("_")
             and k != "garbage"},
            [(r["argv"][0], r.get("outcome")) for r in sp.calls],
            _outcome_repr(res), len(leftovers))
    if sp.solve_calls:
        ctx.nontrivial = True

    def bad(clause, detail):
        raise Violation("C20/%s" % clause, "%s\ncall=%r plan=%r n=%d "
                        "clauses=%r installed=%r\nresult=%s" %
                        (detail, c, {k: v for k, v in plan.items()
                                     if not k.startswith("_")}, n,
                         case["clauses"], sorted(case["installed"]),
                         _outcome_repr(res)))

    def bad_exc(clause, e):
        raise Violation("C20/%s/%s" % (clause, exc_signature(e, REPO)),
                        "%r\ncall=%r plan=%r n=%d clauses=%r installed=%r" %
                        (e, c, {k: v for k, v in plan.items()
                                if not k.startswith("_")}, n,
                         case["clauses"], sorted(case["installed"])))

    extended = bool(plan.get("extended"))
    # ---- temp files ----------------------------------------------------
    if leftovers and not extended:
        which = route[2] if route[0] == "run" else "?"
        bad("tempfile-left-behind/%s" % which,
            "temporary files left behind: %d" % len(leftovers))
    if leftovers and extended:
        ctx.note("extended: temp file left after failing unlink/mktemp")

    # ---- argument errors -------------------------------------------------
    if route[0] == "exc":
        want = route[1]
        if res[0] == "ok":
            bad("verdict-without-solver",
                "expected %s, got a result" % want.__name__)
        if not isinstance(res[1], want) or (
                want is RuntimeError and not _is_runtime_error(res[1])):
            bad_exc("wrong-error-for-bad-request-expected-%s" %
                    want.__name__, res[1])
        if sp.solve_calls:
            bad("solver-started-despite-bad-request", "%r" % sp.solve_calls)
        return None

    _, name, conv, argv0 = route
    peer_conv = case["installed"][name]["convention"]
    consistent = (conv == peer_conv)
    if not consistent:
        ctx.note("user declared a convention the peer does not speak")

    # ---- extended configuration: may fail, never lie ---------------------
    if extended:
        if res[0] == "exc":
            if not isinstance(res[1], (OSError, RuntimeError)):
                bad_exc("extended-unexpected-exception", res[1])
            ctx.note("extended: %s propagated" % type(res[1]).__name__)
            return None
        _check_verdict_only(res, c, ref_verdict, bad)
        return None

    # ---- which solver, how -------------------------------------------------
    if plan.get("exec_fails"):
        if res[0] == "ok":
            bad("verdict-without-solver", "exec failed but a verdict came")
        if not _is_runtime_error(res[1]):
            bad_exc("failing-solver-not-RuntimeError", res[1])
        return None

    if len(sp.solve_calls) != 1:
        bad("solver-invocations", "expected exactly one solver process, "
            "got %d" % len(sp.solve_calls))
    rec = sp.solve_calls[0]
    if rec["argv"][0] != name:
        bad("wrong-solver-chosen", "expected %s (first installed in table "
            "order / requested), ran %s" % (name, rec["argv"][0]))
    nfiles = {"stdin_stdout": 0, "filein_stdout": 1, "filein_fileout": 2}[
        conv]
    if rec["argv"][:len(argv0)] != argv0 or \
            len(rec["argv"]) != len(argv0) + nfiles:
        bad("wrong-command-line", "argv %r does not match command %r + %d "
            "file(s)" % (rec["argv"], argv0, nfiles))
    if conv == "stdin_stdout" and rec.get("stdin") is None:
        bad("wrong-convention", "formula not sent on stdin")
    if conv != "stdin_stdout" and rec.get("stdin"):
        bad("wrong-convention", "formula sent on stdin to a file solver")

    if rec.get("deadlock"):
        bad("deadlock", "the answer of a stdin solver was awaited before "
            "its standard input was closed: both sides wait for ever")
    if rec.get("early_exit"):
        ctx.probe("solver answered and exited before reading all its input")
    elif consistent:
        if "clauses" not in rec:
            bad("peer-got-no-formula", "peer state %r" % rec.get("peer"))
        if rec["n"] != n or [tuple(x) for x in rec["clauses"]] != clauses:
            bad("peer-got-wrong-formula", "received %r" % rec["received"])

    if learn:
        # return the full bytes the peer produced for cut enumeration
        if not consistent:
            return None
        if conv == "filein_fileout":
            return simproc.shape_minisat(
                rec["verdict"], rec["model"],
                case["installed"][name].get("shape", {}))[1]
        return simproc.shape_dimacs_output(
            rec["verdict"], rec["model"],
            case["installed"][name].get("shape", {}))

    if not consistent:
        # user error: only "never a wrong verdict, no foreign exception"
        if res[0] == "exc":
            if not _is_runtime_error(res[1]):
                bad_exc("failing-solver-not-RuntimeError", res[1])
            return None
        _check_verdict_only(res, c, ref_verdict, bad)
        return None

    # ---- fault plans on the peer -----------------------------------------
    fkind = plan.get("result_file") if conv == "filein_fileout" \
        else plan.get("stdout")
    if fkind in ("empty", "garbage", "unknown", "missing", "deleted"):
        if res[0] == "ok":
            bad("verdict-from-failing-solver", "solver gave no answer (%s)"
                % fkind)
        if not _is_runtime_error(res[1]):
            bad_exc("failing-solver-not-RuntimeError", res[1])
        return None
    if fkind == "nonascii":
        if res[0] == "exc":
            if not _is_runtime_error(res[1]):
                bad_exc("failing-solver-not-RuntimeError", res[1])
            return None
        # fall through: a full correct answer is fine
    if fkind == "cut":
        k = plan["cut_at"]
        full = plan["_full"]
        prefix = full[:k]
        if k >= len(full):
            ctx.probe("cut at end of output (no fault)")
        else:
            answered = _prefix_has_answer(prefix, conv)
            if res[0] == "exc":
                if not _is_runtime_error(res[1]):
                    bad_exc("failing-solver-not-RuntimeError", res[1])
                return None
            if not answered:
                bad("verdict-from-failing-solver", "solver died after %d of "
                    "%d bytes, before its answer line was complete: %r" %
                    (k, len(full), prefix[-40:]))
            ctx.probe("died after complete answer line")
            _check_verdict_only(res, c, ref_verdict, bad)
            _check_witness_if_any(res, c, rec, clauses, n, bad)
            return None

    # ---- a solver that gives the verdict but no model ---------------------
    if case["installed"][name].get("shape", {}).get("no_model") and \
            rec.get("verdict"):
        ctx.fault("solver_prints_no_model")
        if res[0] == "exc" and c["method"] == "is_satisfiable":
            # the verdict was given: is_satisfiable() needs nothing else
            bad_exc("verdict-withheld", res[1])
        if res[0] == "exc":
            if not _is_runtime_error(res[1]):
                bad_exc("failing-solver-not-RuntimeError", res[1])
            return None
        _check_verdict_only(res, c, ref_verdict, bad)
        _check_witness_if_any(res, c, rec, clauses, n, bad)
        return None

    # ---- well-behaved solver ---------------------------------------------
    if res[0] == "exc":
        bad_exc("exception-with-working-solver", res[1])
    val = res[1]
    if c["method"] == "is_satisfiable":
        if val is not ref_verdict:
            bad("wrong-verdict", "is_satisfiable() returned %r, solver said "
                "%r" % (val, ref_verdict))
        return None
    if not (isinstance(val, tuple) and len(val) == 2):
        bad("result-shape", "not a pair: %r" % (val,))
    verdict, A = val
    if verdict is not ref_verdict:
        bad("wrong-verdict", "returned %r, solver said %r" %
            (verdict, ref_verdict))
    if not ref_verdict:
        if A is not None:
            bad("witness-for-unsat", "%r" % (A,))
        return None
    if not isinstance(A, list):
        bad("sat-witness-not-a-list", "assignment is %r for a satisfiable "
            "formula with %d variables" % (A, n))
    if any(not isinstance(x, int) or isinstance(x, bool) for x in A):
        bad("sat-witness-not-ints", "%r" % (A,))
    if [abs(x) for x in A] != sorted(abs(x) for x in A):
        bad("witness-not-ordered-by-variable", "%r" % (A,))
    # the solver's model, possibly completed on variables that occur in no
    # clause (some solvers do not print those)
    occ = set(abs(l) for c in clauses for l in c)
    if not set(rec["model"]) <= set(A) or \
            len(set(abs(x) for x in A)) != len(A) or \
            any(not 1 <= abs(x) <= n for x in A) or \
            not occ <= set(abs(x) for x in A):
        bad("witness-differs-from-solver-model", "solver printed %r, got %r"
            % (rec["model"], A))
    if not cnfref.satisfies(clauses, A):
        bad("witness-does-not-satisfy", "%r" % (A,))
    return None


def _is_runtime_error(e):
    """The documented RuntimeError or a subclass made for the purpose (but
    not the interpreter's own RecursionError / NotImplementedError)."""
    return isinstance(e, RuntimeError) and not isinstance(
        e, (RecursionError, NotImplementedError))


def _check_witness_if_any(res, c, rec, clauses, n, bad):
    """A verdict may survive the death of the solver, a witness only if it
    is the complete assignment the solver printed."""
    val = res[1]
    if c["method"] == "is_satisfiable" or not (
            isinstance(val, tuple) and len(val) == 2 and val[0] is True):
        return
    A = val[1]
    occ = set(abs(l) for c in clauses for l in c)
    if not isinstance(A, list) or \
            [abs(x) for x in A] != sorted(set(abs(x) for x in A)) or \
            any(not 1 <= abs(x) <= n for x in A) or \
            not occ <= set(abs(x) for x in A) or \
            not cnfref.satisfies(clauses, A):
        bad("incomplete-witness-returned", "the solver did not deliver a "
            "complete model, yet solve() returned the assignment %r for a "
            "formula with %d variables" % (A, n))


def _check_verdict_only(res, c, ref_verdict, bad):
    val = res[1]
    v = val if c["method"] == "is_satisfiable" else (
        val[0] if isinstance(val, tuple) and len(val) == 2 else "?")
    if v is not ref_verdict:
        bad("wrong-verdict", "returned %r, reference verdict %r" %
            (val, ref_verdict))


def _prefix_has_answer(prefix, conv):
    """Does the surviving prefix contain a complete answer token?"""
    if conv == "filein_fileout":
        toks = prefix.split()
        if not toks:
            return False
        # the first token is complete if followed by whitespace, or if it is
        # the whole word (the word itself cannot be extended: SAT | UNSAT)
        first = toks[0]
        return first in (b"SAT", b"UNSAT")
    for line in prefix.replace(b"\r\n", b"\n").split(b"\n"):
        if line[:1] == b"s":
            t = line.split()
            if len(t) >= 2 and t[1] in (b"SATISFIABLE", b"UNSATISFIABLE"):
                return True
    return False


def _outcome_repr(res):
    if res[0] == "ok":
        return "ok:%r" % (res[1],)
    return "exc:%s" % type(res[1]).__name__


SHRINK_SKIP = {"convention", "help_rc"}
