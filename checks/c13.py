"""C13 - random k-CNF and k-XOR formulas have exactly the promised shape.

The generators run on the simulated PRNG (SimRandom): fair streams and a
bounded adversary (repeat / low / high / mix) that drives the rejection
sampler into its retry limit and the dense fallback at *any* m.  Every
adversarial outcome has positive probability in the real program.
"""
import itertools
import os

import cnfgen
from cnfgen import CNF
from cnfgen.formula.opb import OPB
from cnfgen.clitools.cmdline import CLIError
import cnfgen.clitools.msg as climsg
from cnfgen.clitools.cnfgen import cli as cnfgen_cli

from detsim.core import Violation, call, exc_signature
from detsim.refmodels import cnfref
from detsim.runner import REPO
from detsim.simrandom import SimRandom, adversary_from, installed

ID = "C13"
LEVEL = "exploration"
RULE = ("one run = 1-3 requests of one process sharing their argument "
        "objects, each a call of RandomKCNF / RandomKXOR (library, both "
        "formula classes, seed= given or not, 0-3 planted total assignments) "
        "or of 'cnfgen randkcnf|randkxor [-p] k n m' with (k,n,m) around the "
        "boundaries (k in 0..n+1, m in {0,1,mid,max-1,max,max+1,max+5}), on a "
        "fair or adversarial PRNG; seeds of every hashable kind (int, str, "
        "bytes, float, tuple, frozenset); planted assignments inside a "
        "list, tuple, iterator or generator; 2% of the library runs ask for "
        "n >= 2^63 - 1 variables (shape checked only); the command line also "
        "with k = 0 and n = 0. Non-trivial: the call succeeded with "
        "m >= 2 or was correctly refused at the boundary; distinct = "
        "distinct (arguments, PRNG seed, adversary).")
ASSUMPTIONS = ["n <= 7 (reference enumerates all clauses / parities and, for "
               "XOR, all 2^n assignments)",
               "planted assignments are total (partial ones are documented "
               "as undefined)"]
COMPONENTS = {"real": ["cnfgen.families.randomformulas / randomkxor",
                       "RandCmdHelper / RandXorHelper via cli()"],
              "stub": ["PRNG: SimRandom (fair Mersenne Twister or bounded "
                       "adversary)"]}
MANIFEST = {
    "text": "Deterministic simulation of the two random generators on a "
            "PRNG seam: fair streams plus a bounded adversary choosing "
            "legal-but-unlucky outcomes (repeated samples, extreme subsets) "
            "so that the sparse-sampling retry limit and the dense fallback "
            "are reached at every m; oracle: exhaustive reference "
            "enumeration of compatible clauses/parities (n <= 7), exact "
            "ValueError boundary, shape of every clause/parity block, model "
            "set of the linear system. Exploration by sampling.",
    "design_ref": "DESIGN.md 4.6",
    "note": "All adversarial draws lie in the support of the real "
            "distribution, so an alarm is a positive-probability execution; "
            "n <= 7.",
    "technique": "deterministic simulation with fault injection on the PRNG "
                 "seam (seeded fair streams + bounded adversary), reference "
                 "enumeration oracle",
}
CONFIGS = {
    "quick": [("kcnf", 30000), ("kxor", 20000), ("cli", 1500)],
    "thorough": [("kcnf", 10), ("kxor", 8), ("cli", 1)],
}
CHUNK = 250


def _ref_all_clauses(k, n, planted):
    out = []
    for dom in itertools.combinations(range(1, n + 1), k):
        for pol in itertools.product((-1, 1), repeat=k):
            c = tuple(p * v for p, v in zip(pol, dom))
            if all(any(l in a for l in c) for a in planted):
                out.append(c)
    return out


def _ref_all_parities(k, n, planted):
    out = []
    for X in itertools.combinations(range(1, n + 1), k):
        for b in (0, 1):
            if all(sum(1 for x in X if x in a) % 2 == b for a in planted):
                out.append((X, b))
    return out


HUGE_N = [2 ** 63 - 1, 2 ** 63, 2 ** 64 + 5, 10 ** 30]


def _seed_value(spec):
    """Seeds that JSON cannot spell are stored as {'kind':..,'value':..}."""
    if not isinstance(spec, dict):
        return spec
    v = spec["value"]
    return {"tuple": lambda: tuple(v), "frozenset": lambda: frozenset(v),
            "bytes": lambda: v.encode(), "bytearray": lambda: bytearray(
                v.encode()), "float": lambda: float(v)}[spec["kind"]]()


SEED_SPECS = [None, None, 0, 1, 42, "str", -7, 2 ** 70,
              {"kind": "tuple", "value": [1, 2]},
              {"kind": "tuple", "value": ["run", 3]},
              {"kind": "frozenset", "value": [1, 2, 3]},
              {"kind": "bytes", "value": "abc"},
              {"kind": "bytearray", "value": "abc"},
              {"kind": "float", "value": 2.5}]


def generate(rng, config):
    if config != "cli" and rng.random() < 0.02:
        # far beyond anything that can be enumerated: only shape is checked
        # (fair PRNG only: the dense fallback would enumerate for ever)
        strategy, budget = None, 0
        return {"kind": "kxor" if config == "kxor" else "kcnf",
                "k": rng.choice([0, 1, 2, 3]), "n": rng.choice(HUGE_N),
                "m": rng.randint(0, 3), "planted": [], "planted_form": "list",
                "planted_outer": "list", "klass": "CNF", "huge": True,
                "seed_arg": rng.choice([None, 3]),
                "prng": {"seed": rng.randrange(2 ** 32),
                         "strategy": strategy, "budget": budget}}
    n = rng.choice([0, 1, 2, 3, 3, 4, 4, 5, 6, 7])
    k = rng.choice(list(range(0, n + 2)))
    if os.environ.get("VERIF_TIER") == "thorough" and rng.random() < 0.1:
        n = rng.choice([8, 9, 10])
        k = rng.choice([0, 1, 2, 3, n, n + 1])
    if config == "cli":
        k = min(k, n + 1)
    nplant = rng.choice([0, 0, 0, 1, 1, 2, 3])
    planted = []
    for _ in range(nplant):
        if planted and rng.random() < 0.3:
            a = [-l for l in planted[-1]] if rng.random() < 0.5 \
                else list(planted[-1])
        else:
            a = [v if rng.random() < 0.5 else -v for v in range(1, n + 1)]
        planted.append(a)
    if config == "cli":
        planted = []
    sets = [set(a) for a in planted]
    kind = "kxor" if config == "kxor" else (
        "kcnf" if config == "kcnf" else rng.choice(["kcnf", "kxor"]))
    if k <= n:
        mx = len(_ref_all_clauses(k, n, sets)) if kind == "kcnf" else \
            len(_ref_all_parities(k, n, sets))
    else:
        mx = 0
    m = rng.choice([0, 1, mx // 2, max(0, mx - 1), mx, mx, mx + 1, mx + 5,
                    max(0, mx // 3), 2])
    if rng.random() < 0.04:
        # far more than there is: a refusal, and within a bounded number
        # of steps
        m = mx + rng.choice([10 ** 4, 10 ** 6, 10 ** 9, 10 ** 20])
    if kind == "kxor" and k >= 6:
        m = min(m, 6)
    strategy, budget = adversary_from(rng, p_none=0.4)
    form = rng.choice(["list", "list", "shuffled", "tuple", "set",
                       "frozenset"])
    if form == "shuffled":
        for a in planted:
            rng.shuffle(a)
    case = {"kind": kind, "k": k, "n": n, "m": m, "planted": planted,
            "planted_form": form,
            # the documented type is 'iterable(lists)': any iterable
            "planted_outer": rng.choice(["list", "list", "tuple", "iter",
                                         "generator"]),
            "klass": rng.choice(["CNF", "CNF", "OPB"]),
            # documented as "hashable object"
            "seed_arg": rng.choice(SEED_SPECS),
            "prng": {"seed": rng.randrange(2 ** 32), "strategy": strategy,
                     "budget": budget}}
    if config != "cli" and rng.random() < 0.3:
        # further requests of the same process, with the same argument
        # objects (the caller keeps its list of planted assignments)
        case["again"] = [rng.choice(["kcnf", "kxor"])
                         for _ in range(rng.choice([1, 1, 2]))]
    if config == "cli":
        case["cli"] = True
        case["plant"] = rng.random() < 0.5
        case["klass"] = "CNF"
        case["seed_arg"] = rng.choice([None, 7])
    return case


def execute(case, ctx):
    k, n, m = case["k"], case["n"], case["m"]
    planted = [list(a) for a in case["planted"]]
    klass = CNF if case["klass"] == "CNF" else OPB
    kw = {"formula_class": klass}
    if planted:
        conv = {"tuple": tuple, "set": set,
                "frozenset": frozenset}.get(case.get("planted_form"), list)
        outer = case.get("planted_outer", "list")
        items = [conv(a) for a in planted]
        kw["planted_assignments"] = {
            "list": lambda: items, "tuple": lambda: tuple(items),
            "iter": lambda: iter(items),
            "generator": lambda: (a for a in items)}[outer]()
        if outer in ("iter", "generator"):
            ctx.fault("planted_assignments_one_shot_iterable")
    if case["seed_arg"] is not None:
        kw["seed"] = _seed_value(case["seed_arg"])
    rounds = [case["kind"]] + (case.get("again") or [])
    if planted and case.get("planted_outer") in ("iter", "generator"):
        rounds = rounds[:1]          # a one-shot iterable serves one request
    for ri, kind in enumerate(rounds):
        if ri:
            ctx.fault("same_argument_objects_reused")
        _one_request(case, ctx, kind, ri, kw, planted)


def _one_request(case, ctx, kind, ri, kw, planted):
    k, n, m = case["k"], case["n"], case["m"]
    # a correct run needs at most 10*m sparse trials of (1 + k) draws plus
    # one dense sample: the progress bound scales with the request
    # (what the request can be granted at most bounds the work as well:
    # asking for 10**20 clauses out of 2 is refused, not tried for ever)
    import math
    most = 0 if k > n else math.comb(n, k) * (2 ** k if kind == "kcnf" else 2)
    sim = SimRandom(case["prng"]["seed"] + ri, case["prng"]["strategy"],
                    case["prng"]["budget"],
                    max_draws=20_000 + 25 * (min(m, most + 5) + 1) * (k + 2))
    fn = cnfgen.RandomKCNF if kind == "kcnf" else cnfgen.RandomKXOR
    climsg._prefix = ""
    with installed(sim):
        if case.get("cli"):
            argv = ["cnfgen"]
            if case["seed_arg"] is not None:
                argv += ["--seed", str(case["seed_arg"])]
            argv += ["randkcnf" if kind == "kcnf" else "randkxor"]
            if case["plant"]:
                argv.append("-p")
            argv += [str(k), str(n), str(m)]
            res = call(cnfgen_cli, argv, mode="formula")
            climsg._prefix = ""
            # with -p the tool plants ONE random total assignment; which one
            # is its own business (no assumption on how it is drawn): the
            # maximum does not depend on it, and the result must be
            # satisfied by *some* total assignment (checked below)
        else:
            res = call(fn, k, n, m, **kw)
    if sim.adversarial:
        ctx.fault("adversarial_draws", sim.adversarial)
        ctx.fault("adversary:%s" % case["prng"]["strategy"])
    ctx.log(kind, k, n, m, len(case["planted"]), case["klass"],
            case["prng"]["strategy"], case["prng"]["budget"], res[0],
            sim.draws)
    ctx.shape = (case["kind"], k, n, m, case["planted"], case["klass"],
                 case["prng"], case.get("cli"), case.get("plant"),
                 case.get("again"))
    where = "request %d: %s(k=%d,n=%d,m=%d) planted=%r class=%s prng=%r " \
        "cli=%r" % (ri, kind, k, n, m, planted, case["klass"], case["prng"],
                    case.get("cli", False))

    def bad(clause, detail):
        raise Violation("C13/%s/%s" % (kind, clause), "%s\n%s" %
                        (where, detail))

    if case.get("huge"):
        ctx.fault("n_beyond_2^63")
        ctx.nontrivial = True
        if k == 0:
            # no variable is involved: one empty clause, two empty parities
            mx0 = 1 if kind == "kcnf" else 2
            if m > mx0:
                if res[0] == "ok":
                    bad("impossible-request-accepted", "max is %d" % mx0)
                if not isinstance(res[1], ValueError):
                    raise Violation("C13/%s/wrong-error/%s" %
                                    (kind, exc_signature(res[1], REPO)),
                                    "%s\n%r" % (where, res[1]))
                return
        if res[0] == "exc":
            if isinstance(res[1], ValueError):
                bad("possible-request-refused", "m=%d is far below the "
                    "maximum but %r" % (m, res[1]))
            raise Violation("C13/%s/exception/%s" %
                            (kind, exc_signature(res[1], REPO)),
                            "%s\n%r" % (where, res[1]))
        F = res[1]
        cl = [tuple(c) for c in F]
        per = 1 if kind == "kcnf" else 2 ** (k - 1)
        if k == 0:
            if F.number_of_variables() != n or len(cl) > m or any(cl):
                bad("k0-shape", "%r" % (cl,))
            return
        if F.number_of_variables() != n or len(cl) != m * per:
            bad("clause-count", "%d variables, %d clauses" %
                (F.number_of_variables(), len(cl)))
        for c in cl:
            vs = [abs(l) for l in c]
            if len(set(vs)) != k or any(not 1 <= v <= n for v in vs):
                bad("clause-shape", "%r" % (c,))
        if len(set(frozenset(c) for c in cl)) != len(cl):
            bad("duplicate-clause", "%r" % (cl,))
        ctx.probe("request with n beyond 2^63")
        return

    unknown_plant = bool(case.get("cli") and case.get("plant") and k <= n)
    sets = [set(a) for a in planted]
    if k <= n:
        # one planted total assignment excludes exactly one clause (resp.
        # one of the two parities) per k-subset, whichever assignment it is
        probe = [set(range(1, n + 1))] if unknown_plant else sets
        allc = _ref_all_clauses(k, n, probe) if kind == "kcnf" else \
            _ref_all_parities(k, n, probe)
        mx = len(allc)
    else:
        mx = -1
    # dense fallback visible in the transcript: a final sample(max, m)
    if sim.transcript and sim.transcript[-1][0] == "sample" and \
            sim.transcript[-1][1] == (mx, m) and mx != n:
        ctx.probe("dense fallback taken")
        if m <= mx // 2:
            ctx.probe("dense fallback taken with m <= max/2")
    must_fail = (k > n) or (m > mx)
    errtype = (ValueError, CLIError) if case.get("cli") else (ValueError,)
    if must_fail:
        ctx.nontrivial = True
        ctx.probe("request beyond the maximum refused")
        if res[0] == "ok":
            bad("impossible-request-accepted", "max is %d" % mx)
        if not isinstance(res[1], errtype):
            raise Violation("C13/%s/wrong-error/%s" %
                            (kind, exc_signature(res[1], REPO)),
                            "%s\n%r" % (where, res[1]))
        return
    if res[0] == "exc":
        if isinstance(res[1], errtype):
            bad("possible-request-refused", "max is %d but %r" %
                (mx, res[1]))
        raise Violation("C13/%s/exception/%s" %
                        (kind, exc_signature(res[1], REPO)),
                        "%s\n%r" % (where, res[1]))
    F = res[1]
    if m == mx:
        ctx.probe("exactly the maximum delivered")
    ctx.nontrivial = m >= 2
    if F.number_of_variables() != n:
        bad("variable-count", "%d variables" % F.number_of_variables())
    if isinstance(F, OPB):
        clauses = []
        for con in F:
            if con[-2] != ">=" or con[-1] != 1 or \
                    any(c != 1 for c, _ in con[:-2]):
                bad("not-a-clause", "%r" % (con,))
            clauses.append(tuple(l for _, l in con[:-2]))
    else:
        clauses = [tuple(c) for c in F]
    if unknown_plant:
        if not cnfref.models(n, clauses, limit=1):
            bad("planted-formula-unsatisfiable", "-p was given but no total "
                "assignment satisfies %r" % (clauses,))
        ctx.probe("cli -p: a satisfying assignment exists")
    if kind == "kcnf":
        if len(clauses) != m:
            bad("clause-count", "%d clauses" % len(clauses))
        seen = set()
        for c in clauses:
            vs = [abs(l) for l in c]
            if len(c) != k or len(set(vs)) != k or \
                    any(not 1 <= v <= n for v in vs) or \
                    any(type(l) is not int for l in c):
                bad("clause-shape", "%r is not over %d distinct variables "
                    "of 1..%d" % (c, k, n))
            fs = frozenset(c)
            if fs in seen:
                bad("duplicate-clause", "%r occurs twice: %r" % (c, clauses))
            seen.add(fs)
            for a in sets:
                if not any(l in a for l in c):
                    bad("planted-assignment-falsifies", "%r under %r" %
                        (c, sorted(a, key=abs)))
        return
    # ---- XOR ------------------------------------------------------------
    if k == 0:
        if len(clauses) > m or any(len(c) for c in clauses):
            bad("k0-shape", "%r" % (clauses,))
        ctx.note("k=0 parity (gray zone): only shape checked")
        return
    per = 2 ** (k - 1)
    if len(clauses) != m * per:
        bad("clause-count", "%d clauses, expected %d blocks of %d" %
            (len(clauses), m, per))
    parities = []
    for i in range(m):
        block = clauses[i * per:(i + 1) * per]
        X = tuple(sorted(abs(l) for l in block[0]))
        if len(set(X)) != k or any(not 1 <= v <= n for v in X):
            bad("parity-shape", "block %d: %r" % (i, block[0]))
        bs = set()
        distinct = set()
        for c in block:
            if tuple(sorted(abs(l) for l in c)) != X:
                bad("parity-block-mixed", "block %d: %r" % (i, block))
            neg = sum(1 for l in c if l < 0)
            bs.add((neg + 1) % 2)
            distinct.add(frozenset(c))
        if len(bs) != 1 or len(distinct) != per:
            bad("parity-block-not-canonical", "block %d: %r" % (i, block))
        parities.append((X, bs.pop()))
    if len(set(parities)) != m:
        bad("duplicate-parity", "%r" % (parities,))
    for X, b in parities:
        for a in sets:
            if sum(1 for x in X if x in a) % 2 != b:
                bad("planted-assignment-falsifies", "parity %r=%d under %r" %
                    (X, b, sorted(a, key=abs)))
    if n <= 6:
        got = set(cnfref.models(n, clauses))
        want = set()
        for bits in itertools.product((False, True), repeat=n):
            if all(sum(1 for x in X if bits[x - 1]) % 2 == b
                   for X, b in parities):
                want.add(tuple((i + 1) if t else -(i + 1)
                               for i, t in enumerate(bits)))
        if got != want:
            bad("models-differ-from-linear-system", "%d models vs %d "
                "solutions" % (len(got), len(want)))
        ctx.probe("model set compared with the linear system")
