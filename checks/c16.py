"""C16 - graph objects stay consistent under any sequence of updates.

Histories of add_edge / add_edges_from / remove_edge / update_vertex_number
(valid, duplicate, reversed and invalid arguments) on Graph, DirectedGraph,
BipartiteGraph and CompleteBipartiteGraph; after *every* operation every
view is compared with a set-of-edges reference model.  The "faults" of this
simulation are refused operations in the middle of a history.
"""
from cnfgen.graphs import (BipartiteGraph, CompleteBipartiteGraph,
                           DirectedGraph, Graph)

from detsim.core import Violation, call, exc_signature
from detsim.refmodels.graphref import RefBipartite, RefDirected, RefSimple
from detsim.runner import REPO
from checks import graphviews

ID = "C16"
LEVEL = "exploration"
RULE = ("one run = one history of <= 40 update operations on one graph "
        "object (type, initial size 0..33 and constructor sampled; growth up "
        "to 40 vertices; networkx import with arbitrary node order and a "
        "drawn labelling: ints, floats, gaps, negative, strings, mixed; "
        "4% of the vertex arguments are not integers: floats, strings, "
        "None; batches of add_edges_from as any iterable; copy / deepcopy / "
        "pickle of the graph in mid-history), "
        "all "
        "views "
        "compared with a set-of-edges model after every operation. "
        "Non-trivial: the history contains at least one successful mutation "
        "and at least one refused or duplicate operation; distinct = "
        "distinct (type, size, operation list).")
ASSUMPTIONS = ["vertex arguments are integers (non-integer arguments are a "
               "gray zone)", "sizes <= 33 initial, <= 40 after growth"]
COMPONENTS = {"real": ["cnfgen.graphs.Graph / DirectedGraph / BipartiteGraph"
                       " / CompleteBipartiteGraph and the three EdgeList "
                       "views", "networkx conversion"],
              "stub": []}
MANIFEST = {
    "text": "Seeded histories (<=40 operations incl. refused, duplicate and "
            "reversed ones) on every graph class, with all views compared "
            "against a set-of-edges reference model after every operation "
            "and networkx round trips; exploration by sampling, ~20k "
            "histories per quick run.",
    "design_ref": "DESIGN.md 4.9",
    "note": "Integer vertex arguments only; sizes <= 12. Trusted: the "
            "set-of-edges reference model (detsim/refmodels/graphref.py).",
    "technique": "deterministic simulation: seeded operation histories with "
                 "refused operations as faults, model-based oracle after "
                 "every step, ddmin replay",
}
CONFIGS = {
    "quick": [("simple", 16000), ("digraph", 10000), ("bipartite", 10000)],
    "thorough": [("simple", 4), ("digraph", 3), ("bipartite", 3)],
}
CHUNK = 300


def _isint(x):
    return isinstance(x, int) and not isinstance(x, bool)


def _vertex(rng, n):
    r = rng.random()
    if r < 0.80 and n >= 1:
        return rng.randint(1, n)
    if r < 0.84:
        # "arbitrary (valid or invalid) arguments": not even an integer
        return rng.choice([1.0, 2.0, 2.5, 1.5, "1", None, float(n)])
    return rng.choice([0, -1, n + 1, n + 2, -n, 1])


def generate(rng, config):
    case = {"type": config}
    nops = rng.choice([1, 2, 3, 5, 8, 12, 20, 30, 40])
    if config == "bipartite":
        L = rng.choice([0, 1, 2, 3, 4, 5, 6, 10, 12, 17])
        R = rng.choice([0, 1, 2, 3, 4, 5, 6, 10, 11, 16])
        case["L"], case["R"] = L, R
        case["ctor"] = rng.choice(["plain", "plain", "plain", "complete"])
        dims = (L, R)
    else:
        n = rng.choice([0, 1, 2, 3, 4, 5, 6, 7, 8, 8, 10, 11, 16, 17, 33])
        case["n"] = n
        if config == "simple":
            case["ctor"] = rng.choice(["plain", "plain", "plain", "complete",
                                       "star", "empty", "null"])
            if case["ctor"] == "null":
                case["n"] = n = 0
            if case["ctor"] == "star":
                n = n + 1
        else:
            case["ctor"] = "plain"
        dims = (n, n)
    ops = []
    cur = list(dims)
    added = []
    for _ in range(nops):
        r = rng.random()
        if r < 0.50:
            if added and rng.random() < 0.25:
                u, v = rng.choice(added)
                if rng.random() < 0.5:
                    u, v = v, u
            else:
                u, v = _vertex(rng, cur[0]), _vertex(rng, cur[1])
            ops.append({"op": "add_edge", "u": u, "v": v})
            added.append((u, v))
        elif r < 0.62:
            es = []
            for _ in range(rng.choice([0, 1, 2, 3, 5])):
                es.append([_vertex(rng, cur[0]), _vertex(rng, cur[1])])
            ops.append({"op": "add_edges_from", "edges": es,
                        # the batch is "any iterable of pairs"
                        "form": rng.choice(["list", "list", "tuple",
                                            "generator", "iter", "zip",
                                            "lists", "dictkeys"])})
            added.extend((a, b) for a, b in es)
        elif r < 0.82 and config == "simple":
            if added and rng.random() < 0.7:
                u, v = rng.choice(added)
                if rng.random() < 0.4:
                    u, v = v, u
            else:
                u, v = _vertex(rng, cur[0]), _vertex(rng, cur[1])
            ops.append({"op": "remove_edge", "u": u, "v": v})
        elif r < 0.92 and config == "simple":
            k = rng.choice([0, cur[0] - 1, cur[0], cur[0] + 1, cur[0] + 2,
                            -1, 3])
            ops.append({"op": "grow", "n": k})
            if k > cur[0] and k <= 40:
                cur[0] = cur[1] = k
            elif k > 40:
                ops[-1]["n"] = 40
                cur[0] = cur[1] = max(cur[0], 40)
        else:
            ops.append({"op": "noop_read"})
        if rng.random() < 0.08:
            ops.append({"op": "nx_import", "seed": rng.randrange(2 ** 30)})
        if rng.random() < 0.03:
            # the history goes on with a copy of the graph object
            ops.append({"op": "copy", "how": rng.choice(["deepcopy",
                                                         "pickle", "copy"])})
    case["ops"] = ops
    return case


def _construct(case):
    t = case["type"]
    if t == "simple":
        n = case["n"]
        c = case["ctor"]
        if c == "complete":
            G = Graph.complete_graph(n)
            ref = RefSimple(n)
            for u in range(1, n + 1):
                for v in range(u + 1, n + 1):
                    ref.add(u, v)
        elif c == "star":
            G = Graph.star_graph(n)
            ref = RefSimple(n + 1)
            for u in range(1, n + 1):
                ref.add(u, n + 1)
        elif c == "empty":
            G = Graph.empty_graph(n)
            ref = RefSimple(n)
        elif c == "null":
            G = Graph.null_graph()
            ref = RefSimple(0)
        else:
            G = Graph(n)
            ref = RefSimple(n)
        return G, ref
    if t == "digraph":
        return DirectedGraph(case["n"]), RefDirected(case["n"])
    L, R = case["L"], case["R"]
    if case["ctor"] == "complete":
        ref = RefBipartite(L, R)
        for u in range(1, L + 1):
            for v in range(1, R + 1):
                ref.add(u, v)
        return CompleteBipartiteGraph(L, R), ref
    return BipartiteGraph(L, R), RefBipartite(L, R)


def _nx_import(klass, ref, seed, bad, bad_exc, ctx):
    """from_networkx of a networkx graph holding the model's edges, with
    nodes inserted in arbitrary order and edges in arbitrary orientation."""
    import random as _r
    import networkx
    rr = _r.Random(seed)
    E = ref.edges()
    if ref.kind == "bipartite":
        N = networkx.Graph()
        left = [("L", u) for u in range(1, ref.L + 1)]
        right = [("R", v) for v in range(1, ref.R + 1)]
        nodes = left + right
        rr.shuffle(nodes)
        for x in nodes:
            N.add_node(x, bipartite=0 if x[0] == "L" else 1)
        es = [(("L", u), ("R", v)) for u, v in E]
        rr.shuffle(es)
        for a, b in es:
            if rr.random() < 0.5:
                a, b = b, a
            N.add_edge(a, b)
        # "if the vertices have some kind of order, the order is
        # preserved": numbering inside each side follows the sorted labels,
        # as for simple and directed graphs, whatever the insertion order
        lorder = sorted(x for x in N.nodes() if x[0] == "L")
        rorder = sorted(x for x in N.nodes() if x[0] == "R")
        li = {x: i for i, x in enumerate(lorder, start=1)}
        ri = {x: i for i, x in enumerate(rorder, start=1)}
        want = sorted((li[("L", u)], ri[("R", v)]) for u, v in E)
        from cnfgen.graphs import BipartiteGraph
        r = call(BipartiteGraph.from_networkx, N)
        if r[0] == "exc":
            bad_exc("from_networkx-any-node-order", r[1])
        B = r[1]
        got = [tuple(e) for e in B.edges()]
        if (B.left_order(), B.right_order()) != (ref.L, ref.R) or \
                got != want:
            bad("from_networkx-any-node-order", "nodes %r edges %r gave "
                "(%d,%d) %r, expected %r" %
                (list(N.nodes()), list(N.edges()), B.left_order(),
                 B.right_order(), got, want))
    else:
        N = networkx.DiGraph() if ref.kind == "digraph" else networkx.Graph()
        # the labels of the networkx graph are the caller's: any sortable
        # labelling is renumbered 1..n in sorted order
        labelling = rr.choice(["int", "int", "float", "gap", "negative",
                               "str", "mixed", "fraction"])
        lab = {"int": lambda v: v, "float": float,
               "gap": lambda v: 3 * v + 7,
               "negative": lambda v: v - ref.n - 5,
               "str": lambda v: "v%04d" % v,
               "mixed": lambda v: float(v) if v % 2 else v,
               "fraction": lambda v: v + 0.5}[labelling]
        nodes = [lab(v) for v in range(1, ref.n + 1)]
        rr.shuffle(nodes)
        N.add_nodes_from(nodes)
        es = list(E)
        rr.shuffle(es)
        for a, b in es:
            if ref.kind == "simple" and rr.random() < 0.5:
                a, b = b, a
            N.add_edge(lab(a), lab(b))
        ctx.probe("networkx import, labels: " + labelling)
        r = call(klass.from_networkx, N)
        if r[0] == "exc":
            bad_exc("from_networkx-any-node-order", r[1])
        got = [tuple(e) for e in r[1].edges()]
        if r[1].number_of_vertices() != ref.n or got != E:
            bad("from_networkx-any-node-order", "nodes %r edges %r gave %d "
                "vertices %r, expected %r" %
                (list(N.nodes()), list(N.edges()),
                 r[1].number_of_vertices(), got, E))
    ctx.probe("networkx import with arbitrary node order")


def execute(case, ctx):
    t = case["type"]
    G, ref = _construct(case)
    complete = (t == "bipartite" and case.get("ctor") == "complete")
    step = [0, None]

    def bad(view, detail):
        raise Violation("C16/%s/%s" % (t if not complete else "cbipartite",
                                        view),
                        "after step %d (%r): %s; model=%r" %
                        (step[0], step[1], detail, ref.state()))

    def bad_exc(view, e):
        raise Violation("C16/%s/%s/%s" % (t, view, exc_signature(e, REPO)),
                        "after step %d (%r): %r; model=%r" %
                        (step[0], step[1], e, ref.state()))

    graphviews.compare(G, ref, bad, bad_exc, deep=True)
    mutated = refused = 0
    for i, op in enumerate(case["ops"], start=1):
        step[0], step[1] = i, op
        kind = op["op"]
        before = ref.state()
        if kind == "add_edge":
            u, v = op["u"], op["v"]
            r = call(G.add_edge, u, v)
            if ref.valid(u, v):
                if r[0] == "exc":
                    bad_exc("add_edge", r[1])
                if ref.has(u, v):
                    refused += 1
                    ctx.fault("duplicate_insertion")
                ref.add(u, v)
                mutated += 1
            else:
                refused += 1
                ctx.fault("refused_insertion")
                if r[0] == "ok":
                    bad("invalid-insertion-accepted",
                        "add_edge(%r,%r) did not raise" % (u, v))
                elif not isinstance(r[1], ValueError) and not (
                        isinstance(r[1], TypeError) and not (
                            _isint(u) and _isint(v))):
                    # (a TypeError is a fair refusal of a non-integer)
                    bad_exc("invalid-insertion-wrong-error", r[1])
                if not (_isint(u) and _isint(v)):
                    ctx.fault("non_integer_vertex")
        elif kind == "add_edges_from":
            es = [tuple(e) for e in op["edges"]]
            form = op.get("form", "list")
            arg = {"list": lambda: list(es), "tuple": lambda: tuple(es),
                   "generator": lambda: (e for e in es),
                   "iter": lambda: iter(es),
                   "zip": lambda: zip([e[0] for e in es],
                                      [e[1] for e in es]),
                   "lists": lambda: [list(e) for e in es],
                   "dictkeys": lambda: dict.fromkeys(es).keys()}[form]()
            if form == "dictkeys":
                es = list(dict.fromkeys(es))
            if form in ("generator", "iter", "zip"):
                ctx.fault("one_shot_iterable_argument")
            r = call(G.add_edges_from, arg)
            ok = True
            for (u, v) in es:
                if ref.valid(u, v):
                    ref.add(u, v)
                    mutated += 1
                else:
                    ok = False
                    refused += 1
                    ctx.fault("refused_insertion_mid_batch")
                    break
            if ok and r[0] == "exc":
                bad_exc("add_edges_from", r[1])
            if not ok:
                if r[0] == "ok":
                    bad("invalid-insertion-accepted",
                        "add_edges_from(%r) did not raise" % (es,))
                elif not isinstance(r[1], ValueError) and not (
                        isinstance(r[1], TypeError) and not (
                            _isint(u) and _isint(v))):
                    bad_exc("invalid-insertion-wrong-error", r[1])
        elif kind == "remove_edge":
            u, v = op["u"], op["v"]
            r = call(G.remove_edge, u, v)
            if r[0] == "exc":
                if ref.valid(u, v) or not (
                        isinstance(r[1], ValueError) or (
                            isinstance(r[1], TypeError) and not (
                                _isint(u) and _isint(v)))):
                    bad_exc("remove_edge", r[1])
            if ref.valid(u, v) and ref.has(u, v):
                ref.remove(u, v)
                mutated += 1
                ctx.probe("edge removed")
            else:
                refused += 1
                ctx.fault("removal_of_absent_edge")
        elif kind == "grow":
            k = op["n"]
            r = call(G.update_vertex_number, k)
            if k < 0:
                refused += 1
                ctx.fault("refused_growth")
                if r[0] == "ok" or not isinstance(r[1], ValueError):
                    bad("negative-growth-accepted", "%r" % (r[1],))
            else:
                if r[0] == "exc":
                    bad_exc("update_vertex_number", r[1])
                if k > ref.n:
                    ref.n = k
                    mutated += 1
                    ctx.probe("vertex count raised")
                else:
                    refused += 1
        elif kind == "nx_import":
            _nx_import(type(G), ref, op["seed"], bad, bad_exc, ctx)
        elif kind == "copy":
            import copy as _copy
            import pickle as _pickle
            if op["how"] == "pickle":
                r = call(lambda: _pickle.loads(_pickle.dumps(G)))
            elif op["how"] == "copy":
                # a shallow copy shares its containers with the original:
                # it is only looked at, the history stays with the original
                r = call(_copy.copy, G)
            else:
                r = call(_copy.deepcopy, G)
            if r[0] == "exc":
                ctx.note("graph cannot be copied with %s (%s)" %
                         (op["how"], type(r[1]).__name__))
            elif op["how"] == "copy":
                graphviews.compare(r[1], ref, bad, bad_exc, deep=False)
                ctx.probe("shallow copy compared")
            else:
                G = r[1]
                ctx.fault("graph_replaced_by_its_copy:" + op["how"])
        ctx.log(i, kind, {k: v for k, v in op.items() if k != "op"},
                ref.state() != before)
        graphviews.compare(G, ref, bad, bad_exc, deep=(i % 4 == 0 or
                                                       i == len(case["ops"])))
    ctx.shape = (t, case.get("ctor"), case.get("n"), case.get("L"),
                 case.get("R"), case["ops"])
    ctx.nontrivial = mutated > 0 and refused > 0
