"""Grammar of command lines for cnfgen / pbgen / cnfshuffle / kthlist2pebbling.

The registry is data: one entry per sub-command with a generator of argument
tokens (small sizes) and whether it consumes randomness.  ``registry_gaps()``
compares it with the helpers the installed cnfgen actually offers, so a
sub-command added later shows up as uncovered in the evidence.
"""

SIMPLE_RANDOM = ("gnp", "gnm", "gnd")
BIP_RANDOM = ("glrp", "glrm", "glrd", "regular")


def simple_graph(rng, nmax=6, random_ok=True, mods=True, files=None,
                 force=None):
    """tokens, uses_randomness"""
    files = files or {}
    pool = ["grid", "torus", "complete", "empty", "complete2"]
    if random_ok:
        pool += ["gnp", "gnm", "gnd", "gnp", "gnm", "gnd", "gnpt"]
    if files.get("simple"):
        pool += ["file", "file"]
    c = force or rng.choice(pool)
    rnd = False
    n = rng.randint(2, nmax)
    if c == "gnp":
        toks = ["gnp", n, rng.choice([0.3, 0.5, ".7", 1, 0])]
        rnd = True
    elif c == "gnpt":
        toks = ["gnp", rng.randint(1, 3), 0.5, rng.randint(2, 3)]
        rnd = True
    elif c == "gnm":
        toks = ["gnm", n, rng.randint(0, n * (n - 1) // 2)]
        rnd = True
    elif c == "gnd":
        n = rng.randint(3, max(3, nmax))
        d = rng.choice([x for x in range(1, n) if (x * n) % 2 == 0] or [2])
        d = min(d, 4)
        if (n * d) % 2:
            d = 2
        toks = ["gnd", n, d]
        rnd = True
    elif c in ("grid", "torus"):
        dims = [rng.randint(1, 3) for _ in range(rng.choice([1, 2, 2]))]
        if c == "torus":
            dims = [max(3, d) for d in dims][:2]
            if len(dims) == 2:
                dims[1] = 3
        toks = [c] + dims
    elif c == "complete":
        toks = ["complete", n]
    elif c == "complete2":
        toks = ["complete", rng.randint(1, 2), rng.randint(2, 3)]
    elif c == "empty":
        toks = ["empty", n]
    else:
        fname, fmt = rng.choice(files["simple"])
        toks = [fname] if rng.random() < 0.5 and fname.endswith("." + fmt) \
            else [fmt, fname]
        return [str(t) for t in toks], False
    if mods and rng.random() < 0.35:
        opts = ["plantclique", "addedges", "splitedges"]
        rng.shuffle(opts)
        for o in opts[:rng.choice([1, 1, 2])]:
            if o == "plantclique":
                toks += [o, rng.randint(0, 2)]
                rnd = True
            elif o == "addedges":
                toks += [o, rng.choice([0, 0, 1])]
                rnd = True
            else:
                toks += [o, 0]
                rnd = True
    return [str(t) for t in toks], rnd


def bipartite_graph(rng, nmax=5, random_ok=True, mods=True, files=None,
                    force=None):
    files = files or {}
    pool = ["shift", "complete", "empty"]
    if random_ok:
        pool += ["glrp", "glrm", "glrd", "regular"] * 2
    if files.get("bipartite"):
        pool += ["file", "file"]
    c = force or rng.choice(pool)
    L, R = rng.randint(1, nmax), rng.randint(1, nmax)
    rnd = c in BIP_RANDOM
    if c == "glrp":
        toks = [c, L, R, rng.choice([0.3, 0.5, 1, 0])]
    elif c == "glrm":
        toks = [c, L, R, rng.randint(0, L * R)]
    elif c == "glrd":
        toks = [c, L, R, rng.randint(0, R)]
    elif c == "regular":
        ds = [d for d in range(0, R + 1) if (d * L) % R == 0]
        toks = [c, L, R, rng.choice(ds)]
    elif c == "shift":
        pat = sorted(rng.sample(range(0, R), rng.randint(0, min(R, 3))))
        toks = [c, L, R] + pat
    elif c in ("complete", "empty"):
        toks = [c, L, R]
    else:
        fname, fmt = rng.choice(files["bipartite"])
        toks = [fname] if rng.random() < 0.5 and fname.endswith("." + fmt) \
            else [fmt, fname]
        return [str(t) for t in toks], False
    if mods and rng.random() < 0.3 and c != "complete":
        if rng.random() < 0.5:
            toks += ["plantbiclique", rng.randint(0, min(L, 2)),
                     rng.randint(0, min(R, 2))]
        else:
            toks += ["addedges", 0]
        rnd = True
    return [str(t) for t in toks], rnd


def dag_graph(rng, hmax=3, files=None, force=None):
    files = files or {}
    pool = ["path", "tree", "pyramid"]
    if files.get("dag"):
        pool += ["file", "file"]
    c = force or rng.choice(pool)
    if c == "file":
        fname, fmt = rng.choice(files["dag"])
        toks = [fname] if rng.random() < 0.5 and fname.endswith("." + fmt) \
            else [fmt, fname]
        return [str(t) for t in toks], False
    return [c, str(rng.randint(0, hmax))], False


SIMPLE_CONSTRUCTIONS = ["gnp", "gnpt", "gnm", "gnd", "grid", "torus",
                        "complete", "complete2", "empty"]
BIPARTITE_CONSTRUCTIONS = ["glrp", "glrm", "glrd", "regular", "shift",
                           "complete", "empty"]
DAG_CONSTRUCTIONS = ["path", "tree", "pyramid"]


def graph_command(rng):
    """A command line centred on one graph construction, each construction
    of each graph type equally likely (for the boundary enumeration, which
    has few runs and must not leave a construction out)."""
    kind = rng.choice(["simple", "simple", "bipartite", "bipartite", "dag"])
    if kind == "simple":
        g, r = simple_graph(rng, 6, mods=rng.random() < 0.3,
                            force=rng.choice(SIMPLE_CONSTRUCTIONS))
        fam = rng.choice([["kcolor", "2"], ["tseitin", "first"], ["domset",
                                                                  "1"]])
    elif kind == "bipartite":
        g, r = bipartite_graph(rng, 5, mods=rng.random() < 0.3,
                               force=rng.choice(BIPARTITE_CONSTRUCTIONS))
        fam = rng.choice([["php"], ["subsetcard"]])
    else:
        g, r = dag_graph(rng, 3, force=rng.choice(DAG_CONSTRUCTIONS))
        fam = rng.choice([["peb"], ["stone", "2"]])
    return fam + g, r


# name -> generator(rng, files) -> (tokens, uses_randomness)
FORMULAS = {}


def cmd(name):
    def deco(fn):
        FORMULAS[name] = fn
        return fn
    return deco


@cmd("and")
def _and(rng, files):
    return [rng.randint(0, 3), rng.randint(0, 3)], False


@cmd("or")
def _or(rng, files):
    return [rng.randint(0, 3), rng.randint(0, 2)], False


@cmd("true")
def _true(rng, files):
    return [], False


@cmd("false")
def _false(rng, files):
    return [], False


@cmd("bphp")
def _bphp(rng, files):
    return [rng.randint(1, 5), rng.randint(1, 5)], False


@cmd("cliquecoloring")
def _cc(rng, files):
    return [rng.randint(0, 4), rng.randint(1, 3), rng.randint(1, 3)], False


@cmd("count")
def _count(rng, files):
    return [rng.randint(0, 6), rng.randint(1, 3)], False


@cmd("cpls")
def _cpls(rng, files):
    return [rng.randint(1, 2), rng.choice([1, 2, 4]), rng.choice([1, 2])], \
        False


@cmd("dimacs")
def _dimacs(rng, files):
    if files.get("cnf"):
        return [rng.choice(files["cnf"])], False
    return None


@cmd("domset")
def _domset(rng, files):
    g, r = simple_graph(rng, 5, files=files)
    pre = ["--alternative"] if rng.random() < 0.4 else []
    return pre + [rng.randint(1, 3)] + g, r


@cmd("ec")
def _ec(rng, files):
    c = rng.choice(["torus 3 3", "complete 5", "complete 3", "empty 4",
                    "gnd 6 2", "gnd 6 4", "grid 1"])
    return c.split(), c.startswith("gnd")


@cmd("iso")
def _iso(rng, files):
    g, r = simple_graph(rng, 4, files=files)
    if rng.random() < 0.5:
        g2, r2 = simple_graph(rng, 4, files=files)
        return g + ["-e"] + g2, r or r2
    return g, r


@cmd("kclique")
def _kclique(rng, files):
    g, r = simple_graph(rng, 6, files=files)
    post = ["--no-symmetry-breaking"] if rng.random() < 0.3 else []
    return [rng.randint(0, 3)] + g + post, r


@cmd("kcliquebin")
def _kcliquebin(rng, files):
    g, r = simple_graph(rng, 6, files=files)
    return [rng.randint(1, 3)] + g, r


@cmd("kcolor")
def _kcolor(rng, files):
    g, r = simple_graph(rng, 7, files=files)
    return [rng.randint(1, 4)] + g, r


@cmd("matching")
def _matching(rng, files):
    return simple_graph(rng, 6, files=files)


@cmd("op")
def _op(rng, files):
    opts = []
    if rng.random() < 0.5:
        opts.append(rng.choice(["--total", "--smart", "--knuth2", "--knuth3",
                                "-t", "-s"]))
    if rng.random() < 0.3:
        opts.append("--plant")
    r = rng.random()
    if r < 0.4:
        return opts + [rng.randint(0, 6)], False
    if r < 0.6:
        n = rng.randint(4, 7)
        d = rng.choice([x for x in (2, 3, 4) if x < n and (x * n) % 2 == 0])
        return opts + [n, d], True
    g, rr = simple_graph(rng, 6, files=files)
    return opts + g, rr


@cmd("parity")
def _parity(rng, files):
    return [rng.randint(0, 6)], False


@cmd("peb")
def _peb(rng, files):
    return dag_graph(rng, 3, files=files)


@cmd("php")
def _php(rng, files):
    opts = []
    if rng.random() < 0.3:
        opts.append("--functional")
    if rng.random() < 0.3:
        opts.append("--onto")
    r = rng.random()
    if r < 0.2:
        return opts + [rng.randint(0, 5)], False
    if r < 0.5:
        return opts + [rng.randint(0, 6), rng.randint(0, 5)], False
    if r < 0.7:
        h = rng.randint(1, 5)
        d = rng.randint(0, h)
        return opts + [rng.randint(1, 6), h, d], d != h
    g, rr = bipartite_graph(rng, 5, files=files)
    return g + opts, rr


@cmd("pitfall")
def _pitfall(rng, files):
    v = rng.choice([4, 6])
    return [v, rng.choice([2, 3]), rng.randint(2, 3), rng.randint(2, 3),
            2], True


@cmd("ptn")
def _ptn(rng, files):
    return [rng.randint(0, 30)], False


@cmd("ram")
def _ram(rng, files):
    return [rng.randint(1, 4), rng.randint(1, 4), rng.randint(0, 6)], False


@cmd("ramlb")
def _ramlb(rng, files):
    g, r = simple_graph(rng, 5, files=files)
    return [rng.randint(0, 3), rng.randint(0, 3)] + g, r


@cmd("randkcnf")
def _randkcnf(rng, files):
    n = rng.randint(1, 8)
    k = rng.randint(1, min(n, 3))
    pre = ["-p"] if rng.random() < 0.3 else []
    return pre + [k, n, rng.randint(0, 8)], True


@cmd("randkxor")
def _randkxor(rng, files):
    n = rng.randint(1, 8)
    k = rng.randint(1, min(n, 3))
    pre = ["-p"] if rng.random() < 0.3 else []
    return pre + [k, n, rng.randint(0, min(6, n))], True


@cmd("rphp")
def _rphp(rng, files):
    return [rng.randint(0, 4), rng.randint(0, 4), rng.randint(0, 4)], False


@cmd("stone")
def _stone(rng, files):
    g, r = dag_graph(rng, 2, files=files)
    s = rng.randint(1, 3)
    if rng.random() < 0.3:
        return [s] + g + ["--sparse", rng.randint(1, s)], True
    return [s] + g, r


@cmd("subgraph")
def _subgraph(rng, files):
    g, r1 = simple_graph(rng, 5, files=files)
    h, r2 = simple_graph(rng, 3, files=files)
    return ["-G"] + g + ["-H"] + h, r1 or r2


@cmd("subsetcard")
def _subsetcard(rng, files):
    pre = ["--equal"] if rng.random() < 0.4 else []
    if rng.random() < 0.4:
        n = rng.randint(3, 6)
        d = rng.randint(1, min(3, n - 1))
        return pre + [n, d], True
    g, r = bipartite_graph(rng, 5, files=files)
    return pre + g, r


@cmd("tiling")
def _tiling(rng, files):
    return simple_graph(rng, 6, files=files)


@cmd("tseitin")
def _tseitin(rng, files):
    if rng.random() < 0.35:
        n = rng.randint(5, 8)
        d = rng.choice([x for x in (2, 3, 4) if (x * n) % 2 == 0])
        if rng.random() < 0.3 and n % 2 == 0 and n > 4:
            return [n], True
        return [n, d], True
    charge = rng.choice(["first", "random", "randomodd", "randomeven",
                         "zero", "one"])
    g, r = simple_graph(rng, 6, files=files)
    # bound the degree: 2^(deg-1) clauses per vertex
    if g[0] in ("complete", "gnp", "gnm") and int(float(g[1])) > 6:
        g[1] = "6"
    return [charge] + g, r or charge.startswith("random")


@cmd("vdw")
def _vdw(rng, files):
    ks = [rng.randint(2, 4) for _ in range(rng.choice([2, 2, 3]))]
    return [rng.randint(0, 10)] + ks, False


TRANSFORMS = {
    "none": lambda rng: ([], False),
    "flip": lambda rng: ([], False),
    "ite": lambda rng: ([], False),
    "shuffle": lambda rng: (rng.sample(["-p", "-v", "-c"],
                                       rng.randint(0, 2)), True),
    "or": lambda rng: ([rng.randint(1, 2)], False),
    "xor": lambda rng: ([rng.randint(1, 2)], False),
    "eq": lambda rng: ([rng.randint(1, 3)], False),
    "neq": lambda rng: ([rng.randint(1, 3)], False),
    "maj": lambda rng: ([rng.randint(1, 3)], False),
    "one": lambda rng: ([rng.randint(1, 3)], False),
    "lift": lambda rng: ([rng.randint(1, 2)], False),
    "atleast": lambda rng: ([rng.randint(1, 3), rng.randint(1, 3)], False),
    "atmost": lambda rng: ([rng.randint(1, 3), rng.randint(1, 3)], False),
    "exact": lambda rng: ([rng.randint(1, 3), rng.randint(1, 3)], False),
    "anybut": lambda rng: ([rng.randint(1, 3), rng.randint(1, 3)], False),
    "xorcomp": lambda rng: ([rng.randint(2, 6), rng.randint(1, 2)], True),
    "majcomp": lambda rng: ([rng.randint(2, 6), rng.randint(1, 2)], True),
}

# families whose clauses stay narrow/small enough to substitute into
SMALL_BASE = ["and", "or", "true", "false", "parity", "peb", "ptn", "vdw",
              "randkcnf", "bphp", "kcolor", "tiling", "matching", "php"]


TINY_BASE = ["and", "or", "true", "false", "parity", "peb", "ptn"]
CHEAP_TRANSFORMS = ["none", "flip", "shuffle", "or", "xor", "lift",
                    "xorcomp", "majcomp"]


def _ints(toks):
    return [int(t) for t in toks if str(t).lstrip("-").isdigit()]


# number of variables of the sub-commands for which it is a closed form of
# the arguments (used to size an explicit compression graph)
KNOWN_COUNT = {
    "and": lambda a: sum(_ints(a)[:2]), "or": lambda a: sum(_ints(a)[:2]),
    "parity": lambda a: _ints(a)[0], "ptn": lambda a: _ints(a)[0],
    "php": lambda a: (_ints(a)[0] * _ints(a)[1]
                      if len(_ints(a)) >= 2 and len(a) == 2 else None),
}


def formula_tokens(rng, name, files=None):
    r = FORMULAS[name](rng, files or {})
    if r is None:
        return None
    toks, rnd = r
    return [name] + [str(t) for t in toks], rnd


def command_line(rng, tool="cnfgen", files=None, want_random=None,
                 seed=None, transforms=True, options=True, document=0.0):
    """A (mostly) valid command line.  Returns dict(argv, random, name,
    output_format, outfile)."""
    files = files or {}
    # document: probability of the richest kind of output, a LaTeX document
    # about a formula transformed along a mapping given as a graph
    # specification (everything the command line carries ends up in it)
    doc = tool == "cnfgen" and transforms and options and \
        rng.random() < document
    for _ in range(50):
        names = sorted(FORMULAS)
        chain = []
        if doc:
            names = sorted(n for n in SMALL_BASE if n in KNOWN_COUNT)
            chain = [rng.choice(["xorcomp", "majcomp"])]
        elif tool == "cnfgen" and transforms and rng.random() < 0.35:
            names = SMALL_BASE
            chain = [rng.choice(sorted(TRANSFORMS))
                     for _ in range(rng.choice([1, 1, 2]))]
            if len(chain) == 2:
                # two substitutions multiply: keep base and arities tiny
                names = TINY_BASE
                chain = [rng.choice(CHEAP_TRANSFORMS) for _ in chain]
        name = rng.choice(names)
        r = formula_tokens(rng, name, files)
        if r is None:
            continue
        toks, rnd = r
        argv = [tool]
        fmt = None
        outfile = None
        if options:
            if rng.random() < 0.25:
                argv.append(rng.choice(["-q", "-v", "--quiet", "--verbose"]))
            if rng.random() < 0.2:
                argv.append("--varnames")
            if doc or rng.random() < 0.3:
                fmts = ["dimacs", "opb", "latex"] if tool == "cnfgen" \
                    else ["opb", "latex"]
                fmt = "latex" if doc else rng.choice(fmts)
                argv += [rng.choice(["-of", "--output-format"]), fmt]
            elif rng.random() < 0.1:
                argv.append(rng.choice(["-l", "-l", "--latex"]))
                fmt = "latex"
            if rng.random() < 0.15:
                outfile = rng.choice(["out.cnf", "out.opb", "out.tex",
                                      "out.txt"])
                argv += ["-o", outfile]
        if seed is not None:
            argv += [rng.choice(["--seed", "-S"]), str(seed)]
        optend = len(argv)
        argv += toks
        nvars = KNOWN_COUNT[name](toks) if name in KNOWN_COUNT else None
        for ti, t in enumerate(chain):
            targs, trnd = TRANSFORMS[t](rng)
            if ti == 0 and t in ("xorcomp", "majcomp") and nvars and \
                    (doc or rng.random() < 0.5):
                # the mapping given as a bipartite graph with one left
                # vertex per variable of the formula
                # (two substitutions multiply: arities stay tiny then)
                R = rng.randint(2, 5) if len(chain) == 1 else 2
                targs = rng.choice([["complete", nvars, R],
                                    ["glrd", nvars, R, rng.randint(1, 2)],
                                    ["glrp", nvars, R, 0.5],
                                    ["shift", nvars, R, 0, 1]])
                trnd = targs[0] in ("glrd", "glrp")
            argv += ["-T", t] + [str(x) for x in targs]
            rnd = rnd or trnd
        if want_random is not None and rnd != want_random:
            continue
        return {"argv": argv, "random": rnd, "name": name, "fmt": fmt,
                "outfile": outfile, "chain": chain, "optend": optend}
    return {"argv": [tool, "true"], "random": False, "name": "true",
            "fmt": None, "outfile": None, "chain": [], "optend": 1}


WITH_ARG = ("-o", "--output", "-of", "--output-format", "-S", "--seed")
SHORT_FLAGS = ("-q", "-v", "-l")


def respell_options(rng, opts):
    """The same options in another spelling argparse accepts: another
    order, '--opt=value', '-ovalue', clusters of short options ('-ql',
    '-qo file')."""
    groups = []
    i = 0
    while i < len(opts):
        if opts[i] in WITH_ARG and i + 1 < len(opts):
            groups.append([opts[i], opts[i + 1]])
            i += 2
        else:
            groups.append([opts[i]])
            i += 1
    if rng.random() < 0.3:
        rng.shuffle(groups)
    out = []
    cluster_open = False        # the last token is a cluster of short flags
    for g in groups:
        if len(g) == 1:
            if g[0] in SHORT_FLAGS and cluster_open and rng.random() < 0.6:
                out[-1] += g[0][1]
            else:
                out.append(g[0])
                cluster_open = g[0] in SHORT_FLAGS
            continue
        opt, val = g
        plain = val != "" and not val.startswith("-")
        if opt in ("-o", "-S") and cluster_open and rng.random() < 0.6:
            out[-1] += opt[1]
            if plain and rng.random() < 0.3:
                out[-1] += val
            else:
                out.append(val)
        elif rng.random() < 0.3 and (opt.startswith("--") or opt == "-of"):
            out.append(opt + "=" + val)
        elif rng.random() < 0.2 and opt in ("-o", "-S") and plain:
            out.append(opt + val)
        else:
            out += [opt, val]
        cluster_open = False
    return out


def expand_options(argv):
    """Undo the spellings of respell_options (an independent reading of
    the conventions of argparse): one token per option and per value."""
    out = []
    for a in argv:
        if a.startswith("--") and "=" in a:
            out += a.split("=", 1)
        elif a.startswith("-of="):
            out += ["-of", a[4:]]
        elif len(a) > 2 and a[0] == "-" and a[1] != "-" and a != "-of":
            toks = []
            j = 1
            while j < len(a):
                ch = a[j]
                if ch in "qvlh":
                    toks.append("-" + ch)
                    j += 1
                elif ch in "oS":
                    toks.append("-" + ch)
                    rest = a[j + 1:]
                    if rest.startswith("="):
                        rest = rest[1:]
                    if rest:
                        toks.append(rest)
                    j = len(a)
                else:
                    toks = None
                    break
            out += toks if toks else [a]
        else:
            out.append(a)
    return out


def registry_gaps():
    """Sub-commands / transformations offered by cnfgen but not in the
    registry (and vice versa)."""
    from cnfgen.clitools.cmdline import (get_formula_helpers,
                                         get_transformation_helpers)
    have_f = set(h.name for h in get_formula_helpers())
    have_t = set(h.name for h in get_transformation_helpers())
    return {"formulas_not_in_registry": sorted(have_f - set(FORMULAS)),
            "registry_formulas_unknown_to_cnfgen":
                sorted(set(FORMULAS) - have_f),
            "transformations_not_in_registry":
                sorted(have_t - set(TRANSFORMS)),
            "registry_transformations_unknown_to_cnfgen":
                sorted(set(TRANSFORMS) - have_t)}
