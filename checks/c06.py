"""C06 - DIMACS output round-trips and the DIMACS reader never misreads.

One run = one store/load history: build a formula, store it through one of
the writer entry points onto a simulated device, optionally damage the
stored bytes or the device, load it back through one of the reader entry
points, and compare with the independent three-valued reference reader.
"""
import importlib
import re
import sys

import cnfgen
import cnfgen.utils.parsedimacs as _parsedimacs
from cnfgen import CNF
from cnfgen.utils.parsedimacs import to_dimacs_file
from cnfgen.clitools.cnfgen import cli as cnfgen_cli
from cnfgen.clitools.cnfshuffle import cli as cnfshuffle_cli
from cnfgen.clitools.cmdline import CLIError
import cnfgen.clitools.msg as climsg

from detsim.core import Violation, call, exc_signature
from detsim.refmodels import cnfref
from detsim.runner import REPO
from detsim.simio import (SimFS, SimStream, damage, open_router, text_reader,
                          text_writer, DAMAGE_KINDS)
from detsim.simrandom import SimRandom, installed
from checks import registry

ID = "C06"
LEVEL = "fault_enumeration"
RULE = ("one run = build a formula (hand-built history with hostile header "
        "texts and variable names, or a small family/transformation chain), "
        "store it (to_file by name on the simulated disk / to a stream with "
        "short writes / to_dimacs / stdout; header and varnames on/off), "
        "optionally damage the stored bytes (12 kinds) or the device (short "
        "reads, EIO), load it (from_file by name / stream / stdin) and "
        "compare with the reference reader; config 'truncate' enumerates the "
        "truncation of the stored file at every byte offset. Non-trivial: "
        "formula has >= 1 clause; distinct = distinct (stored bytes, fault "
        "list, load path).")
ASSUMPTIONS = [
    "the reference reader of detsim/refmodels/cnfref.py defines what a text "
    "denotes (DESIGN.md appendix B); spellings Python's int() accepts but "
    "DIMACS does not (+3, 1_0, non-ASCII digits) are a gray zone",
    "formulas <= 12 variables / 25 clauses, files <= ~2 kB",
]
COMPONENTS = {
    "real": ["cnfgen.utils.parsedimacs (to_dimacs_file, parse_dimacs, "
             "from_dimacs_file)", "CNF.to_file / to_dimacs / from_file, "
             "guess_output_format", "Python io stack (TextIOWrapper over "
             "BufferedReader/Writer)"],
    "stub": ["raw block device (SimRaw)", "file system (SimFS via "
             "builtins.open router)", "stdin/stdout (SimStream)"],
}
MANIFEST = {
    "text": "Seeded store/load simulation over a simulated disk: every "
            "writer entry point and option combination, stored-byte faults "
            "(truncate, flip, drop/dup/swap lines, blank/comment lines, "
            "token replacement, missing terminator, CRLF, invalid UTF-8, "
            "splice) and device faults (short reads/writes, EIO), every "
            "reader entry point; truncation is enumerated at every byte "
            "offset of each sampled file. Oracle: independent strict scanner "
            "for written text and a three-valued reference reader for "
            "damaged text; several reads in one simulated process (a failed "
            "read must not influence the next one); the command line "
            "readers (cnfgen dimacs, cnfshuffle) are load paths too.",
    "design_ref": "DESIGN.md 4.1",
    "note": "Sampling plus per-file enumeration of truncation points; the "
            "reference reader is trusted; real disks are not exercised.",
    "technique": "deterministic simulation with fault injection (simulated "
                 "block device, stored-byte and device faults, enumerated "
                 "truncation offsets, reference-reader oracle)",
}
CONFIGS = {
    "quick": [("roundtrip", 14000), ("damage", 22000), ("truncate", 1500),
              ("text", 12000), ("sequence", 8000)],
    "thorough": [("roundtrip", 3), ("damage", 5), ("truncate", 1),
                 ("text", 3), ("sequence", 2)],
}
CHUNK = 150

DESCRIPTIONS = [
    None, "plain description", "", "café φ formula", "100% of it",
    "back\\slash", "p cnf 3 2", "c comment", "tab\there", "line1\nline2",
    "line1\r\nline2", "trailing newline\n", "\np cnf 1 1\n1 0", " 1 2 0",
    "{braces} {0}", " separator", "x" * 300,
]
LABELS = ["x", "Y", "z_{1}", "café", "a b", "n\nl", "p cnf 1 1", "%",
          "{}", "c", "φ_1", "file_\udcff"]


def _gen_formula(rng):
    n, clauses = cnfref.random_cnf(rng, max_vars=12, max_clauses=25)
    if rng.random() < 0.06:
        # files longer than every io buffer involved, 3-digit literals
        n = rng.choice([100, 150, 1000])
        clauses = [[rng.choice([1, -1]) * rng.randint(1, n)
                    for _ in range(rng.randint(0, 5))]
                   for _ in range(rng.choice([100, 128, 300]))]
    f = {"n": n, "clauses": clauses,
         "description": rng.choice(DESCRIPTIONS),
         "header": {}, "groups": []}
    if rng.random() < 0.3:
        for _ in range(rng.choice([1, 2])):
            f["header"][rng.choice(["note", "source", "k e y", "p", "x\ny"])
                        ] = rng.choice(DESCRIPTIONS[1:])
    if rng.random() < 0.4:
        for _ in range(rng.choice([1, 2, 3])):
            if rng.random() < 0.5:
                f["groups"].append({"op": "var", "label": rng.choice(LABELS)})
            else:
                ranges = [rng.choice([1, 2, 3])
                          for _ in range(rng.choice([1, 2]))]
                labels = [None, "q_{{{}}}", "café{}", "n\n{}"]
                if len(ranges) == 2:
                    labels.append("w({},{})")
                f["groups"].append({"op": "block", "ranges": ranges,
                                    "label": rng.choice(labels)})
    if rng.random() < 0.1:
        # python's True is the integer 1: a literal like any other
        f["bool_literals"] = True
    if rng.random() < 0.15:
        # insertions that the formula refuses, somewhere in its history:
        # what is stored afterwards is the formula without them
        f["refused"] = [[rng.randint(0, len(clauses)),
                         rng.choice([[1, 0], [0], [1, "x"], [2, 0, 3],
                                     [None], [0, 0], [1.5], [1, 2.0]])]
                        for _ in range(rng.choice([1, 1, 2]))]
    return f


def _gen_family(rng):
    name = rng.choice(sorted(registry.FAMILIES))
    gen = registry.FAMILIES[name][0]
    chain = []
    if rng.random() < 0.4:
        chain = [rng.choice(sorted(registry.TRANSFORMS))
                 for _ in range(rng.choice([1, 2]))]
    return {"family": name, "params": gen(rng, 1), "chain": chain,
            "chain_seed": rng.randrange(2 ** 32),
            "prng_seed": rng.randrange(2 ** 32)}


def _gen_store(rng):
    return {"how": rng.choice(["file", "file", "stream", "to_dimacs",
                               "stdout"]),
            # (the name of an open file is a number for os.fdopen, pipes
            # and tempfile.TemporaryFile, None for a SpooledTemporaryFile)
            "name": rng.choice(["f.cnf", "f.dimacs", "f", "out.txt", "f.tex",
                                "f.opb", 3, None]),
            "header": rng.random() < 0.6, "varnames": rng.random() < 0.4,
            "write_chunk": rng.choice([None, None, 1, 3, 7])}


def _gen_load(rng):
    how = rng.choice(["file", "file", "stream", "stdin"])
    if rng.random() < 0.07:
        # the command line entry points (~35 ms each: kept rare)
        how = rng.choice(["cli_dimacs", "cli_dimacs_stdin",
                          "cnfshuffle_identity",
                          "cnfshuffle_identity_stdin"])
    return {"how": how, "newline": rng.choice([None, "\n", ""]),
            "chunk": rng.choice([None, None, 1, 2, 3, 5, 7])}


def _valid_text(rng):
    n, clauses = cnfref.random_cnf(rng, max_vars=6, max_clauses=6)
    lines = ["c a formula", "p cnf %d %d" % (n, len(clauses))]
    for c in clauses:
        toks = [str(l) for l in c] + ["0"]
        if len(toks) > 2 and rng.random() < 0.3:
            k = rng.randrange(1, len(toks))
            lines.append(" ".join(toks[:k]))      # clause over two lines
            lines.append(" ".join(toks[k:]))
        else:
            lines.append(" ".join(toks))
    if rng.random() < 0.5:
        lines.insert(rng.randrange(2, len(lines) + 1), "c a note")
    # line ends: unix, dos, old mac, a mixture (files travel)
    r = rng.random()
    if r < 0.75:
        return "\n".join(lines) + "\n"
    if r < 0.82:
        return "\r\n".join(lines) + "\r\n"
    if r < 0.88:
        return "\r".join(lines) + "\r"
    return "".join(l + rng.choice(["\n", "\n", "\r\n", "\r"]) for l in lines)


def generate(rng, config):
    if config == "sequence":
        # several reads in ONE process: a failed read must not influence
        # the next one
        texts = []
        for _ in range(rng.choice([2, 3, 4])):
            t = _valid_text(rng)
            r = rng.random()
            if r < 0.45:
                d, _ = damage(t.encode(), rng, kinds=(
                    "truncate", "token", "drop_final_zero", "flip",
                    "splice"))
                t = d.decode("utf-8", "replace")
            elif r < 0.55:
                t = _gen_text(rng)
            texts.append(t)
        return {"texts": texts, "load": _gen_load(rng), "faults": []}
    if config == "text":
        return {"text": _valid_text(rng) if rng.random() < 0.25
                else _gen_text(rng), "load": _gen_load(rng), "faults": []}
    case = {"formula": _gen_family(rng) if rng.random() < 0.3
            else _gen_formula(rng),
            "store": _gen_store(rng), "load": _gen_load(rng), "faults": []}
    if config == "roundtrip":
        # the locale of the process (what open() without an encoding uses)
        case["locale"] = rng.choice([None, None, None, "ascii", "latin-1",
                                     "cp1252"])
    if config == "damage":
        k = rng.choice([1, 1, 1, 2, 3])
        case["faults"] = [{"kind": "stored", "seed": rng.randrange(2 ** 30),
                           "which": rng.choice(DAMAGE_KINDS)}
                          for _ in range(k)]
        if rng.random() < 0.15:
            case["faults"].append({"kind": "eio",
                                   "at": rng.choice([0, 1, 5, 20, 60, 200])})
    elif config == "truncate":
        case["faults"] = [{"kind": "truncate_all"}]
        if case["load"]["how"].startswith(("cli", "cnfshuffle")):
            case["load"]["how"] = "file"
        case["store"]["header"] = rng.random() < 0.3
    return case


TOKENS = ["p", "cnf", "c", "0", "1", "-1", "2", "-2", "3", "-3", "4", "\n",
          "\n", "\n", " ", "\t", "p cnf", "p cnf 2 1\n", "p cnf 3 2\n", "00",
          "-0", "+1", "1_0", "x", "-", "%", "\r\n", "\r", "٣", "1.0",
          "c x\n", "pcnf", "99", "-99", "\x0c", " ", "0\n", " 0\n",
          "\x1c", "1\x1c2", "\u2028", "\x85", "\x1f0", "2\u20283", "c x\r",
          "c\r", "\r"]


def _gen_text(rng):
    """Arbitrary DIMACS-like text assembled from tokens."""
    k = rng.choice([0, 1, 3, 6, 10, 16, 25])
    parts = []
    if rng.random() < 0.7:
        parts.append("p cnf %d %d\n" % (rng.randint(0, 4), rng.randint(0, 4)))
    for _ in range(k):
        parts.append(rng.choice(TOKENS))
        if rng.random() < 0.6:
            parts.append(" ")
    return "".join(parts)


# ---------------------------------------------------------------------------

def build_formula(f, ctx):
    """Return (F, how) from the JSON description."""
    if "family" in f:
        gen, build, count, _ = registry.FAMILIES[f["family"]]
        with installed(SimRandom(f["prng_seed"])):
            F = build(f["params"], CNF)
            import random as _r
            crng = _r.Random(f["chain_seed"])
            for tname in f["chain"]:
                if len(F) > 60 or F.number_of_variables() > 40 or \
                        max([len(c) for c in F] or [0]) > 4:
                    break
                tgen, tapply, _ = registry.TRANSFORMS[tname]
                F = tapply(F, tgen(crng, F.number_of_variables()))
        return F
    if f["description"] is None:
        F = CNF()
    else:
        F = CNF(description=f["description"])
    for g in f["groups"]:
        if g["op"] == "var":
            F.new_variable(g["label"])
        elif g["label"] is None:
            F.new_block(*g["ranges"])
        else:
            F.new_block(*g["ranges"], label=g["label"])
    # (python's True is the integer 1, also as a count)
    F.update_variable_number(True if f.get("bool_literals") and f["n"] == 1
                             else f["n"])
    refused = {}
    for pos, bad in f.get("refused") or []:
        refused.setdefault(pos, []).append(bad)
    for i, c in enumerate(f["clauses"]):
        for bad in refused.get(i, []):
            if call(F.add_clause, list(bad))[0] == "exc":
                ctx.fault("refused_insertion_in_history")
        if f.get("bool_literals"):
            c = [True if l == 1 else l for l in c]
        F.add_clause(list(c))
    for bad in refused.get(len(f["clauses"]), []):
        if call(F.add_clause, list(bad))[0] == "exc":
            ctx.fault("refused_insertion_in_history")
    for k, v in f["header"].items():
        F.header[k] = v
    return F


def _store(F, st, fs, ctx, enc=None):
    """Store F; return the stored bytes (what a later reader will find).
    enc: the encoding of the locale, which is the one of the standard
    output and of a stream that the caller opened without naming one."""
    kw = {"export_header": st["header"], "export_varnames": st["varnames"]}
    how = st["how"]
    plan = {"write_chunk": st["write_chunk"]} if st["write_chunk"] else {}
    if how == "file":
        name = st["name"] if isinstance(st["name"], str) else "f.cnf"
        fs.put(name, b"", plan=plan)
        # an explicit format request must override the extension
        fmt = "dimacs" if name.endswith((".tex", ".opb")) else None
        r = call(F.to_file, name, fileformat=fmt, **kw)
        data = fs.data(name)
    elif how == "stream":
        w, raw = text_writer(name=st["name"], plan=plan, on_fire=ctx.fault,
                             encoding=enc or "utf-8")
        fmt = "dimacs" if str(st["name"]).endswith((".tex", ".opb")) \
            else None
        r = call(F.to_file, w, fileformat=fmt, **kw)
        if r[0] == "ok":
            w.flush()
        data = bytes(raw.buf)
    elif how == "to_dimacs":
        r = call(F.to_dimacs)
        data = r[1].encode("utf-8") if r[0] == "ok" else b""
        st = dict(st, header=False, varnames=False)
    else:
        out = SimStream(name="<stdout>", encoding=enc or "utf-8")
        saved = sys.stdout
        sys.stdout = out
        try:
            r = call(to_dimacs_file, F, None, **kw)
        finally:
            sys.stdout = saved
        data = out.text().encode(enc or "utf-8")
    return r, data


def _load(data, ld, fs, ctx, name="in.cnf", plan_extra=None):
    plan = {}
    if ld["chunk"]:
        plan["chunk"] = ld["chunk"]
    if plan_extra:
        plan.update(plan_extra)
    how = ld["how"]
    if how == "file":
        fs.put(name, data, plan=plan)
        return call(CNF.from_file, name)
    # which characters end a line is a property of the stream: universal
    # newlines for open(), LF alone for the standard input of a POSIX
    # process and for io.StringIO
    newline = ld.get("newline") if how == "stream" else "\n"
    stream = text_reader(data, name=name, plan=plan, on_fire=ctx.fault,
                         newline=newline)
    if newline is not None:
        ctx.fault("stream_without_universal_newlines")
    if how == "stream":
        return call(CNF.from_file, stream)
    saved = sys.stdin
    sys.stdin = stream
    climsg._prefix = ""
    try:
        if how == "stdin":
            return call(CNF.from_file, None)
        # the command line entry points ('cnfgen dimacs', cnfshuffle with
        # every component switched off) must read the same formula
        if how in ("cli_dimacs", "cnfshuffle_identity"):
            fs.put(name, data, plan=plan)
        if how == "cli_dimacs":
            r = call(cnfgen_cli, ["cnfgen", "-q", "dimacs", name],
                     mode="formula")
        elif how == "cli_dimacs_stdin":
            r = call(cnfgen_cli, ["cnfgen", "-q", "dimacs"], mode="formula")
        elif how == "cnfshuffle_identity":
            r = call(cnfshuffle_cli, ["cnfshuffle", "-p", "-v", "-c", "-i",
                                      name], mode="formula")
        else:
            r = call(cnfshuffle_cli, ["cnfshuffle", "-p", "-v", "-c"],
                     mode="formula")
        if r[0] == "exc" and isinstance(r[1], CLIError):
            # the tools report a malformed input as a command-line error
            return ("exc", ValueError(str(r[1])))
        return r
    finally:
        sys.stdin = saved
        climsg._prefix = ""


_LONE_CR = re.compile(rb"\r(?!\n)")


def _judge(data, res, ctx, where, eio=False):
    """Compare one load result with the reference reader."""
    def bad(clause, detail):
        raise Violation("C06/%s" % clause, "%s\n%s\nstored=%r" %
                        (where, detail, data[:600]))

    if res[0] == "exc" and not isinstance(res[1], ValueError):
        if eio and isinstance(res[1], OSError):
            ctx.probe("EIO propagated as OSError")
            return
        raise Violation("C06/reader-fails-otherwise/%s" %
                        exc_signature(res[1], REPO),
                        "%s\n%r\nstored=%r" % (where, res[1], data[:600]))
    try:
        text = data.decode("utf-8")
    except UnicodeDecodeError:
        ref = cnfref.Invalid("not UTF-8")
    else:
        ref = cnfref.read_dimacs(text)
    if eio:
        # the device failed: a formula must not be returned unless the text
        # before the fault was already complete (reader may stop at EOF)
        if res[0] == "ok":
            bad("formula-despite-device-error",
                "a formula came back although the device raised EIO")
        return
    if isinstance(ref, cnfref.Gray):
        ctx.note("gray: " + ref.why)
        return
    if isinstance(ref, cnfref.Invalid):
        ctx.probe("reference: invalid (%s)" % ref.why)
        if res[0] == "ok":
            F2 = res[1]
            bad("invalid-text-accepted/" + ref.why,
                "reference reader says invalid (%s) but a formula with %d "
                "variables and clauses %r was returned" %
                (ref.why, F2.number_of_variables(), list(F2)[:10]))
        return
    ctx.probe("reference: valid")
    if res[0] == "exc" and _LONE_CR.search(data):
        # a line ended by CR alone (old Mac): a reader may decline it, it
        # must not read it in two ways
        ctx.probe("text with a lone CR declined")
        return
    if res[0] == "exc":
        bad("valid-text-rejected", "reference reader accepts (n=%d, %d "
            "clauses) but %r was raised" % (ref.n, len(ref.clauses), res[1]))
    F2 = res[1]
    got = [tuple(c) for c in F2]
    if F2.number_of_variables() != ref.n or got != list(ref.clauses):
        bad("text-misread", "text denotes n=%d clauses=%r, reader returned "
            "n=%d clauses=%r" % (ref.n, ref.clauses[:12],
                                 F2.number_of_variables(), got[:12]))


def execute(case, ctx):
    # canonical reset: no parser state may survive from an earlier run of
    # this process (module-level / class-level state is re-created)
    importlib.reload(_parsedimacs)
    fs = SimFS(on_fire=ctx.fault)
    if case.get("locale"):
        fs.locale_encoding = case["locale"]
    ld = case["load"]
    with open_router(fs):
        if "texts" in case:
            for k, t in enumerate(case["texts"]):
                data = t.encode("utf-8", "surrogatepass")
                res = _load(data, ld, fs, ctx, name="in%d.cnf" % k)
                ctx.log("read", k, len(data), ld["how"], res[0])
                _judge(data, res, ctx, "read #%d of %d in one process, "
                       "earlier texts %r, load=%r" %
                       (k + 1, len(case["texts"]), case["texts"][:k], ld))
            ctx.shape = (case["texts"], ld["how"])
            ctx.nontrivial = True
            ctx.probe("several reads in one process")
            return
        if "text" in case:
            data = case["text"].encode("utf-8", "surrogatepass")
            res = _load(data, ld, fs, ctx)
            ctx.log("text", len(data), ld["how"], res[0])
            ctx.shape = (case["text"], ld["how"])
            ctx.nontrivial = len(data) > 8
            _judge(data, res, ctx, "arbitrary text, load=%r" % (ld,))
            return
        F = build_formula(case["formula"], ctx)
        n = F.number_of_variables()
        clauses = [tuple(c) for c in F]
        st = case["store"]
        r, data = _store(F, st, fs, ctx, enc=case.get("locale"))
        ctx.log("store", st["how"], st["name"], st["header"], st["varnames"],
                r[0], len(data))
        where = "formula n=%d m=%d store=%r load=%r" % (n, len(clauses), st,
                                                        ld)
        if r[0] == "exc":
            raise Violation("C06/writer-failed/%s" %
                            exc_signature(r[1], REPO),
                            "%s\n%r" % (where, r[1]))
        # ---- the writer's text ---------------------------------------------
        try:
            text = data.decode("utf-8")
        except UnicodeDecodeError as e:
            raise Violation("C06/writer-output-not-utf8", "%s %r" %
                            (where, e))
        sn, sm, sclauses, problems = cnfref.scan_dimacs_output(text)
        if problems:
            raise Violation("C06/writer-non-comment-line",
                            "%s\n%s\ntext=%r" % (where, problems[:3],
                                                 text[:500]))
        if sn != n or sm != len(clauses):
            raise Violation("C06/writer-problem-line",
                            "%s\nproblem line says %r %r" % (where, sn, sm))
        if sclauses != clauses:
            raise Violation("C06/writer-clauses",
                            "%s\nwritten %r\nin memory %r" %
                            (where, sclauses[:10], clauses[:10]))
        if st["how"] in ("file", "stream", "stdout"):
            has_header = any(l.startswith("c ") and ":" in l
                             for l in text.split("\n"))
            nvar = sum(1 for l in text.split("\n")
                       if l.startswith("c varname "))
            if st["header"] and not has_header:
                raise Violation("C06/writer-header-missing", where)
            if st["varnames"] and nvar != n:
                raise Violation("C06/writer-varnames-count",
                                "%s: %d 'c varname' lines for %d variables" %
                                (where, nvar, n))
        ctx.shape = (data, case["faults"], ld["how"])
        ctx.nontrivial = len(clauses) > 0
        faults = case["faults"]
        if not faults:
            # ---- fault-free load: strict equality -----------------------------
            res = _load(data, ld, fs, ctx)
            ctx.log("load", ld["how"], ld["chunk"], res[0])
            if res[0] == "exc":
                raise Violation("C06/roundtrip-load-failed/%s" %
                                exc_signature(res[1], REPO),
                                "%s\n%r\nstored=%r" % (where, res[1],
                                                       data[:400]))
            F2 = res[1]
            if F2.number_of_variables() != n or \
                    [tuple(c) for c in F2] != clauses:
                raise Violation("C06/roundtrip-differs",
                                "%s\nread back n=%d clauses=%r" %
                                (where, F2.number_of_variables(),
                                 list(F2)[:10]))
            if ld["chunk"]:
                ctx.probe("round trip through short reads")
            return
        if faults[0]["kind"] == "truncate_all":
            if len(data) > 400:
                ctx.note("file too long for truncation enumeration")
                return
            for k in range(len(data) + 1):
                ctx.fault("truncate")
                res = _load(data[:k], ld, fs, ctx)
                _judge(data[:k], res, ctx, "%s truncated at %d/%d" %
                       (where, k, len(data)))
            ctx.log("truncate_all", len(data))
            return
        import random as _r
        eio = None
        applied = []
        for f in faults:
            if f["kind"] == "stored":
                data, what = damage(data, _r.Random(f["seed"]),
                                    kinds=(f["which"],))
                if what[0] != "none":
                    ctx.fault("stored:" + what[0])
                applied.append(what)
            elif f["kind"] == "eio":
                eio = f["at"]
        extra = None
        if eio is not None and eio < len(data):
            extra = {"eio_at": eio}
        res = _load(data, ld, fs, ctx, plan_extra=extra)
        ctx.log("load-damaged", applied, eio, ld["how"], res[0])
        _judge(data, res, ctx, "%s faults=%r eio=%r" % (where, applied, eio),
               eio=extra is not None)


SHRINK_SKIP = {"seed", "chain_seed", "prng_seed"}
