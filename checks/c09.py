"""C09 - shuffling is a signed renaming of variables plus a clause reordering.

Shuffle / '-T shuffle' / cnfshuffle run on the simulated PRNG; the witness
(flips, variable bijection, clause permutation) is reconstructed from the
PRNG transcript (or is the explicit argument) and the output is compared,
clause by clause, with the reference application of that witness.
"""
import itertools
import sys

import cnfgen
from cnfgen import CNF
from cnfgen.transformations.shuffle import Shuffle
from cnfgen.clitools.cnfgen import cli as cnfgen_cli
from cnfgen.clitools.cnfshuffle import cli as cnfshuffle_cli
from cnfgen.clitools.cmdline import CLIError
import cnfgen.clitools.msg as climsg

from detsim.core import HarnessError, Violation, call, exc_signature
from detsim.refmodels import cnfref
from detsim.runner import REPO
from detsim.simio import SimFS, SimStream, open_router, text_reader
from detsim.simrandom import SimRandom, installed

ID = "C09"
LEVEL = "exploration"
RULE = ("one run = one shuffle of a random CNF (0..8 variables, 0..12 "
        "clauses incl. empty clauses, repeated/opposite literals, unused "
        "variables; 12% of the runs 10..25 variables and 10..30 clauses) through Shuffle(), 'cnfgen dimacs f -T shuffle' or "
        "cnfshuffle (file or stdin; the input file in a drawn legal layout: "
        "wrapped clauses, several clauses per line, comments, indentation), "
        "each of the three components fixed / "
        "random / explicit (valid or invalid), on a fair or adversarial "
        "PRNG; the witness is read from the PRNG transcript. Non-trivial: "
        "N >= 2, M >= 2 and at least one component random or explicit; "
        "distinct = distinct (formula, arguments, PRNG).")
ASSUMPTIONS = ["witness reconstruction assumes the three random components "
               "are drawn as N sign choices and two shuffles; when the "
               "transcript has another shape the witness is searched "
               "exhaustively (N <= 5) or only weaker invariants are checked",
               "N <= 8 (model counting by enumeration)"]
COMPONENTS = {"real": ["cnfgen.transformations.shuffle.Shuffle",
                       "ShuffleCmd via cnfgen cli()", "cnfshuffle cli() "
                       "incl. its DIMACS input"],
              "stub": ["PRNG: SimRandom", "input file / stdin (SimFS, "
                       "SimStream)"]}
MANIFEST = {
    "text": "Deterministic simulation of the three shuffling entry points "
            "on a PRNG seam (fair streams and adversarial identity / "
            "reverse / all-flips / no-flips outcomes) with explicit, fixed "
            "and invalid arguments; the witness permutation is taken from "
            "the PRNG transcript and the result is compared clause by "
            "clause with a reference application, plus model counts. "
            "Exploration by sampling.",
    "design_ref": "DESIGN.md 4.3",
    "note": "If Shuffle changes how it draws randomness the transcript "
            "witness is unavailable and the check falls back to exhaustive "
            "witness search (N <= 5) or invariants only; it never alarms "
            "without a witness or an exhaustive refutation.",
    "technique": "deterministic simulation on the PRNG seam with transcript "
                 "witnesses, reference-model comparison",
}
CONFIGS = {
    "quick": [("lib", 40000), ("cli", 1200), ("cnfshuffle", 1200)],
    "thorough": [("lib", 12), ("cli", 1), ("cnfshuffle", 1)],
}
CHUNK = 250


def _explicit(rng, kind, N, M):
    """(value, valid?) for an explicit argument."""
    if kind == "flips":
        v = [rng.choice([-1, 1]) for _ in range(N)]
        r = rng.random()
        if r < 0.25:
            bad = list(v)
            how = rng.choice(["len+", "len-", "zero", "two"])
            if how == "len+":
                bad.append(1)
            elif how == "len-" and bad:
                bad.pop()
            elif how == "zero" and bad:
                bad[rng.randrange(N)] = 0
            elif how == "two" and bad:
                bad[rng.randrange(N)] = 2
            if bad != v:
                return bad, False
        return v, True
    n = N if kind == "vars" else M
    base = list(range(1, n + 1)) if kind == "vars" else list(range(n))
    rng.shuffle(base)
    r = rng.random()
    if r < 0.25:
        bad = list(base)
        how = rng.choice(["len+", "len-", "dup", "range", "shift"])
        if how == "len+":
            bad.append(n + 1 if kind == "vars" else n)
        elif how == "len-" and bad:
            bad.pop()
        elif how == "dup" and len(bad) >= 2:
            bad[0] = bad[1]
        elif how == "range" and bad:
            bad[rng.randrange(n)] = n + 5
        elif how == "shift" and bad:
            bad = [x + (-1 if kind == "vars" else 1) for x in bad]
        if bad != base:
            return bad, False
    return base, True


def generate(rng, config):
    n, clauses = cnfref.random_cnf(rng, max_vars=8, max_clauses=12)
    if rng.random() < 0.12:
        # two-digit variables and clause positions
        n = rng.choice([10, 11, 16, 25])
        clauses = [[rng.choice([1, -1]) * rng.randint(1, n)
                    for _ in range(rng.randint(0, 4))]
                   for _ in range(rng.choice([10, 11, 14, 30]))]
    case = {"n": n, "clauses": clauses, "entry": config}
    M = len(clauses)
    args = {}
    for comp, kind in (("flips", "flips"), ("vars", "vars"),
                       ("clauses", "clauses")):
        r = rng.random()
        if config != "lib":
            args[comp] = {"mode": "fixed" if r < 0.4 else "shuffle"}
        elif r < 0.25:
            args[comp] = {"mode": "fixed"}
        elif r < 0.6:
            args[comp] = {"mode": "shuffle"}
        else:
            v, ok = _explicit(rng, kind, n, M)
            args[comp] = {"mode": "explicit", "value": v, "valid": ok,
                          "as": rng.choice(["list", "list", "tuple", "iter",
                                            "generator", "range",
                                            "floats"])}
    case["args"] = args
    strat = rng.choice([None, None, None, "identity", "reverse", "low",
                        "high", "mix", "repeat"])
    case["prng"] = {"seed": rng.randrange(2 ** 32), "strategy": strat,
                    "budget": rng.choice([1, 3, 10, 100]) if strat else 0}
    if config != "lib":
        case["seed_arg"] = rng.choice([None, None, 5, "abc"]) \
            if config == "cnfshuffle" else rng.choice([None, None, 5, 0])
        case["stdin"] = rng.random() < 0.4
        case["tagged"] = False
        if rng.random() < 0.4:
            # the input file is somebody else's: any legal DIMACS layout
            case["layout"] = {"wrap": rng.choice([0, 0, 1, 2, 3]),
                              "join": rng.random() < 0.4,
                              "comments": rng.random() < 0.4,
                              "indent": rng.random() < 0.3}
    return case


def _dimacs(n, clauses, layout=None):
    if not layout:
        return "p cnf %d %d\n" % (n, len(clauses)) + "".join(
            " ".join(str(l) for l in c) + " 0\n" for c in clauses)
    # same formula, another legal layout: clauses end at 0, not at the end
    # of the line
    toks = []
    for c in clauses:
        toks.extend(str(l) for l in c)
        toks.append("0")
    lines, cur = [], []
    for t in toks:
        cur.append(t)
        full = len(cur) >= layout["wrap"] if layout["wrap"] else t == "0"
        if full and not (layout["join"] and t == "0" and len(lines) % 2):
            lines.append(cur)
            cur = []
    if cur:
        lines.append(cur)
    out = ["c wrapped by another tool\n" if layout["comments"] else "",
           "p cnf %d %d\n" % (n, len(clauses))]
    for i, ln in enumerate(lines):
        if layout["comments"] and i % 3 == 1:
            out.append("c 1 2 0 not a clause\n\n")
        out.append(("  " if layout["indent"] else "") +
                   ("\t" if layout["indent"] and i % 2 else " ").join(ln) +
                   "\n")
    text = "".join(out)
    back = cnfref.read_dimacs(text)
    if not isinstance(back, cnfref.Valid) or back.n != n or \
            [list(c) for c in back.clauses] != [list(c) for c in clauses]:
        raise HarnessError("C09 layout generator wrote %r for %r" %
                           (text, clauses))
    return text


def _apply(n, clauses, flips, P, T):
    """Reference: clause i goes to position T[i]; variable v -> flips*P."""
    out = [None] * len(clauses)
    for i, c in enumerate(clauses):
        out[T[i]] = [flips[abs(l) - 1] * (1 if l > 0 else -1) * P[abs(l) - 1]
                     for l in c]
    return out


def _witness_from_transcript(sim, args, N, M):
    """(flips, P, T) or None if the transcript has an unexpected shape."""
    ev = [e for e in sim.transcript if e[0] != "seed"]
    pos = 0
    if args["flips"]["mode"] == "shuffle":
        ch = ev[pos:pos + N]
        if len(ch) != N or any(e[0] != "choice" or e[1] != (2,)
                               for e in ch):
            return None
        flips = [(-1, 1)[e[2]] for e in ch]
        pos += N
    else:
        flips = None
    if args["vars"]["mode"] == "shuffle":
        if pos >= len(ev) or ev[pos][0] != "shuffle" or ev[pos][1] != (N,):
            return None
        P = [i + 1 for i in ev[pos][2]]
        pos += 1
    else:
        P = None
    if args["clauses"]["mode"] == "shuffle":
        if pos >= len(ev) or ev[pos][0] != "shuffle" or ev[pos][1] != (M,):
            return None
        T = list(ev[pos][2])
        pos += 1
    else:
        T = None
    if pos != len(ev):
        return None
    return flips, P, T


def execute(case, ctx):
    N = case["n"]
    clauses = [list(c) for c in case["clauses"]]
    M = len(clauses)
    args = case["args"]
    sim = SimRandom(case["prng"]["seed"], case["prng"]["strategy"],
                    case["prng"]["budget"], max_draws=100_000)
    entry = case["entry"]
    fs = SimFS(on_fire=ctx.fault)
    climsg._prefix = ""
    F = CNF()
    F.update_variable_number(N)
    for c in clauses:
        F.add_clause(list(c))

    def conv(a):
        if a["mode"] != "explicit":
            return a["mode"]
        v = list(a["value"])
        if a["as"] == "range" and v and v == list(range(v[0], v[0] +
                                                        len(v))):
            return range(v[0], v[0] + len(v))
        return {"tuple": tuple, "iter": iter,
                "floats": lambda x: [float(y) for y in x],
                "generator": lambda x: (y for y in x)}.get(a["as"], list)(v)

    with installed(sim), open_router(fs):
        if entry == "lib":
            res = call(Shuffle, F, conv(args["flips"]), conv(args["vars"]),
                       conv(args["clauses"]))
        else:
            text = _dimacs(N, clauses, case.get("layout"))
            if case.get("layout"):
                ctx.fault("input_layout_not_one_clause_per_line")
            flags = []
            if args["flips"]["mode"] == "fixed":
                flags.append("-p")
            if args["vars"]["mode"] == "fixed":
                flags.append("-v")
            if args["clauses"]["mode"] == "fixed":
                flags.append("-c")
            saved_in = sys.stdin
            try:
                if entry == "cli":
                    fs.put("in.cnf", text)
                    argv = ["cnfgen", "-q"]
                    if case["seed_arg"] is not None:
                        argv += ["--seed", str(case["seed_arg"])]
                    argv += ["dimacs", "in.cnf", "-T", "shuffle"] + flags
                    res = call(cnfgen_cli, argv, mode="formula")
                else:
                    argv = ["cnfshuffle"] + flags
                    if case["seed_arg"] is not None:
                        argv += ["--seed", str(case["seed_arg"])]
                    if case["stdin"]:
                        sys.stdin = text_reader(text.encode(),
                                                name="<stdin>")
                    else:
                        fs.put("in.cnf", text)
                        argv += ["-i", "in.cnf"]
                    res = call(cnfshuffle_cli, argv, mode="formula")
            finally:
                sys.stdin = saved_in
                climsg._prefix = ""
    ctx.log(entry, N, M, {k: v["mode"] for k, v in args.items()},
            case["prng"]["strategy"], res[0], sim.draws)
    ctx.shape = (N, clauses, args, case["prng"], entry,
                 case.get("seed_arg"), case.get("stdin"))
    if sim.adversarial:
        ctx.fault("adversary:%s" % case["prng"]["strategy"])
    where = "entry=%s N=%d clauses=%r args=%r prng=%r" % (
        entry, N, clauses, args, case["prng"])

    def bad(clause, detail):
        raise Violation("C09/%s" % clause, "%s\n%s" % (where, detail))

    invalid = [k for k, a in args.items()
               if a["mode"] == "explicit" and not a["valid"]]
    if invalid:
        ctx.fault("invalid_explicit_argument")
        if res[0] == "ok":
            bad("invalid-argument-accepted/%s" % invalid[0],
                "a formula was returned")
        if not isinstance(res[1], (ValueError, TypeError)):
            raise Violation("C09/invalid-argument-wrong-error/%s" %
                            exc_signature(res[1], REPO),
                            "%s\n%r" % (where, res[1]))
        ctx.nontrivial = True
        return
    oneshot = [k for k, a in args.items() if a["mode"] == "explicit"
               and a["as"] in ("iter", "generator")]
    if oneshot:
        ctx.fault("one_shot_iterable_argument")
    floats = [k for k, a in args.items() if a["mode"] == "explicit"
              and a["as"] == "floats" and a["value"]]
    if floats:
        ctx.fault("whole_floats_as_explicit_argument")
    if res[0] == "exc" and floats and isinstance(res[1], (ValueError,
                                                           TypeError)):
        # 1.0 is not the integer 1: refusing is fine, applying must give
        # integer literals (checked below)
        ctx.note("gray: whole floats refused")
        return
    if res[0] == "exc" and oneshot and isinstance(res[1], TypeError):
        # the description speaks of lists / sequences, the parameter list
        # of iterables: refusing a one-shot iterator loudly is tolerated,
        # applying it wrongly is not
        ctx.note("gray: one-shot iterable refused with TypeError")
        return
    if res[0] == "exc":
        raise Violation("C09/exception/%s" % exc_signature(res[1], REPO),
                        "%s\n%r" % (where, res[1]))
    G = res[1]
    got = [list(c) for c in G]
    if G.number_of_variables() != N:
        bad("variable-count", "%d variables" % G.number_of_variables())
    if len(got) != M:
        bad("clause-count", "%d clauses" % len(got))
    if sorted(len(c) for c in got) != sorted(len(c) for c in clauses):
        bad("clause-widths", "%r" % (got,))
    for c in got:
        for l in c:
            if type(l) is not int or l == 0 or abs(l) > N:
                bad("literal-range", "%r" % (c,))
    # ---- witness -----------------------------------------------------------
    w = _witness_from_transcript(sim, args, N, M)
    flips = P = T = None
    if w is not None:
        flips, P, T = w
    if args["flips"]["mode"] == "fixed":
        flips = [1] * N
    elif args["flips"]["mode"] == "explicit":
        flips = list(args["flips"]["value"])
    if args["vars"]["mode"] == "fixed":
        P = list(range(1, N + 1))
    elif args["vars"]["mode"] == "explicit":
        P = list(args["vars"]["value"])
    if args["clauses"]["mode"] == "fixed":
        T = list(range(M))
    elif args["clauses"]["mode"] == "explicit":
        T = list(args["clauses"]["value"])
    have = flips is not None and P is not None and T is not None and \
        w is not None
    if have:
        if sorted(abs(x) for x in flips) != [1] * N or \
                sorted(P) != list(range(1, N + 1)) or \
                sorted(T) != list(range(M)):
            bad("witness-not-a-signed-permutation", "flips=%r P=%r T=%r" %
                (flips, P, T))
        want = _apply(N, clauses, flips, P, T)
        if got != want:
            bad("not-the-witness-image", "witness flips=%r vars=%r "
                "clauses=%r\nexpected %r\ngot      %r" %
                (flips, P, T, want, got))
        ctx.probe("witness from transcript/arguments verified")
    elif N <= 5 and M <= 8:
        # exhaustive search over the components that are not pinned
        fl_space = [flips] if flips is not None else \
            list(itertools.product((-1, 1), repeat=N))
        p_space = [P] if P is not None else \
            [list(p) for p in itertools.permutations(range(1, N + 1))]
        found = False
        target_multiset = sorted(map(tuple, got))
        for fl in fl_space:
            for pp in p_space:
                img = _apply(N, clauses, list(fl), pp, list(range(M)))
                if T is not None:
                    if _apply(N, clauses, list(fl), pp, T) == got:
                        found = True
                elif sorted(map(tuple, img)) == target_multiset:
                    found = True
                if found:
                    break
            if found:
                break
        if not found:
            bad("no-signed-permutation-explains-the-output",
                "searched %d x %d candidates\ngot %r" %
                (len(fl_space), len(p_space), got))
        ctx.probe("witness found by exhaustive search")
    else:
        ctx.note("witness not available: invariants only")
    if N <= 8:
        if cnfref.count_models(N, clauses) != cnfref.count_models(N, got):
            bad("model-count", "%d vs %d" % (
                cnfref.count_models(N, clauses),
                cnfref.count_models(N, got)))
    ctx.nontrivial = N >= 2 and M >= 2 and any(
        a["mode"] != "fixed" for a in args.values())
